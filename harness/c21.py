"""C21 -- channel byte streams arrive intact, in order and on the right stream; stderr combining;
exit status.

Proof: coq/Props/C21_props.v over coq/Model/C21.v (transport dispatch by channel id + Channel handlers +
user calls, every operation one atomic step; plus the pre-repair set_combine_stderr/_feed_extended at
statement granularity).
Tie:   (a) direct drive: real Channel objects registered in a real (not started) Transport's `_channels`;
           constructed Messages go through the run() loop's own channel-dispatch statements (cut out of
           Transport.run's source by AST and executed unchanged) and the real `_channel_handler_table`;
           random interleavings over up to 8 channels with random chunk/read sizes and combine switches are
           compared, event by event and buffer by buffer, with `run_case` evaluated inside Coq;
       (b) three deterministic two-thread schedules on a real Channel (a transport-thread `_feed_extended`
           released right after set_combine_stderr's `empty()`, one released right before its re-feed, and a
           set_combine_stderr released between `_feed_extended`'s flag test and its feed) -- the order inversion /
           stranded data of the code before the repair; the other thread either completes inside the section
           (no common lock) or is observed waiting for the channel lock -- no timing involved;
       (c) real loopback client/server transports, several concurrent channels, zlib, re-keys, random chunking,
           both directions, a mid-transfer combine switch, exit status;
       (d) Channel.sendall's chunking against `run_sendall`, and sendall against a finite window and small maximum
           packet sizes against `run_sendall_win` (payloads, unsent rest, final window; oracle: window debit ==
           bytes put on the wire); two quick-tier loopback transfers with ONE sendall far larger than the window
           (64 KiB window / >= 300 KiB, default 2 MiB window / >= 512 KiB) under a progress watchdog;
       (f) sender/receiver pair: a real sending Channel's send / send_stderr / sendall / sendall_stderr /
           send_exit_status (statuses over the whole uint32 range incl. >= 0xff000000) / shutdown_write, with small
           maximum packet sizes; the bytes it put on the wire go unchanged through the receiving transport's dispatch;
           receiver streams / status compared with what the sender was given and with `run_case` on the intended
           messages; loopback server writers are phased around the re-key (first half, re-key, second half + exit
           status + EOF) with zlib@openssh.com on, and a dying transport is reported as a concrete failing case;
       (h) channels opened concurrently from both sides at the id-allocation point: while the server's reader thread
           is inside check_channel_request for an inbound session (id allocated, not yet registered) another server
           thread opens an outbound x11 channel (accepted through a request_x11 handler, or refused); every stream of
           every channel, both directions, and the exit statuses are then compared end to end (id uniqueness itself is
           C23's theorem; this is C21's observable of it);
       (e) exit status at statement granularity: AST check that _handle_request stores exit_status before it sets
           status_event, and two deterministic two-thread schedules (a recv_exit_status() reader released right after
           status_event.set(), and one released while the handler is still reading the status from the message)
           compared with `run_exit`.
Oracle: per-channel stream equality stated directly (reads + remainder == delivered payloads, per stream).
"""
import ast
import inspect
import logging
import os
import socket
import textwrap
import threading
import time

from common import coq, with_watchdog

PID = "C21"
LEVEL_TEXT = ("Machine-checked proof (Coq, closed under the global context), for any number of channels, ANY "
              "interleaving of their incoming messages with any user recv/recv_stderr/set_combine_stderr calls, any "
              "chunking and read sizes: a channel's stdout (stderr) stream -- everything read plus what is still "
              "buffered -- is exactly the concatenation of the DATA (EXTENDED_DATA code 1) payloads delivered to that "
              "channel id, in wire order; with combining, for any sequence of switches, stdout is an order-preserving "
              "merge of the DATA bytes and the stderr bytes not read separately (nothing lost, nothing duplicated, "
              "each stream's order kept; buffered stderr data is moved at the switch; the stderr buffer stays empty "
              "while combining is on); the reported exit status is the (last) one sent -- also for a reader thread "
              "interleaved in any way with the handler's two statements (store, then set); sendall debits the window "
              "by exactly the bytes it puts on the wire; messages for ids that are not "
              "open reach no channel. The model is tied to channel.py / transport.py by a differential run of the "
              "model's own definitions (vm_compute) against real Channel objects driven through the run() loop's own "
              "dispatch statements, by deterministic two-thread schedules on set_combine_stderr, and by real loopback "
              "transfers (zlib, re-keys, 8 channels).")
LEVEL_NOTE = ("Trusted: Coq kernel + vm_compute; gen/c21.py (fail-closed translator: constants regenerated into "
              "Gen/C21_gen.v and re-proved equal to the model's each run; lock / statement-order shapes of the run() "
              "channel branch, set_combine_stderr, _feed_extended, exit-status, recv_exit_status, "
              "_wait_for_send_window, _handle_eof, _handle_close pinned by AST); BufferedPipe is modelled as a list FIFO (its own correctness is C26), "
              "in-order packet delivery is C01, window accounting C19/C20; the identification of the model's atomic "
              "steps with the real critical sections (channel lock in set_combine_stderr/_feed_extended, pipe lock in "
              "feed/read/empty) is validated by the scheduled runs, not proved; recv with a negative size, "
              "truncated DATA messages (zero padding rule of Message.get_bytes, C39) and channel-id reuse (C23) are "
              "outside the model.")
TECHNIQUE = ("Coq proof (induction over arbitrary interleaved histories via a local step relation; order-preserving "
             "merge) + fail-closed AST translator (message numbers, handler table, stderr code, packet overhead, "
             "pinned statement shapes) + vm_compute differential correspondence + deterministic two-thread schedules + loopback transfers")

LOGNAME = "verif.c21"
BIG = 2 ** 31


def _quiet():
    for name in (LOGNAME, "paramiko", "paramiko.transport"):
        lg = logging.getLogger(name)
        if not lg.handlers:
            lg.addHandler(logging.NullHandler())
        lg.propagate = False


def model_mm(ctx, run_fn, case_type, cases, **kw):
    """ctx.model_mismatches, retried once when coqc itself fails (loaded machine)."""
    for attempt in (0, 1):
        try:
            return ctx.model_mismatches(run_fn, case_type, cases, **kw)
        except Exception as e:  # noqa
            if attempt == 0:
                ctx.notes.append("coqc failed once on %s cases (%s); retried" % (run_fn, str(e)[:200]))
            else:
                # never let the model side stop the implementation-level oracles
                ctx.disagree("model %s could not be evaluated (model/translator broken?)" % run_fn,
                             model=str(e)[-600:])
    return []


BATCH = []


def model_later(ctx, ctor, cases, on_bad):
    """Queue cases of a small family for one common model evaluation (`run_any`); cases = [(coq_text, expected)];
    on_bad(i) is called for every index whose model output differs."""
    BATCH.append((ctor, list(cases), on_bad))


def model_flush(ctx):
    global BATCH
    batch, BATCH = BATCH, []
    flat, owner = [], []
    for b, (ctor, cases, on_bad) in enumerate(batch):
        for i, (txt, exp) in enumerate(cases):
            flat.append(("(%s %s)" % (ctor, txt), exp))
            owner.append((b, i))
    if not flat:
        return
    bad = model_mm(ctx, "run_any", "anycase", flat, shard=100)
    hits = {}
    for j in bad:
        b, i = owner[j]
        hits.setdefault(b, []).append(i)
    for b, idxs in hits.items():
        ctor, cases, on_bad = batch[b]
        ctx.log("model %s: %d of %d cases differ" % (ctor, len(idxs), len(cases)))
        for i in idxs[:2]:
            on_bad(i)


# ----------------------------------------------------------------------------------------------
# the run() loop's channel dispatch, cut out of the source


def build_dispatch():
    """Returns f(transport, ptype, m) -> loop keeps running?  The body executed is the real
    `elif ptype in self._channel_handler_table:` branch of Transport.run."""
    import paramiko.transport as T
    src = textwrap.dedent(inspect.getsource(T.Transport.run))
    tree = ast.parse(src)
    target = None
    for node in ast.walk(tree):
        if isinstance(node, ast.If) and ast.unparse(node.test) == "ptype in self._channel_handler_table":
            if target is not None:
                raise RuntimeError("two channel-dispatch branches in Transport.run")
            target = node
    if target is None:
        raise RuntimeError("channel-dispatch branch not found in Transport.run (fail-closed)")
    for n in target.body:
        for sub in ast.walk(n):
            if isinstance(sub, (ast.Continue, ast.Return)):
                raise RuntimeError("unexpected continue/return in the channel-dispatch branch (fail-closed)")
    tmpl = ast.parse("def _c21_dispatch(self, ptype, m):\n    while True:\n        pass\n        return True\n"
                     "    return False\n")
    loop = tmpl.body[0].body[0]
    loop.body[0:1] = target.body
    ast.fix_missing_locations(tmpl)
    ns = dict(T.__dict__)
    exec(compile(tmpl, "<Transport.run channel dispatch>", "exec"), ns)
    return ns["_c21_dispatch"], ast.unparse(target.body[0]) + " ; " + ast.unparse(target.body[1])


# ----------------------------------------------------------------------------------------------
# direct drive


class Rig:
    """A real, not started Transport with real Channels in its map."""

    def __init__(self, reg, dead, extra=()):
        import paramiko
        from paramiko.channel import Channel
        from _loop import LoopSocket
        self.sock = LoopSocket()
        self.t = paramiko.Transport(self.sock)
        self.t.set_log_channel(LOGNAME)
        self.sent = []
        self.t._send_user_message = self.sent.append
        self.alive = True
        self.chans = {}
        for cid in list(reg) + list(dead) + list(extra):
            ch = Channel(cid)
            ch._set_transport(self.t)
            ch._set_window(BIG, 2 ** 15)
            ch._set_remote_channel(1000 + cid % 1000, BIG, 2 ** 15)
            ch.settimeout(0.0)
            self.chans[cid] = ch
        for cid in reg:
            self.t._channels.put(cid, self.chans[cid])
            self.t.channels_seen[cid] = True
        for cid in dead:
            self.t.channels_seen[cid] = True

    def close(self):
        for ch in self.chans.values():
            ch.closed = True        # keep __del__ quiet
        try:
            self.sock.close()
        except Exception:
            pass


def build_message(cid, m):
    """(ptype, Message positioned after the type byte) for a model message."""
    from paramiko.message import Message
    from paramiko import common as C
    msg = Message()
    msg.add_int(cid)
    kind = m[0]
    if kind == "Data":
        pt = C.MSG_CHANNEL_DATA
        msg.add_string(bytes(m[1]))
    elif kind == "ExtData":
        pt = C.MSG_CHANNEL_EXTENDED_DATA
        msg.add_int(m[1])
        msg.add_string(bytes(m[2]))
    elif kind == "ExitStatus":
        pt = C.MSG_CHANNEL_REQUEST
        msg.add_string("exit-status")
        msg.add_boolean(False)
        msg.add_int(m[1])
    elif kind == "ReqOther":
        pt = C.MSG_CHANNEL_REQUEST
        msg.add_string("xon-xoff")
        msg.add_boolean(False)
        msg.add_boolean(True)
    elif kind == "WinAdj":
        pt = C.MSG_CHANNEL_WINDOW_ADJUST
        msg.add_int(m[1])
    elif kind == "Success":
        pt = C.MSG_CHANNEL_SUCCESS
    elif kind == "Eof":
        pt = C.MSG_CHANNEL_EOF
    elif kind == "Close":
        pt = C.MSG_CHANNEL_CLOSE
    else:
        raise ValueError(kind)
    return pt, Message(msg.asbytes())


def impl_run(dispatch, reg, dead, ids, ops):
    """Run a history on the real objects.  Returns (canonical list, per-channel observations)."""
    rig = Rig(reg, dead, [c for c in ids if c not in reg and c not in dead])
    out = []
    obs = {c: {"out": b"", "err": b""} for c in rig.chans}
    try:
        for o in ops:
            k = o[0]
            if k == "Wire":
                # a message exactly as a real sending Channel put it on the wire: type byte + body
                if not rig.alive:
                    continue
                from paramiko.message import Message
                pt = o[1]
                if pt in rig.t._handler_table or pt not in rig.t._channel_handler_table:
                    raise RuntimeError("message type %d is not dispatched by the channel branch" % pt)
                rig.alive = dispatch(rig.t, pt, Message(o[2]))
            elif k == "Msg":
                if not rig.alive:
                    continue        # the loop has ended: nothing is read from the wire any more
                pt, msg = build_message(o[1], o[2])
                if pt in rig.t._handler_table or pt not in rig.t._channel_handler_table:
                    raise RuntimeError("message type %d is not dispatched by the channel branch" % pt)
                rig.alive = dispatch(rig.t, pt, msg)
            elif k == "Recv":
                ch = rig.chans[o[1]]
                try:
                    r = ch.recv(o[2])
                    out += [1, o[1], len(r)] + list(r)
                    obs[o[1]]["out"] += r
                except socket.timeout:
                    out += [3, o[1]]
            elif k == "RecvErr":
                ch = rig.chans[o[1]]
                try:
                    r = ch.recv_stderr(o[2])
                    out += [2, o[1], len(r)] + list(r)
                    obs[o[1]]["err"] += r
                except socket.timeout:
                    out += [4, o[1]]
            elif k == "SetCombine":
                old = rig.chans[o[1]].set_combine_stderr(o[2])
                out += [5, o[1], 1 if old else 0]
            elif k == "LocalClose":
                rig.chans[o[1]].close()
            elif k == "PollExit":
                ch = rig.chans[o[1]]
                ready = ch.exit_status_ready()
                v = ch.recv_exit_status() if ready else 0
                out += [6, o[1], 1 if ready else 0, v]
        out += [-1, 1 if rig.alive else 0]
        for c in ids:
            ch = rig.chans[c]
            bo = ch.in_buffer.empty()
            be = ch.in_stderr_buffer.empty()
            obs[c]["out"] += bo
            obs[c]["err"] += be
            obs[c]["comb"] = ch.combine_stderr
            obs[c]["errbuf"] = be
            ready = ch.exit_status_ready()
            obs[c]["exit"] = ch.exit_status if ready else None
            out += [100, c, 1 if rig.t._channels.get(c) is not None else 0, len(bo)] + list(bo)
            out += [len(be)] + list(be)
            out += [1 if ch.combine_stderr else 0, 1 if ready else 0, ch.exit_status, 1 if ch.closed else 0]
        return out, obs
    finally:
        rig.close()


def is_merge(a, b, l):
    """l is an order-preserving merge of a and b (small inputs)."""
    if len(a) + len(b) != len(l):
        return False
    reach = {(0, 0)}
    for x in l:
        nxt = set()
        for (i, j) in reach:
            if i < len(a) and a[i] == x:
                nxt.add((i + 1, j))
            if j < len(b) and b[j] == x:
                nxt.add((i, j + 1))
        if not nxt:
            return False
        reach = nxt
    return (len(a), len(b)) in reach


def expected_streams(reg, dead, ids, ops):
    """The property stated directly: which payloads must reach which channel (independent of the model)."""
    registered = set(reg)
    seen = set(reg) | set(dead)
    alive = True
    exp = {c: {"data": b"", "ext": b"", "status": [], "combined_ever": False, "recverr": False} for c in ids}
    comb = {c: False for c in ids}
    for o in ops:
        if o[0] == "Msg" and alive:
            cid, m = o[1], o[2]
            if cid in registered:
                if m[0] == "Data":
                    exp[cid]["data"] += bytes(m[1])
                elif m[0] == "ExtData" and m[1] == 1:
                    exp[cid]["ext"] += bytes(m[2])
                elif m[0] == "ExitStatus":
                    exp[cid]["status"].append(m[1])
                elif m[0] == "Close":
                    registered.discard(cid)
            elif cid not in seen:
                alive = False
        elif o[0] == "SetCombine":
            comb[o[1]] = o[2]
            if o[2]:
                exp[o[1]]["combined_ever"] = True
        elif o[0] == "RecvErr":
            exp[o[1]]["recverr"] = True
    return exp


def check_oracle(ctx, case, obs):
    reg, dead, ids, ops = case
    exp = expected_streams(reg, dead, ids, ops)
    for c in ids:
        e, o = exp[c], obs[c]
        if not e["combined_ever"]:
            if o["out"] != e["data"]:
                ctx.fail("stdout-stream", "bytes read from a channel's stdout (plus what is buffered) differ from the "
                         "DATA payloads sent to it", case={"reg": reg, "dead": dead, "ids": ids, "ops": ops, "chan": c},
                         expected=e["data"], observed=o["out"])
            if o["err"] != e["ext"]:
                ctx.fail("stderr-stream", "bytes read from a channel's stderr (plus what is buffered) differ from the "
                         "EXTENDED_DATA(1) payloads sent to it",
                         case={"reg": reg, "dead": dead, "ids": ids, "ops": ops, "chan": c},
                         expected=e["ext"], observed=o["err"])
        else:
            so = bytes(x for x in o["out"] if x < 128)
            eo = bytes(x for x in o["out"] if x >= 128)
            if so != e["data"] or not is_merge(eo, o["err"], e["ext"]):
                ctx.fail("combine-stream", "with stderr combining the stdout stream is not an order-preserving merge "
                         "of the DATA and stderr bytes (lost, duplicated or reordered data)",
                         case={"reg": reg, "dead": dead, "ids": ids, "ops": ops, "chan": c},
                         expected={"data": e["data"], "ext": e["ext"]}, observed={"out": o["out"], "err": o["err"]})
            if o["comb"] and o["errbuf"]:
                ctx.fail("combine-stderr-left-behind", "combining is on but data is left in the stderr buffer",
                         case={"reg": reg, "dead": dead, "ids": ids, "ops": ops, "chan": c},
                         expected=b"", observed=o["errbuf"])
            if o["comb"] and not e["recverr"] and eo != e["ext"]:
                ctx.fail("combine-stream", "with stderr combining on, stderr data is missing from stdout",
                         case={"reg": reg, "dead": dead, "ids": ids, "ops": ops, "chan": c},
                         expected=e["ext"], observed=eo)
        if e["status"] and o["exit"] != e["status"][-1]:
            ctx.fail("exit-status", "the exit status reported differs from the one sent",
                     case={"reg": reg, "dead": dead, "ids": ids, "ops": ops, "chan": c},
                     expected=e["status"][-1], observed=o["exit"])


SIZES = [0, 1, 1, 2, 3, 5, 8, 13, 40]
READS = [0, 1, 1, 2, 3, 4, 7, 16, 100, 2 ** 31 - 1]


def gen_case(rng, big=False):
    nch = rng.choice([1, 2, 3, 4, 8]) if rng.random() < 0.8 else rng.randrange(1, 9)
    pool = list(range(0, 12)) + [255, 256, 65535, 2 ** 24 - 1, 2 ** 31, 2 ** 32 - 1]
    ids = rng.sample(pool, nch + 2)
    reg, rest = ids[:nch], ids[nch:]
    dead = rest[:rng.randrange(0, 3)]
    unknown = [x for x in pool if x not in reg and x not in dead]
    nops = rng.randrange(5, 90 if big else 45)
    budget = 1500
    ops = []
    malformed = rng.random() < 0.25
    combining = rng.random() < 0.5      # half of the histories never switch combining on
    for _ in range(nops):
        r = rng.random()
        c = rng.choice(reg)
        if r < 0.50:
            # incoming message
            tgt = c
            if malformed and rng.random() < 0.15:
                tgt = rng.choice(dead) if dead and rng.random() < 0.7 else rng.choice(unknown)
            q = rng.random()
            n = min(rng.choice(SIZES), budget)
            if q < 0.42:
                m = ("Data", [rng.randrange(0, 128) for _ in range(n)])
                budget -= n
            elif q < 0.80:
                code = 1 if rng.random() < 0.85 else rng.choice([0, 2, 5, 2 ** 32 - 1])
                m = ("ExtData", code, [rng.randrange(128, 256) for _ in range(n)])
                budget -= n
            elif q < 0.87:
                m = ("ExitStatus", rng.choice([0, 1, 2, 127, 255, 256, 2 ** 31, 2 ** 32 - 1]))
            elif q < 0.90:
                m = ("ReqOther",)
            elif q < 0.93:
                m = ("WinAdj", rng.choice([0, 1, 1000, 2 ** 31]))
            elif q < 0.95:
                m = ("Success",)
            elif q < 0.98:
                m = ("Eof",)
            else:
                m = ("Close",)
            ops.append(("Msg", tgt, m))
        elif r < 0.70:
            ops.append(("Recv", c, rng.choice(READS)))
        elif r < 0.85:
            ops.append(("RecvErr", c, rng.choice(READS)))
        elif r < 0.95:
            ops.append(("SetCombine", c, combining and rng.random() < 0.7))
        elif r < 0.985:
            ops.append(("PollExit", c))
        else:
            # the application closes its end first: the channel stays registered until the peer's CLOSE, and
            # whatever the peer still sends (exit status!) must reach it
            ops.append(("LocalClose", c))
            if rng.random() < 0.7:
                ops.append(("Msg", c, ("ExitStatus", rng.choice(STATUSES))))
                ops.append(("PollExit", c))
    dump = list(reg) + list(dead)
    return (reg, dead, dump, ops)


def coq_case(case):
    reg, dead, ids, ops = case
    return coq((list(reg), list(dead), list(ids), [tuple(o) for o in ops]))


def direct_drive(ctx, dispatch, n):
    rng = ctx.rng
    cases = []
    for i in range(n):
        case = gen_case(rng, big=(i % 7 == 0))
        canon, obs = impl_run(dispatch, *case)
        check_oracle(ctx, case, obs)
        reg, dead, ids, ops = case
        kinds = {o[0] for o in ops}
        nontrivial = any(o[0] == "Msg" and o[2][0] in ("Data", "ExtData") and len(o[2][-1]) > 0 for o in ops)
        kind = "direct-%dch%s%s" % (len(reg), "-combine" if any(o[0] == "SetCombine" and o[2] for o in ops) else "",
                                    "-stray" if any(o[0] == "Msg" and o[1] not in reg for o in ops) else "")
        ctx.count(("direct", repr(case)), nontrivial=nontrivial, kind=kind)
        cases.append((case, canon))
        if i < 2:
            ctx.sample({"direct-drive": {"registered": reg, "dead": dead, "ops": ops[:12], "impl": canon[:60]}})
    def bad_case(i):
        c = cases[i][0]
        ctx.disagree("real Transport dispatch + Channel handlers differ from the model on a history",
                     case={"reg": c[0], "dead": c[1], "ids": c[2], "ops": c[3]}, impl=cases[i][1])

    model_later(ctx, "ACase", [(coq_case(c), canon) for c, canon in cases], bad_case)
    return cases


def pair_plan(rng):
    pkt = 64 + rng.choice([1, 3, 8, 20, 2 ** 15 - 64])
    ops = []
    budget = 400
    for j in range(rng.randrange(1, 10)):
        if rng.random() < 0.75 and budget > 0:
            ln = min(budget, rng.choice([0, 1, 2, 5, 9, 30, 70]))
            budget -= ln
            err = rng.random() < 0.45
            x = bytes(rng.randrange(128, 256) if err else rng.randrange(0, 128) for _ in range(ln))
            ops.append((("sendall" if rng.random() < 0.5 else "send") + ("_stderr" if err else ""), x))
        else:
            ops.append(("send_exit_status", rng.choice(STATUSES) if rng.random() < 0.7 else rng.randrange(0, 2 ** 32)))
    if rng.random() < 0.4:
        ops.append(("shutdown_write",))
    return pkt, ops


def pair_drive(ctx, dispatch, n, fixed=None):
    """Sender side of the property: a real sending Channel (send / send_stderr / sendall / sendall_stderr /
    send_exit_status / shutdown_write, small maximum packet sizes so that writes are chunked) puts its messages on a
    recording transport; the bytes it produced are fed, unchanged, through the receiving transport's dispatch.
    Oracle: the receiver's streams / exit status are what the sender was given.  Model: the same history with the
    INTENDED messages (Data chunk, ExtData 1 chunk, ExitStatus v, Eof) evaluated by run_case."""
    rng = ctx.rng
    cases = []
    plans = fixed if fixed is not None else [pair_plan(rng) for _ in range(n)]
    for i, (pkt, sender_ops) in enumerate(plans):
        snd = _fresh_channel()                 # chanid 3, remote_chanid 7
        rid = snd.remote_chanid
        snd.out_max_packet_size = pkt
        snd.out_window_size = BIG
        wire = []
        snd.transport._send_user_message = lambda m, wire=wire: wire.append(m.asbytes())
        impl_ops, model_ops = [], []

        def flush():
            for raw in wire:
                impl_ops.append(("Wire", raw[0], raw[1:]))
            del wire[:]

        def reads():
            for _ in range(rng.randrange(0, 3)):
                q = rng.random()
                o = ("Recv", rid, rng.choice(READS)) if q < 0.5 else \
                    ("RecvErr", rid, rng.choice(READS)) if q < 0.8 else ("PollExit", rid)
                impl_ops.append(o)
                model_ops.append(o)

        for sop in sender_ops:
            name = sop[0]
            if name == "send_exit_status":
                snd.send_exit_status(sop[1])
                model_ops.append(("Msg", rid, ("ExitStatus", sop[1])))
            elif name == "shutdown_write":
                snd.shutdown_write()
                model_ops.append(("Msg", rid, ("Eof",)))
            else:
                x = sop[1]
                err = name.endswith("_stderr")
                r = getattr(snd, name)(x)
                written = x if name.startswith("sendall") else x[:r]
                cap = pkt - 64
                for a in range(0, len(written), cap):
                    chunk = list(written[a:a + cap])
                    model_ops.append(("Msg", rid, ("ExtData", 1, chunk) if err else ("Data", chunk)))
            flush()
            reads()
        snd.closed = True
        canon, obs = impl_run(dispatch, [rid], [], [rid], impl_ops)
        mcase = ([rid], [], [rid], model_ops)
        exp = expected_streams(*mcase)[rid]
        o = obs[rid]
        case = {"pair": True, "max_packet": pkt, "sender_ops": sender_ops}
        if o["out"] != exp["data"] or o["err"] != exp["ext"]:
            ctx.fail("pair-stream", "bytes written with send/sendall(/_stderr) on one Channel are not the bytes read "
                     "from the peer Channel's stdout/stderr", case=case,
                     expected={"stdout": exp["data"], "stderr": exp["ext"]},
                     observed={"stdout": o["out"], "stderr": o["err"]})
        if exp["status"] and o["exit"] != exp["status"][-1]:
            ctx.fail("exit-status-sender", "the status given to send_exit_status is not the one recv_exit_status "
                     "reports on the peer Channel", case=case, expected=exp["status"][-1], observed=o["exit"])
        ctx.count(("pair", repr(sender_ops), pkt), nontrivial=len(sender_ops) > 0, kind="pair-drive")
        cases.append((mcase, canon, case))
        if i == 0:
            ctx.sample({"pair-drive": {"sender_ops": sender_ops[:6], "max_packet": pkt, "impl": canon[:40]}})
    model_later(ctx, "ACase", [(coq_case(c), canon) for c, canon, _ in cases],
                lambda i: ctx.disagree("messages emitted by a real sending Channel, dispatched to the receiving "
                                       "Channel, differ from the model's Data/ExtData/ExitStatus/Eof messages",
                                       case=cases[i][2], impl=cases[i][1]))


# ----------------------------------------------------------------------------------------------
# deterministic two-thread schedules on set_combine_stderr / _feed_extended


class WatchLock:
    """The channel lock, reporting when a thread has to wait for it."""

    def __init__(self):
        self._l = threading.Lock()
        self.blocked = threading.Event()

    def acquire(self, blocking=True, timeout=-1):
        if self._l.acquire(False):
            return True
        if not blocking:
            return False
        self.blocked.set()
        return self._l.acquire(True, timeout)

    def release(self):
        self._l.release()

    def locked(self):
        return self._l.locked()

    __enter__ = acquire

    def __exit__(self, *a):
        self.release()


def _ext_message(s):
    from paramiko.message import Message
    m = Message()
    m.add_int(1)
    m.add_string(s)
    return Message(m.asbytes())


def _fresh_channel():
    from paramiko.channel import Channel

    class T:
        server_object = None

        def __init__(self):
            self.sent = []

        def get_log_channel(self):
            return LOGNAME

        def _send_user_message(self, m):
            self.sent.append(m)

        def _sanitize_packet_size(self, n):
            return n

    ch = Channel(3)
    ch._set_transport(T())
    ch._set_window(BIG, 2 ** 15)
    ch._set_remote_channel(7, BIG, 2 ** 15)
    ch.lock = WatchLock()
    ch.out_buffer_cv = threading.Condition(ch.lock)
    return ch


def _run_other(fn, lock):
    """Start fn on another thread and wait until it has finished or is waiting for the channel lock."""
    done = threading.Event()
    box = {}

    def body():
        try:
            fn()
        except BaseException as e:  # noqa
            box["exc"] = e
        finally:
            done.set()

    t = threading.Thread(target=body, daemon=True)
    lock.blocked.clear()
    t.start()
    deadline = time.time() + 20
    while time.time() < deadline:
        if done.is_set() or lock.blocked.is_set():
            break
        done.wait(0.005)
    return t, done, box


def schedule_refeed(a, b):
    """stderr holds a; U: set_combine_stderr(True); T's _feed_extended(b) is released right after U's empty().
    Returns (stdout, stderr, combine, T completed inside U's section?)."""
    ch = _fresh_channel()
    ch._feed_extended(_ext_message(a))
    pipe = ch.in_stderr_buffer
    orig_empty = pipe.empty
    st = {}

    def empty_hook():
        data = orig_empty()
        if "t" not in st:
            st["t"], st["done"], st["box"] = _run_other(lambda: ch._feed_extended(_ext_message(b)), ch.lock)
            st["inside"] = st["done"].is_set()
        return data

    pipe.empty = empty_hook
    ch.set_combine_stderr(True)
    if "t" in st:
        st["t"].join(20)
    pipe.empty = orig_empty
    ch.closed = True
    return ch.in_buffer.empty(), ch.in_stderr_buffer.empty(), ch.combine_stderr, st.get("inside")


def schedule_before_refeed(a, b):
    """stderr holds a; U: set_combine_stderr(True) is about to re-feed the old data into stdout; T's
    _feed_extended(b) is released at that point (catches a re-feed done after the lock was dropped)."""
    ch = _fresh_channel()
    ch._feed_extended(_ext_message(a))
    pipe = ch.in_buffer
    orig_feed = pipe.feed
    me = threading.current_thread()
    st = {}

    def feed_hook(data):
        if "t" not in st and threading.current_thread() is me:
            st["t"], st["done"], st["box"] = _run_other(lambda: ch._feed_extended(_ext_message(b)), ch.lock)
            st["inside"] = st["done"].is_set()
        return orig_feed(data)

    pipe.feed = feed_hook
    ch.set_combine_stderr(True)
    if "t" not in st:
        # nothing was re-fed at all: let T run now so that the outcome is still a complete history
        ch._feed_extended(_ext_message(b))
    else:
        st["t"].join(20)
    pipe.feed = orig_feed
    ch.closed = True
    return ch.in_buffer.empty(), ch.in_stderr_buffer.empty(), ch.combine_stderr, st.get("inside")


def schedule_check_then_switch(a, b):
    """stderr holds a; T: _feed_extended(b) has tested the flag and is about to store; U's set_combine_stderr(True)
    is released at that point."""
    ch = _fresh_channel()
    ch._feed_extended(_ext_message(a))
    pipe = ch.in_stderr_buffer
    orig_feed = pipe.feed
    st = {}

    def feed_hook(data):
        if "t" not in st:
            st["t"], st["done"], st["box"] = _run_other(lambda: ch.set_combine_stderr(True), ch.lock)
            st["inside"] = st["done"].is_set()
        return orig_feed(data)

    pipe.feed = feed_hook
    ch._feed_extended(_ext_message(b))
    if "t" in st:
        st["t"].join(20)
    pipe.feed = orig_feed
    ch.closed = True
    return ch.in_buffer.empty(), ch.in_stderr_buffer.empty(), ch.combine_stderr, st.get("inside")


def scheduled_runs(ctx, n, pairs=None):
    rng = ctx.rng
    micro = []
    if pairs is None:
        pairs = [(bytes(rng.randrange(128, 256) for _ in range(rng.randrange(1, 6))),
                  bytes(rng.randrange(128, 256) for _ in range(rng.randrange(1, 6)))) for _ in range(n)]
    for i, (a, b) in enumerate(pairs):
        for name, fn, sched_if_unlocked, sched_locked in (
                ("refeed", schedule_refeed, [False, False, True, True], [False, False, False, True, True]),
                ("before-refeed", schedule_before_refeed, [False, False, True, True],
                 [False, False, False, True, True]),
                ("check-then-switch", schedule_check_then_switch, [True, False, False, False], [True, True])):
            res = fn(a, b)
            if res is None:
                continue
            out, err, comb, inside = res
            ctx.count(("sched", name, a, b), kind="schedule-" + name)
            case = {"schedule": name, "stderr_buffered": a, "stderr_arriving": b}
            if out != a + b or err != b"" or not comb:
                if name in ("refeed", "before-refeed"):
                    ctx.fail("combine-stderr-race-order-inversion",
                             "set_combine_stderr re-feeds the old stderr data outside the lock and _feed_extended takes "
                             "no lock: stderr data arriving during the switch overtakes the older data on stdout",
                             case=case, expected={"stdout": a + b, "stderr": b""},
                             observed={"stdout": out, "stderr": err, "combine": comb})
                else:
                    ctx.fail("combine-stderr-race-stranded",
                             "_feed_extended tests combine_stderr and stores without the channel lock: data stays in the "
                             "stderr buffer although combining is on",
                             case=case, expected={"stdout": a + b, "stderr": b""},
                             observed={"stdout": out, "stderr": err, "combine": comb})
            # the statement-level model of the schedule that actually took place
            sched = sched_if_unlocked if inside else sched_locked
            exp = [len(out)] + list(out) + [len(err)] + list(err) + [1 if comb else 0]
            micro.append(((list(a), list(b), sched), exp, case))
        if i == 0:
            ctx.sample({"scheduled": {"a": a, "b": b, "stdout": out, "stderr": err}})
    model_later(ctx, "AMicro", [(coq(c), e) for c, e, _ in micro],
                lambda i: ctx.disagree("scheduled set_combine_stderr/_feed_extended run differs from the "
                                       "statement-level model", case=micro[i][2], impl=micro[i][1]))


# ----------------------------------------------------------------------------------------------
# sendall chunking


def sendall_cases(ctx, n):
    rng = ctx.rng
    cases = []
    for _ in range(n):
        s = bytes(rng.randrange(256) for _ in range(rng.choice([0, 1, 2, 7, 30, rng.randrange(0, 200)])))
        grants = []
        tot = 0
        while tot < len(s) or not grants:
            g = rng.choice([1, 1, 2, 3, 10, 64, 1000])
            grants.append(g)
            tot += g
        ch = _fresh_channel()
        ch.out_max_packet_size = 2 ** 20
        ch.settimeout(0.0)
        payloads = []
        it = iter(grants)
        ch.out_window_size = next(it)

        def rec(m, ch=ch, payloads=payloads, it=it):
            mm = type(m)(m.asbytes())
            mm.get_byte()
            mm.get_int()
            payloads.append(mm.get_binary())
            ch.out_window_size = next(it, 0)

        ch.transport._send_user_message = rec
        kind, val = with_watchdog(lambda: ch.sendall(s), 10.0)
        ch.closed = True
        if kind != "ok":
            ctx.disagree("Channel.sendall did not complete with a sufficient window", case={"s": s, "grants": grants},
                         impl=repr(val))
            continue
        if b"".join(payloads) != s:
            ctx.fail("sendall-chunking", "the DATA payloads emitted by sendall do not concatenate to the bytes written",
                     case={"s": s, "grants": grants}, expected=s, observed=b"".join(payloads))
        canon = []
        for p in payloads:
            canon += [len(p)] + list(p)
        canon += [-1]
        ctx.count(("sendall", s, tuple(grants)), nontrivial=len(s) > 0, kind="sendall")
        cases.append(((grants, list(s)), canon))
    model_later(ctx, "ASendall", [(coq(c), e) for c, e in cases],
                lambda i: ctx.disagree("Channel.sendall chunking differs from the model",
                                       case={"grants": cases[i][0][0]}, impl=cases[i][1]))


def sendall_window_cases(ctx, n, fixed=None):
    """Channel.sendall against a finite window and a small maximum packet size (nothing credits the window back):
    payloads, unsent rest and the final window are compared with `run_sendall_win`; the oracle is the accounting
    identity window_before - window_after == bytes handed to the transport."""
    rng = ctx.rng
    cases = []
    for j in range(len(fixed) if fixed is not None else n):
        L = rng.choice([0, 1, 5, 40, 100, rng.randrange(0, 300)])
        s = bytes(rng.randrange(256) for _ in range(L))
        w = rng.choice([1, 2, 10, 64, L, max(1, L // 2), L + 7, 2 * L + 1, rng.randrange(1, 700)])
        w = max(1, w)
        pkt = 64 + rng.choice([1, 2, 3, 10, 33, 100, 1000, 2 ** 15 - 64])
        if fixed is not None:
            s, w, pkt = fixed[j]
            L = len(s)
        ch = _fresh_channel()
        ch.out_max_packet_size = pkt
        ch.out_window_size = w
        ch.settimeout(0.0)
        payloads = []

        def rec(m, payloads=payloads):
            mm = type(m)(m.asbytes())
            mm.get_byte()
            mm.get_int()
            payloads.append(mm.get_binary())

        ch.transport._send_user_message = rec

        def go(ch=ch, s=s):
            try:
                ch.sendall(s)
                return "done"
            except socket.timeout:
                return "window-exhausted"

        kind, val = with_watchdog(go, 10.0)
        final = ch.out_window_size
        ch.closed = True
        case = {"s": s, "window": w, "max_packet": pkt}
        if kind != "ok":
            ctx.fail("sendall-hang", "Channel.sendall neither finished nor reported an exhausted window", case=case,
                     expected="done or socket.timeout", observed=repr(val))
            continue
        sent = b"".join(payloads)
        if sent != s[:len(sent)] or (val == "done" and sent != s):
            ctx.fail("sendall-chunking", "the DATA payloads emitted by sendall are not a prefix of the bytes written",
                     case=case, expected=s, observed=sent)
        if w - final != len(sent) or (val == "window-exhausted" and len(sent) < min(w, len(s))):
            ctx.fail("send-window-leak", "the send window is debited by more than the bytes put on the wire: the "
                     "difference is never credited back, so a large send stalls and the data behind it never arrives",
                     case=case, expected={"window_after": w - len(sent), "sent": min(w, len(s))},
                     observed={"window_after": final, "sent": len(sent), "outcome": val})
        canon = []
        for q in payloads:
            canon += [len(q)] + list(q)
        canon += [-1] + list(s[len(sent):]) + [-2, final]
        ctx.count(("sendall-win", s, w, pkt), nontrivial=L > 0, kind="sendall-window")
        cases.append(((w, pkt, list(s)), canon, case))
    model_later(ctx, "ASendWin", [(coq(c), e) for c, e, _ in cases],
                lambda i: ctx.disagree("Channel.sendall / _wait_for_send_window differ from the model (sizes or "
                                       "window debit)", case=cases[i][2], impl=cases[i][1]))


# ----------------------------------------------------------------------------------------------
# exit status: statement order and two-thread schedules


def exit_statement_order():
    """Order of `self.exit_status = ...` and `self.status_event.set()` in _handle_request's exit-status branch."""
    import paramiko.channel as C
    tree = ast.parse(textwrap.dedent(inspect.getsource(C.Channel._handle_request)))
    for node in ast.walk(tree):
        if isinstance(node, ast.If) and ast.unparse(node.test) in ("key == 'exit-status'", 'key == "exit-status"'):
            store = setev = None
            for i, st in enumerate(node.body):
                txt = ast.unparse(st)
                if isinstance(st, ast.Assign) and any(ast.unparse(t) == "self.exit_status" for t in st.targets):
                    store = i if store is None else store
                if txt.replace(" ", "") == "self.status_event.set()":
                    setev = i if setev is None else setev
            if store is None or setev is None:
                return None
            return "store-first" if store < setev else "set-first"
    return None


class SwitchEvent(threading.Event):
    """status_event with a switch point right after set() and a report when a thread starts waiting."""

    def __init__(self):
        super().__init__()
        self.after_set = None
        self.waiting = threading.Event()

    def set(self):
        super().set()
        h, self.after_set = self.after_set, None
        if h is not None:
            h()

    def wait(self, timeout=None):
        if not self.is_set():
            self.waiting.set()
        return super().wait(timeout)


def _exit_message(n):
    from paramiko.message import Message
    m = Message()
    m.add_string("exit-status")
    m.add_boolean(False)
    m.add_int(n)
    return Message(m.asbytes())


def schedule_exit(n, point):
    """Transport thread handles exit-status n; a reader's recv_exit_status() is released at `point`:
    'after-set' (right after status_event.set()) or 'at-read' (while the handler reads the status from the message,
    i.e. before it stores it).  Returns (value the reader got or None, reader finished inside the handler?)."""
    ch = _fresh_channel()
    ev = SwitchEvent()
    ch.status_event = ev
    msg = _exit_message(n)
    st = {}

    def release_reader():
        if "t" in st:
            return
        box = {}
        done = threading.Event()

        def body():
            try:
                box["v"] = ch.recv_exit_status()
            except BaseException as e:  # noqa
                box["v"] = repr(e)
            finally:
                done.set()

        t = threading.Thread(target=body, daemon=True)
        ev.waiting.clear()
        t.start()
        deadline = time.time() + 20
        while time.time() < deadline and not (done.is_set() or ev.waiting.is_set()):
            done.wait(0.005)
        st.update(t=t, done=done, box=box, inside=done.is_set())

    if point == "after-set":
        ev.after_set = release_reader
    else:
        orig = msg.get_int

        def get_int_hook():
            release_reader()
            return orig()

        msg.get_int = get_int_hook
    ch._handle_request(msg)
    if "t" not in st:
        release_reader()
    st["t"].join(20)
    ch.closed = True
    return st["box"].get("v"), st["inside"]


def exit_status_runs(ctx, n):
    rng = ctx.rng
    order = exit_statement_order()
    if order != "store-first":
        ctx.disagree("_handle_request('exit-status'): the model's handler program is [store exit_status; set "
                     "status_event]; the source has %r" % (order,), case={"ast": order}, model="store-first",
                     impl=order)
    cases = []
    vals = [0, 1, 23, 255, 2 ** 31, 2 ** 32 - 1] + [rng.randrange(0, 2 ** 32) for _ in range(n)]
    for v in vals[:max(2, n)]:
        for point in ("after-set", "at-read"):
            got, inside = schedule_exit(v, point)
            ctx.count(("exit-sched", v, point), kind="schedule-exit-" + point)
            case = {"exit_schedule": point, "status_sent": v}
            if got != v:
                ctx.fail("exit-status-set-before-store",
                         "a thread in recv_exit_status() released while the transport thread handles exit-status "
                         "reports a value that is not the status the peer sent (status_event is set before "
                         "exit_status is stored)", case=case, expected=v, observed=got)
            # the schedule that took place, in terms of the model's programs [XStore; XSet] / [RWait; RRead]
            if point == "at-read" and inside:
                sched = [False, False, True, True]
            else:
                sched = [True, True, False, False]
            exp = [1, got] if isinstance(got, int) else [0]
            cases.append(((-1, v, sched), exp, case))
    model_later(ctx, "AExit", [(coq(c), e) for c, e, _ in cases],
                lambda i: ctx.disagree("scheduled exit-status handler / recv_exit_status run differs from the "
                                       "statement-level model", case=cases[i][2], impl=cases[i][1]))


# ----------------------------------------------------------------------------------------------
# loopback transfers


def _chunks(rng, data, sizes):
    out = []
    i = 0
    while i < len(data):
        n = rng.choice(sizes)
        out.append(data[i:i + n])
        i += n
    return out


def big_plan(rng, window, n_out, n_err):
    """One channel whose stdout is written with a SINGLE sendall much larger than the window."""
    return [{
        "stdout": bytes(b & 0x7F for b in rng.randbytes(n_out)),
        "stderr": bytes(b | 0x80 for b in rng.randbytes(n_err)),
        "stdin": bytes(rng.randbytes(rng.choice([0, 5000]))),
        "status": rng.choice(STATUSES),
        "combine": "never",
        "wsizes": [10 ** 9], "force_sendall": True, "stdout_first": True,
        "rsizes": rng.choice([[4096], [65536], [1000, 100000]]),
        "wseed": rng.getrandbits(32), "rseed": rng.getrandbits(32),
    }]


# exit statuses over the whole uint32 range, incl. >= 0xff000000 (the uint32 image of small negative exit codes)
STATUSES = [0, 1, 3, 127, 255, 256, 4242, 2 ** 31 + 5, 0xFEFFFFFF, 0xFF000000, 0xFF000001, 0xFFFFFF9C, 2 ** 32 - 1]

STALL = 12.0     # seconds without a single byte arriving anywhere before a transfer counts as stalled


PACKET_GRID = [32768, 65536, 131072, 4096]     # receive-side maximum packet sizes (default first)


def loopback(ctx, nchan, total, label, plan=None, window=None, cfg=None):
    """Real client/server transports; returns list of problems (dicts)."""
    import paramiko
    from _loop import LoopSocket
    rng = ctx.rng
    given = plan is not None
    plan = plan if given else []
    per = max(1, total // max(1, nchan))
    for i in range(0 if given else nchan):
        n_out = rng.choice([0, 1, per // 2, per * 2 // 3, rng.randrange(0, per + 1)])
        n_err = rng.choice([0, 1, per // 4, per // 3, rng.randrange(0, per // 2 + 1)])
        n_in = rng.choice([0, 7, per // 8, rng.randrange(0, per // 4 + 1)])
        plan.append({
            "stdout": bytes(rng.randrange(0, 128) for _ in range(n_out)),
            "stderr": bytes(rng.randrange(128, 256) for _ in range(n_err)),
            "stdin": bytes(rng.randrange(256) for _ in range(n_in)),
            "status": rng.choice(STATUSES),
            "combine": rng.choice(["never", "never", "before", "during"]),
            "wsizes": rng.choice([[1, 7, 100], [1000, 4096, 30000], [1, 50000], [32768, 65536, 200000]]),
            "rsizes": rng.choice([[1, 5, 64], [1024, 4096], [3, 100000], [65536]]),
            "wseed": rng.getrandbits(32), "rseed": rng.getrandbits(32),
        })
    rekeys = 2 if total >= 200000 else 1

    class Srv(paramiko.ServerInterface):
        def check_auth_none(self, username):
            return paramiko.AUTH_SUCCESSFUL

        def get_allowed_auths(self, username):
            return "none"

        def check_channel_request(self, kind, chanid):
            return paramiko.OPEN_SUCCEEDED

        def check_channel_exec_request(self, channel, command):
            return True

    import random
    sa, sb = LoopSocket(), LoopSocket()
    sa.link(sb)
    # small windows make senders wait for credit and receivers send window adjusts
    win = window if window is not None else rng.choice([65536, 131072, 2 ** 21])
    cfg = dict(cfg or {})
    cfg.setdefault("compression", True)
    cfg.setdefault("max_packet", 32768)                 # transport default (used by the accepting side)
    for p_ in plan:
        # per-channel receive-side maximum packet size (open_session(max_packet_size=...)): several live channels
        # with different parameters on one transport
        p_.setdefault("max_packet", cfg.get("chan_max_packet") or rng.choice(PACKET_GRID))
    tc = paramiko.Transport(sa, default_window_size=win, default_max_packet_size=cfg["max_packet"])
    ts = paramiko.Transport(sb, default_window_size=win, default_max_packet_size=cfg["max_packet"])
    tc.set_log_channel(LOGNAME)
    ts.set_log_channel(LOGNAME)
    problems = []
    res = [dict(out=b"", err=b"", sin=b"", status=None) for _ in plan]
    threads = []
    errors = []
    try:
        key = paramiko.RSAKey.from_private_key_file(os.path.join(ctx.repo, "tests", "_support", "rsa.key"))
        ts.add_server_key(key)
        tc.use_compression(cfg["compression"])
        ts.use_compression(cfg["compression"])
        ts.start_server(threading.Event(), Srv())
        tc.start_client(timeout=60)
        tc.auth_none("verif")
        cch, sch = [], []
        for i, p in enumerate(plan):
            c = tc.open_session(max_packet_size=p["max_packet"], timeout=60)
            s = ts.accept(60)
            if s is None:
                raise RuntimeError("server did not accept channel %d" % i)
            c.exec_command("run")
            if p["combine"] == "before":
                c.set_combine_stderr(True)
            cch.append(c)
            sch.append(s)

        phased = not any(p.get("force_sendall") for p in plan)
        half_done = [threading.Event() for _ in plan]
        go2 = threading.Event()

        def guard(fn):
            def run():
                try:
                    fn()
                except BaseException as e:  # noqa
                    errors.append(repr(e))
            return run

        def server_writer(i):
            p, s = plan[i], sch[i]
            r = random.Random(p["wseed"])
            items = [("o", x) for x in _chunks(r, p["stdout"], p["wsizes"])]
            errs = [("e", x) for x in _chunks(r, p["stderr"], p["wsizes"])]
            # random merge of the two streams, each in its own order
            seq = []
            while items or errs:
                if items and (not errs or p.get("stdout_first") or r.random() < 0.5):
                    seq.append(items.pop(0))
                else:
                    seq.append(errs.pop(0))
            for j, (k, x) in enumerate(seq):
                if phased and j == (len(seq) + 1) // 2:
                    # first half written: wait until the main thread has re-keyed, then write the rest
                    half_done[i].set()
                    go2.wait(120)
                if not p.get("force_sendall") and r.random() < 0.3:
                    # plain send(): partial writes handled by the caller
                    while x:
                        n = s.send(x) if k == "o" else s.send_stderr(x)
                        if n == 0:
                            raise RuntimeError("send returned 0")
                        x = x[n:]
                elif k == "o":
                    s.sendall(x)
                else:
                    s.sendall_stderr(x)
            half_done[i].set()
            go2.wait(120)
            s.send_exit_status(p["status"])
            s.shutdown_write()

        def server_reader(i):
            p, s = plan[i], sch[i]
            r = random.Random(p["rseed"] ^ 1)
            while True:
                x = s.recv(r.choice(p["rsizes"]))
                if not x:
                    break
                res[i]["sin"] += x

        def client_writer(i):
            p, c = plan[i], cch[i]
            r = random.Random(p["wseed"] ^ 2)
            for x in _chunks(r, p["stdin"], p["wsizes"]):
                c.sendall(x)
            c.shutdown_write()

        def client_out(i):
            p, c = plan[i], cch[i]
            r = random.Random(p["rseed"])
            got = 0
            switched = p["combine"] != "during"
            while True:
                x = c.recv(r.choice(p["rsizes"]))
                if not x:
                    if switched:
                        break
                    # EOF before the planned switch: switch now, then drain what the switch moved over
                    c.set_combine_stderr(True)
                    switched = True
                    continue
                res[i]["out"] += x
                got += len(x)
                if not switched and got >= len(p["stdout"]) // 3:
                    c.set_combine_stderr(True)
                    switched = True

        def client_err(i):
            p, c = plan[i], cch[i]
            r = random.Random(p["rseed"] ^ 3)
            while True:
                x = c.recv_stderr(r.choice(p["rsizes"]))
                if not x:
                    break
                res[i]["err"] += x

        for i in range(len(plan)):
            for fn in (server_writer, server_reader, client_writer, client_out, client_err):
                t = threading.Thread(target=guard(lambda fn=fn, i=i: fn(i)), daemon=True)
                threads.append(t)
        for t in threads:
            t.start()
        # re-key in mid-transfer: the server writers have written their first half (client writers and all
        # readers keep running), the rest of the data, the exit status and EOF follow the re-key
        if phased:
            t_half = time.time() + 120
            for ev in half_done:
                ev.wait(max(0.1, t_half - time.time()))
        rekey_error = None
        for k in range(rekeys):
            if not phased:
                time.sleep(0.05)
            # renegotiate_keys() returns when the CALLER has switched keys; the peer may still be about to process
            # NEWKEYS.  Starting the next exchange from that peer before it is out of the previous one is a misuse of
            # the manual API (it is not guarded by in_kex as the automatic re-key is), so wait for both sides.
            t_kex = time.time() + 30
            while (tc.in_kex or ts.in_kex or not tc.clear_to_send.is_set() or not ts.clear_to_send.is_set()) \
                    and time.time() < t_kex:
                time.sleep(0.01)
            # (_parse_newkeys clears in_kex and only afterwards sets clear_to_send: an application-thread
            # renegotiate_keys() squeezed in between gets its clear_to_send.clear() undone and user data then follows
            # the new KEXINIT -- "Expecting packet from (31,), got 94".  Re-key robustness is C11's subject; here the
            # next exchange simply starts once the previous one has fully finished on both sides.)
            try:
                (tc if k % 2 == 0 else ts).renegotiate_keys()
            except Exception as e:  # noqa
                rekey_error = "re-key %d (%s side): %r" % (k + 1, "client" if k % 2 == 0 else "server", e)
                break
        go2.set()
        deadline = time.time() + (600 if ctx.thorough else 240)
        # progress watchdog: a transfer is stalled when no byte arrives anywhere for STALL seconds
        seen_bytes, last = -1, time.time()
        stalled = False
        while any(t.is_alive() for t in threads):
            now_bytes = sum(len(r_["out"]) + len(r_["err"]) + len(r_["sin"]) for r_ in res)
            if now_bytes != seen_bytes:
                seen_bytes, last = now_bytes, time.time()
            if time.time() - last > STALL or time.time() > deadline:
                stalled = True
                break
            time.sleep(0.05)
        if stalled:
            got = [{"stdout": len(bytes(x for x in r_["out"] if x < 128)),
                    "stderr": len(r_["err"]) + len(bytes(x for x in r_["out"] if x >= 128)),
                    "stdin": len(r_["sin"])} for r_ in res]
            want = [{"stdout": len(p_["stdout"]), "stderr": len(p_["stderr"]), "stdin": len(p_["stdin"])}
                    for p_ in plan]
            problems.append({"key": "loopback-stalled", "chan": -1,
                             "what": "end-to-end: a transfer stalled -- bytes the peer wrote (and the data / exit "
                                     "status behind them) never arrive",
                             "expected": want, "observed": {"received": got, "window": win,
                                                            "threads_running": sum(t.is_alive() for t in threads),
                                                            "errors": errors[:3]}})
        else:
            for i, c in enumerate(cch):
                kind, v = with_watchdog(c.recv_exit_status, 30.0)
                res[i]["status"] = v if kind == "ok" else kind
        if rekey_error or not tc.is_active() or not ts.is_active():
            got = [{"stdout+stderr": len(r_["out"]) + len(r_["err"]), "stdin": len(r_["sin"])} for r_ in res]
            problems[:] = [{"key": "loopback-transport-died", "chan": -1,
                            "what": "end-to-end: a transport died during a transfer with compression and a re-key "
                                    "(channel streams cut short)",
                            "expected": "both transports alive, all streams complete",
                            "observed": {"rekey": rekey_error, "client_alive": tc.is_active(),
                                         "server_alive": ts.is_active(), "received": got,
                                         "client_exc": repr(tc.get_exception()), "server_exc": repr(ts.saved_exception),
                                         "errors": errors[:3]}}]
        if errors and not problems:
            problems.append({"key": "loopback-error", "what": "a loopback worker raised", "chan": -1,
                             "expected": "no exception", "observed": errors[:3]})
        comp = (tc.local_compression, tc.remote_compression, ts.local_compression, ts.remote_compression)
    except Exception as e:  # noqa  (set-up, open_session, exec_command ... failing is an end-to-end failure too)
        import traceback
        comp = None
        problems[:] = [{"key": "loopback-transport-died", "chan": -1,
                        "what": "end-to-end: the loopback session failed (transport died / request refused)",
                        "expected": "session established and all streams complete",
                        "observed": {"exception": repr(e), "trace": traceback.format_exc()[-800:]}}]
    finally:
        for t_ in (tc, ts):
            try:
                t_.close()
            except Exception:
                pass
    if problems:
        return problems, plan, None
    for i, p in enumerate(plan):
        r = res[i]
        so = bytes(x for x in r["out"] if x < 128)
        eo = bytes(x for x in r["out"] if x >= 128)
        if so != p["stdout"]:
            problems.append({"key": "stdout-stream", "chan": i, "what": "end-to-end: stdout bytes read differ from the "
                             "bytes the peer wrote", "expected": p["stdout"][:64], "observed": so[:64],
                             "lens": [len(p["stdout"]), len(so)]})
        if p["combine"] == "never":
            if eo or r["err"] != p["stderr"]:
                problems.append({"key": "stderr-stream", "chan": i, "what": "end-to-end: stderr bytes read differ from "
                                 "the bytes the peer wrote (or stderr data reached stdout without combining)",
                                 "expected": p["stderr"][:64], "observed": r["err"][:64],
                                 "lens": [len(p["stderr"]), len(r["err"]), len(eo)]})
        else:
            # one switch off -> on: recv_stderr saw a prefix, everything after it is on stdout, in order
            if r["err"] + eo != p["stderr"] or (p["combine"] == "before" and r["err"]):
                problems.append({"key": "combine-stream", "chan": i, "what": "end-to-end: with combining the stderr bytes "
                                 "are not (read-before-switch ++ stderr part of stdout)",
                                 "expected": p["stderr"][:64], "observed": (r["err"] + eo)[:64],
                                 "lens": [len(p["stderr"]), len(r["err"]), len(eo)]})
        if r["sin"] != p["stdin"]:
            problems.append({"key": "stdout-stream", "chan": i, "what": "end-to-end: bytes the server read differ from "
                             "the bytes the client wrote", "expected": p["stdin"][:64], "observed": r["sin"][:64],
                             "lens": [len(p["stdin"]), len(r["sin"])]})
        if r["status"] != p["status"]:
            problems.append({"key": "exit-status", "chan": i, "what": "end-to-end: exit status reported differs from "
                             "the one sent", "expected": p["status"], "observed": r["status"]})
    return problems, plan, comp


def _read_n(chan, n, stderr=False, limit=6.0):
    """Read up to n bytes (or until EOF / `limit` seconds without completion)."""
    chan.settimeout(2.0)
    out = b""
    t_end = time.time() + limit
    while len(out) < n and time.time() < t_end:
        try:
            x = chan.recv_stderr(n - len(out)) if stderr else chan.recv(n - len(out))
        except socket.timeout:
            continue
        if not x:
            break
        out += x
    return out


def concurrent_open(ctx, accept_outbound):
    """Channels opened CONCURRENTLY FROM BOTH SIDES of one transport, at the exact point where ids are allocated:
    while the server's reader thread is inside check_channel_request for an inbound session (id allocated, channel
    not yet registered), another server thread opens an outbound x11 channel (accepted by the client through a
    request_x11 handler, or refused).  No timing: the callback waits until the other thread has registered its
    channel.  Oracle: every byte written on a channel arrives on that channel, both directions, plus exit status."""
    import paramiko
    from _loop import LoopSocket
    rng = ctx.rng
    st = {"armed": False}
    label = "concurrent-open-%s" % ("accepted" if accept_outbound else "refused")

    class Srv(paramiko.ServerInterface):
        def check_auth_none(self, username):
            return paramiko.AUTH_SUCCESSFUL

        def get_allowed_auths(self, username):
            return "none"

        def check_channel_exec_request(self, channel, command):
            return True

        def check_channel_x11_request(self, channel, single_connection, auth_protocol, auth_cookie, screen_number):
            return True

        def check_channel_request(self, kind, chanid):
            if st["armed"]:
                st["armed"] = False
                before = len(ts._channels)
                box = st["box"] = {}

                def other():
                    try:
                        box["chan"] = ts.open_x11_channel(("127.0.0.1", 6010))
                    except BaseException as e:  # noqa
                        box["exc"] = repr(e)

                t = st["thread"] = threading.Thread(target=other, daemon=True)
                t.start()
                t_end = time.time() + 20
                while len(ts._channels) <= before and t.is_alive() and time.time() < t_end:
                    time.sleep(0.002)
                st["registered_inside"] = len(ts._channels) > before
            return paramiko.OPEN_SUCCEEDED

    def blob(n, lo, hi):
        return bytes(rng.randrange(lo, hi) for _ in range(n))

    want = {"c1->s1": blob(2900, 0, 256), "s1->c1": blob(3100, 0, 128), "s1->c1 stderr": blob(700, 128, 256),
            "c0->s0": blob(1500, 0, 256), "s0->c0": blob(1700, 0, 128), "xs->xc": blob(1300, 0, 256),
            "xc->xs": blob(900, 0, 256)}
    status = {"s1": rng.choice(STATUSES), "s0": rng.choice(STATUSES)}
    got, info = {}, {}
    sa, sb = LoopSocket(), LoopSocket()
    sa.link(sb)
    tc, ts = paramiko.Transport(sa), paramiko.Transport(sb)
    tc.set_log_channel(LOGNAME)
    ts.set_log_channel(LOGNAME)
    stage = ["set-up"]

    def session():
        ts.add_server_key(paramiko.RSAKey.from_private_key_file(os.path.join(ctx.repo, "tests", "_support", "rsa.key")))
        ts.start_server(threading.Event(), Srv())
        tc.start_client(timeout=60)
        tc.auth_none("verif")
        c0 = tc.open_session(timeout=60)
        s0 = ts.accept(60)
        inbound = []
        if accept_outbound:
            c0.request_x11(handler=lambda chan, addr: inbound.append(chan))
        c0.exec_command("first")
        st["armed"] = True
        stage[0] = "second open_session (server opens its x11 channel inside the callback)"
        c1 = tc.open_session(timeout=60)
        stage[0] = "accept of the second session"
        s1 = ts.accept(60)
        if "thread" in st:
            stage[0] = "outbound open_x11_channel completing"
            st["thread"].join(30)
        box = st.get("box", {})
        xs = box.get("chan")
        xc = inbound[0] if inbound else None
        info.update({"outbound": "opened" if xs is not None else box.get("exc", "not attempted / still waiting"),
                     "other_thread_registered_inside_callback": st.get("registered_inside"),
                     "server_ids": {"s0": getattr(s0, "chanid", None), "s1": getattr(s1, "chanid", None),
                                    "x11": getattr(xs, "chanid", None)}})
        if s1 is None:
            got["accept"] = "server never got the second session channel"
            return
        stage[0] = "writes"
        c1.sendall(want["c1->s1"])
        c0.sendall(want["c0->s0"])
        s1.sendall(want["s1->c1"])
        s1.sendall_stderr(want["s1->c1 stderr"])
        s0.sendall(want["s0->c0"])
        stage[0] = "reads"
        if xs is not None and xc is not None:
            xs.sendall(want["xs->xc"])
            xc.sendall(want["xc->xs"])
            got["xs->xc"] = _read_n(xc, len(want["xs->xc"]))
            got["xc->xs"] = _read_n(xs, len(want["xc->xs"]))
        got["c1->s1"] = _read_n(s1, len(want["c1->s1"]))
        got["c0->s0"] = _read_n(s0, len(want["c0->s0"]))
        got["s1->c1"] = _read_n(c1, len(want["s1->c1"]))
        got["s1->c1 stderr"] = _read_n(c1, len(want["s1->c1 stderr"]), stderr=True)
        got["s0->c0"] = _read_n(c0, len(want["s0->c0"]))
        stage[0] = "exit status"
        s1.send_exit_status(status["s1"])
        s0.send_exit_status(status["s0"])
        for nm, ch in (("s1", c1), ("s0", c0)):
            t_end = time.time() + 20
            while not ch.exit_status_ready() and time.time() < t_end:
                time.sleep(0.01)
            got["status " + nm] = ch.exit_status if ch.exit_status_ready() else None

    try:
        kind, val = with_watchdog(session, 60.0)
        if kind == "hang":
            got["exception"] = "no progress: blocked forever in stage '%s'" % stage[0]
        elif kind == "exc":
            got["exception"] = "%r in stage '%s'" % (val, stage[0])
    finally:
        for t_ in (tc, ts):
            try:
                t_.close()
            except Exception:
                pass
    ctx.count((label, repr(sorted((k, len(v)) for k, v in want.items()))), kind=label)
    bad = {}
    if "exception" in got or "accept" in got:
        bad["session"] = got.get("exception") or got.get("accept")
    expect_x = accept_outbound
    for k, v in want.items():
        if k in ("xs->xc", "xc->xs") and (not expect_x or k not in got):
            continue
        if k in got and got[k] != v:
            bad[k] = {"expected_len": len(v), "got_len": len(got[k]), "got_head": got[k][:24], "expected_head": v[:24]}
        elif k not in got and "session" not in bad:
            bad[k] = "not transferred"
    for nm in ("s1", "s0"):
        if ("status " + nm) in got and got["status " + nm] != status[nm]:
            bad["status " + nm] = {"expected": status[nm], "got": got["status " + nm]}
    if accept_outbound and info.get("outbound") != "opened" and "session" not in bad:
        bad["x11"] = info.get("outbound")
    if bad:
        ctx.fail("concurrent-open-wrong-channel",
                 "channels opened concurrently from both sides of one transport: bytes written on a channel do not "
                 "arrive on that channel (lost / delivered elsewhere / channel unlinked)",
                 case={"concurrent_open": label, "accept_outbound": accept_outbound, **info},
                 expected={k: len(v) for k, v in want.items()}, observed=bad)
    ctx.sample({"concurrent-open": {"label": label, **info, "problems": len(bad)}})


def run_loopback(ctx, nchan, total, label, big=None, cfg=None):
    cfg = dict(cfg or {})
    for attempt in (0, 1):
        if big is not None:
            window, n_out, n_err = big
            problems, plan, comp = loopback(ctx, 1, 0, label, plan=big_plan(ctx.rng, window, n_out, n_err),
                                            window=window, cfg=cfg)
        else:
            problems, plan, comp = loopback(ctx, nchan, total, label, cfg=cfg)
        timing = [p for p in problems if p["key"] in ("loopback-stalled", "loopback-error", "loopback-transport-died")]
        if timing and attempt == 0:
            ctx.notes.append("loopback %s: %s on the first attempt; retried once" % (label, timing[0]["key"]))
            continue
        break
    summary = [{"stdout": len(p["stdout"]), "stderr": len(p["stderr"]), "stdin": len(p["stdin"]),
                "combine": p["combine"], "status": p["status"],
                "single_sendall": bool(p.get("force_sendall")), "max_packet": p.get("max_packet")} for p in plan]
    if big is not None:
        summary[0]["window"] = big[0]
    config = {"compression": cfg.get("compression", True), "transport_max_packet": cfg.get("max_packet", 32768)}
    ctx.count(("loopback", label, repr(summary)), kind="loopback-%s" % label)
    for p in plan:
        ctx.count(("loopback-chan", label, p["wseed"], p["rseed"]),
                  nontrivial=len(p["stdout"]) + len(p["stderr"]) > 0, kind="loopback-channel-%s" % p["combine"])
    if comp is not None and cfg.get("compression", True) and "zlib" not in str(comp):
        ctx.notes.append("loopback %s ran without compression: %r" % (label, comp))
    for pr in problems:
        ctx.fail(pr["key"], pr["what"], case={"loopback": label, "config": config, "channels": summary,
                                              "chan": pr["chan"], "lens": pr.get("lens")},
                 expected=pr["expected"], observed=pr["observed"])
    ctx.sample({"loopback": {"label": label, "config": config, "channels": summary, "compression": comp, "problems": len(problems)}})


# ----------------------------------------------------------------------------------------------


def constants_check(ctx):
    """The message numbers / handlers the harness feeds are the ones the model (and, via Gen/C21_gen.v, the
    source) names for each message kind."""
    import paramiko
    table = paramiko.Transport._channel_handler_table
    codes = {"_request_success": 1, "_request_failed": 2, "_feed": 3, "_feed_extended": 4, "_window_adjust": 5,
             "_handle_request": 6, "_handle_eof": 7, "_handle_close": 8}
    samples = [("Data", [1]), ("ExtData", 1, [2]), ("ExitStatus", 3), ("ReqOther",), ("WinAdj", 4), ("Success",),
               ("Eof",), ("Close",)]
    cases = []
    for m in samples:
        pt, _ = build_message(0, m)
        h = table[pt].__name__ if pt in table else "?"
        ctx.count(("ptype", m[0]), kind="constants")
        cases.append((coq(tuple(m)), [pt, codes.get(h, 0)]))
    model_later(ctx, "APtype", cases,
                lambda i: ctx.disagree("message number / handler of a message kind differs from the model",
                                       case=samples[i], impl=cases[i][1]))
    from paramiko.channel import Channel
    ch = Channel(1)
    if ch.exit_status != -1 or ch.combine_stderr is not False:
        ctx.disagree("Channel.__init__ initial exit_status / combine_stderr differ from the model's chan0",
                     impl=[ch.exit_status, ch.combine_stderr])
    ch.closed = True


def rng_channels(ctx):
    return ctx.rng.randrange(2, 8)


def run(ctx):
    _quiet()
    ctx.rule = ("seeded generator (random.Random('C21-<seed>')): histories of 5..90 operations over 1..8 registered "
                "channels (ids 0..11 and boundary ids up to 2^32-1) plus dead and never-seen ids: incoming DATA / "
                "EXTENDED_DATA (codes 1 and others) / exit-status / other request / window-adjust / success / EOF / "
                "CLOSE with payloads of 0..40 bytes, recv/recv_stderr sizes 0..2^31-1, set_combine_stderr on/off at "
                "random points, exit-status polls; 25% of histories carry messages for dead or unknown ids. A case "
                "is non-trivial when distinct and at least one non-empty payload is delivered. Plus deterministic "
                "two-thread schedules, sendall chunkings, and loopback transfers (per channel: random stdout/stderr/"
                "stdin sizes, chunkings, read sizes, combine never/before/during, zlib on, 1-2 re-keys).")
    ctx.trusted += ["model coq/Model/C21.v is hand-written; tied to channel.py/transport.py by this differential run "
                    "(vm_compute of the model's own definitions, no extraction)",
                    "BufferedPipe modelled as list FIFO (C26), in-order delivery of the wire stream (C01), "
                    "window accounting (C19/C20) are other properties' subjects",
                    "atomicity of each modelled step rests on the channel lock / pipe lock; exercised by two "
                    "deterministic schedules and by loopback transfers, not proved from the Python memory model"]
    ctx.assumptions += ["channel ids are not reused within a history (C23)",
                        "recv sizes are non-negative"]
    ctx.prove()
    scale = 6 if ctx.thorough else 1

    def section(name, fn):
        """Each part runs on its own: a failure of one (translator, model, fail-closed AST cut) never stops
        the implementation-level oracles of the others."""
        try:
            fn()
        except Exception:  # noqa
            import traceback
            ctx.disagree("check section '%s' raised" % name, impl=traceback.format_exc()[-1500:])

    def direct():
        dispatch, text = build_dispatch()
        ctx.notes.append("dispatch statements executed from Transport.run: " + text[:200])
        t0 = time.time()
        direct_drive(ctx, dispatch, 240 * scale)
        ctx.log("direct drive done (%.1fs)" % (time.time() - t0))

    def pair():
        dispatch, _ = build_dispatch()
        pair_drive(ctx, dispatch, 60 * scale)

    section("constants", lambda: constants_check(ctx))
    section("direct drive", direct)
    section("sender/receiver pair", pair)
    section("combine schedules", lambda: scheduled_runs(ctx, 6 * scale))
    section("sendall", lambda: sendall_cases(ctx, 40 * scale))
    section("sendall window", lambda: sendall_window_cases(ctx, 60 * scale))
    section("exit status", lambda: exit_status_runs(ctx, 6 * scale))
    section("model evaluation of the small families", lambda: model_flush(ctx))
    section("loopback", lambda: loopbacks(ctx))


def loopbacks(ctx):
    t0 = time.time()
    # option grid (rotating by seed in the quick tier, everything in thorough): compression on/off, transport
    # default and per-channel maximum packet sizes from PACKET_GRID (non-default sizes matter: with a receive-side
    # maximum above 32 KiB one DATA message carries more than one default packet's worth of bytes)
    rot = ctx.seed % len(PACKET_GRID)
    run_loopback(ctx, 3, 48 * 1024, "small0")                                   # zlib, per-channel sizes random
    run_loopback(ctx, 3, 48 * 1024, "small1",
                 cfg={"compression": False, "max_packet": PACKET_GRID[(rot + 1) % len(PACKET_GRID)]})
    # one sendall several times larger than the window (sender must wait for credit again and again), with
    # compression and 64 KiB / 128 KiB packets; and one large sendall under the default window (credit threshold =
    # window/10 is far away) with a rotating packet size
    run_loopback(ctx, 1, 0, "bigsend-64k", big=(65536, 300 * 1024 + ctx.rng.randrange(0, 100000), 40 * 1024),
                 cfg={"max_packet": 65536, "chan_max_packet": [65536, 131072][ctx.seed % 2]})
    run_loopback(ctx, 1, 0, "bigsend-2m", big=(2 ** 21, 512 * 1024 + ctx.rng.randrange(0, 100000), 96 * 1024),
                 cfg={"max_packet": PACKET_GRID[rot], "chan_max_packet": PACKET_GRID[rot]})
    # channels opened concurrently from both sides, at the id-allocation point (uniqueness itself is C23's)
    for accept_outbound in ((True, False) if ctx.thorough or ctx.seed % 2 == 0 else (False, True)):
        concurrent_open(ctx, accept_outbound)
    if ctx.thorough:
        for k in range(8):
            run_loopback(ctx, 8, 512 * 1024, "large%d" % k,
                         cfg={"compression": k % 4 != 3, "max_packet": PACKET_GRID[k % len(PACKET_GRID)]})
            run_loopback(ctx, rng_channels(ctx), 256 * 1024, "medium%d" % k,
                         cfg={"compression": k % 4 != 1, "max_packet": PACKET_GRID[(k + 2) % len(PACKET_GRID)]})
    ctx.log("loopback done (%.1fs)" % (time.time() - t0))


def _tuplify(o):
    if isinstance(o, list):
        return [_tuplify(x) for x in o]
    return o


def replay(ctx, rep):
    _quiet()
    case = rep.get("case") or {}
    if "ops" in case:
        dispatch, _ = build_dispatch()

        def fix(o):
            o = list(o)
            if o[0] == "Msg":
                o[2] = tuple(o[2])
            return tuple(o)

        c = (case["reg"], case["dead"], case["ids"], [fix(o) for o in case["ops"]])
        canon, obs = impl_run(dispatch, *c)
        ctx.count(("replay", repr(c)))
        check_oracle(ctx, c, obs)
        bad = model_mm(ctx, "run_case", "(list Z * list Z * list Z * list op)", [(coq_case(c), canon)])
        if bad:
            ctx.disagree("replayed history differs from the model", case=case, impl=canon)
    elif "concurrent_open" in case:
        concurrent_open(ctx, bool(case.get("accept_outbound")))
    elif case.get("pair"):
        dispatch, _ = build_dispatch()
        ops = []
        for o in case["sender_ops"]:
            ops.append((o[0], bytes.fromhex(o[1]["hex"])) if len(o) > 1 and isinstance(o[1], dict) else tuple(o))
        pair_drive(ctx, dispatch, 1, fixed=[(case["max_packet"], ops)])
    elif "loopback" in case and not str(case.get("loopback", "")).startswith("bigsend"):
        loopbacks(ctx)
    elif "exit_schedule" in case:
        ctx.count(("replay-exit", case["status_sent"]))
        got, _ = schedule_exit(case["status_sent"], case["exit_schedule"])
        if got != case["status_sent"]:
            ctx.fail(rep["key"], rep["what"], case=case, expected=case["status_sent"], observed=got)
    elif "max_packet" in case:
        sendall_window_cases(ctx, 1, fixed=[(bytes.fromhex(case["s"]["hex"]), case["window"], case["max_packet"])])
    elif str(case.get("loopback", "")).startswith("bigsend"):
        ch0 = case["channels"][0]
        conf = case.get("config") or {}
        run_loopback(ctx, 1, 0, case["loopback"], big=(ch0["window"], ch0["stdout"], ch0["stderr"]),
                     cfg={"compression": conf.get("compression", True),
                          "max_packet": conf.get("transport_max_packet", 32768),
                          "chan_max_packet": ch0.get("max_packet")})
    elif "schedule" in case:
        a = bytes.fromhex(case["stderr_buffered"]["hex"])
        b = bytes.fromhex(case["stderr_arriving"]["hex"])
        scheduled_runs(ctx, 1, pairs=[(a, b)])
    else:
        run(ctx)
    model_flush(ctx)
