"""gen/c01.py -- fail-closed translator for property C01 (packet layer delivers the sent stream).

Reads (AST only, nothing is imported) from the working tree under `repo`:

  paramiko/common.py     xffffffff                               the sequence-number mask
  paramiko/transport.py  Transport._cipher_info / _mac_info / _compression_info (dict literals)
                         Transport._activate_inbound/_outbound   mac_size=16 if aead, etm rule, sdctr rule
                         Transport._auth_trigger                 which compression is switched on late
  paramiko/packet.py     Packetizer.__init__                     initial block size 8 / MAC size 0 / seqno 0
                         Packetizer._inc_iv_counter              4 fixed bytes + 8-byte big-endian counter + 1
                         Packetizer.send_message / read_message  seqno bump `(seq + 1) & xffffffff`, rollover test
                         Packetizer.read_message                 the read sizes of the three paths, blocking test,
                                                                 payload slice
                         Packetizer.read_all                     loop condition, recv(n), EOF on b"", out/n update,
                                                                 the need-rekey guard `check_rekey and len(out)==0 and ..`
                         Packetizer.write_all                    send(out), retry resets n = 0, zero-return rule,
                                                                 n < 0 -> EOFError, n == len(out) -> break, out = out[n:]

and emits coq/Gen/C01_gen.v.  Proofs/C01_proofs.v proves (`source_*`, exported as C01_source_* in
Props/C01_props.v) that the generated values / expressions are exactly what the model coq/Model/C01.v uses, so
editing one of them in paramiko breaks a proof obligation.  Statement shapes are compared as normalised source
text; any shape not recognised raises (fail closed)."""
import ast
import os


class Shape(Exception):
    pass


def die(msg, node=None):
    where = ""
    if node is not None and hasattr(node, "lineno"):
        where = " (line %d: %s)" % (node.lineno, norm(node)[:160])
    raise Shape("gen/c01.py: unrecognised source shape: " + msg + where)


def norm(node):
    return " ".join(ast.unparse(node).split())


def get_class(tree, name):
    for n in tree.body:
        if isinstance(n, ast.ClassDef) and n.name == name:
            return n
    die("class %s not found" % name)


def get_func(cls, name):
    fs = [n for n in cls.body if isinstance(n, ast.FunctionDef) and n.name == name]
    if len(fs) != 1:
        die("expected exactly one %s.%s, found %d" % (cls.name, name, len(fs)))
    return fs[0]


def strip_doc(body):
    if body and isinstance(body[0], ast.Expr) and isinstance(body[0].value, ast.Constant) \
            and isinstance(body[0].value.value, str):
        return body[1:]
    return body


def stmts_text(fn):
    """Normalised text of every simple statement of fn (nested included), in source order."""
    out = []
    for n in ast.walk(fn):
        if isinstance(n, (ast.Assign, ast.AugAssign, ast.Return, ast.Raise, ast.Expr, ast.Break)):
            out.append((n.lineno, norm(n)))
    return [t for _, t in sorted(out)]


def require(fn, texts, what):
    have = stmts_text(fn)
    for t in texts:
        if have.count(t) < 1:
            die("%s: statement `%s` not found in %s" % (what, t, fn.name))


def require_once(fn, text, what):
    n = stmts_text(fn).count(text)
    if n != 1:
        die("%s: statement `%s` must occur exactly once in %s (found %d)" % (what, text, fn.name, n))


def count_stores(fn, target):
    """Number of statements in fn that assign to `target` (normalised text of the target)."""
    k = 0
    for n in ast.walk(fn):
        if isinstance(n, ast.Assign):
            k += sum(1 for t in n.targets if norm(t) == target)
        elif isinstance(n, (ast.AugAssign, ast.AnnAssign)) and norm(n.target) == target:
            k += 1
    return k


# --------------------------------------------------------------------------- expressions -> Gallina


class Tr:
    ZOPS = {ast.Add: "(%s + %s)", ast.Sub: "(%s - %s)", ast.Mult: "(%s * %s)", ast.Mod: "(%s mod %s)",
            ast.BitAnd: "(Z.land %s %s)"}
    CMP = {ast.Lt: "(%s <? %s)", ast.LtE: "(%s <=? %s)", ast.Gt: "(%s >? %s)", ast.GtE: "(%s >=? %s)",
           ast.Eq: "(%s =? %s)", ast.NotEq: "(negb (%s =? %s))"}

    def __init__(self, envz, envb=None):
        self.envz = envz
        self.envb = envb or {}

    def z(self, n):
        if isinstance(n, ast.Constant) and type(n.value) is int:
            return "%d" % n.value if n.value >= 0 else "(%d)" % n.value
        if isinstance(n, ast.UnaryOp) and isinstance(n.op, ast.USub):
            return "(- %s)" % self.z(n.operand)
        if isinstance(n, ast.BinOp) and type(n.op) in self.ZOPS:
            return self.ZOPS[type(n.op)] % (self.z(n.left), self.z(n.right))
        k = norm(n)
        if k in self.envz:
            return self.envz[k]
        die("integer expression", n)

    def b(self, n):
        if isinstance(n, ast.BoolOp):
            op = " && " if isinstance(n.op, ast.And) else " || "
            return "(" + op.join(self.b(v) for v in n.values) + ")"
        if isinstance(n, ast.UnaryOp) and isinstance(n.op, ast.Not):
            return "(negb %s)" % self.b(n.operand)
        if isinstance(n, ast.Compare) and len(n.ops) == 1 and type(n.ops[0]) in self.CMP:
            return self.CMP[type(n.ops[0])] % (self.z(n.left), self.z(n.comparators[0]))
        k = norm(n)
        if k in self.envb:
            return self.envb[k]
        die("boolean expression", n)


def const_int(node, what):
    if isinstance(node, ast.Constant) and type(node.value) is int:
        return node.value
    die(what + " must be an integer literal", node)


def find_assign(fn, target, what, nth=0):
    """Value node of the nth statement `target = <value>` in fn (source order)."""
    found = []
    for n in ast.walk(fn):
        if isinstance(n, ast.Assign) and len(n.targets) == 1 and norm(n.targets[0]) == target:
            found.append(n)
    found.sort(key=lambda n: n.lineno)
    if len(found) <= nth:
        die("%s: assignment to %s #%d not found in %s" % (what, target, nth, fn.name))
    return found[nth].value


def find_if(fn, pred, what):
    found = [n for n in ast.walk(fn) if isinstance(n, ast.If) and pred(norm(n.test))]
    if len(found) != 1:
        die("%s: expected exactly one matching `if` in %s, found %d" % (what, fn.name, len(found)))
    return found[0]


# --------------------------------------------------------------------------- tables (dict literals)


def class_dict(cls, name):
    for n in cls.body:
        if isinstance(n, ast.Assign) and len(n.targets) == 1 and norm(n.targets[0]) == name:
            if not isinstance(n.value, ast.Dict):
                die("%s must be a dict literal" % name, n)
            return n.value
    die("%s not found in class %s" % (name, cls.name))


def str_key(k, what):
    if isinstance(k, ast.Constant) and isinstance(k.value, str):
        return k.value
    die(what + ": key must be a string literal", k)


def tr_tables(tcls):
    ciphers = []
    d = class_dict(tcls, "_cipher_info")
    for k, v in zip(d.keys, d.values):
        name = str_key(k, "_cipher_info")
        if not isinstance(v, ast.Dict):
            die("_cipher_info[%s] must be a dict literal" % name, v)
        ent = {str_key(kk, name): vv for kk, vv in zip(v.keys, v.values)}
        known = {"class", "mode", "block-size", "key-size", "iv-size", "is_aead"}
        if set(ent) - known:
            die("_cipher_info[%s]: unknown fields %s" % (name, sorted(set(ent) - known)), v)
        bs = const_int(ent.get("block-size"), name + " block-size")
        ks = const_int(ent.get("key-size"), name + " key-size")
        aead = False
        if "is_aead" in ent:
            if not (isinstance(ent["is_aead"], ast.Constant) and type(ent["is_aead"].value) is bool):
                die("is_aead must be a bool literal", ent["is_aead"])
            aead = ent["is_aead"].value
        ivs = const_int(ent["iv-size"], name + " iv-size") if "iv-size" in ent else bs
        if aead != ("mode" not in ent):
            die("_cipher_info[%s]: exactly the AEAD entries have no `mode`" % name, v)
        ctr = (not aead) and norm(ent["mode"]) == "modes.CTR"
        if name.endswith("-ctr") != ctr:
            die("_cipher_info[%s]: the name ends in -ctr iff the mode is CTR (sdctr rule)" % name, v)
        ciphers.append((name, bs, ks, ivs, aead))
    macs = []
    d = class_dict(tcls, "_mac_info")
    for k, v in zip(d.keys, d.values):
        name = str_key(k, "_mac_info")
        if not isinstance(v, ast.Dict):
            die("_mac_info[%s] must be a dict literal" % name, v)
        ent = {str_key(kk, name): vv for kk, vv in zip(v.keys, v.values)}
        if set(ent) != {"class", "size"}:
            die("_mac_info[%s]: fields must be class, size" % name, v)
        digest = {"md5": 16, "sha1": 20, "sha256": 32, "sha512": 64}.get(norm(ent["class"]))
        if digest is None:
            die("_mac_info[%s]: unknown digest class" % name, ent["class"])
        macs.append((name, const_int(ent["size"], name + " size"), digest, "etm@openssh.com" in name))
    comps = []
    d = class_dict(tcls, "_compression_info")
    for k, v in zip(d.keys, d.values):
        name = str_key(k, "_compression_info")
        t = norm(v)
        if t == "(ZlibCompressor, ZlibDecompressor)":
            comps.append((name, True))
        elif t == "(None, None)":
            comps.append((name, False))
        else:
            die("_compression_info[%s]: unexpected engines" % name, v)
    return ciphers, macs, comps


def check_activate(tcls):
    for fname, mac, side, ivname in (("_activate_inbound", "self.remote_mac", "inbound", "iv_in"),
                                    ("_activate_outbound", "self.local_mac", "outbound", "iv_out")):
        fn = get_func(tcls, fname)
        require_once(fn, "aead = info.get('is_aead', False)", fname)
        require_once(fn, "block_size = info['block-size']", fname)
        require_once(fn, "iv_size = info.get('iv-size', block_size)", fname)
        require_once(fn, "etm = not aead and 'etm@openssh.com' in %s" % mac, fname)
        require_once(fn, "mac_size = self._mac_info[%s]['size']" % mac, fname)
        calls = [n for n in ast.walk(fn) if isinstance(n, ast.Call)
                 and norm(n.func) == "self.packetizer.set_%s_cipher" % side]
        if len(calls) != 1:
            die("%s: one call of set_%s_cipher expected" % (fname, side), fn)
        kw = {k.arg: norm(k.value) for k in calls[0].keywords}
        want = {"block_engine": "engine", "block_size": "block_size", "mac_engine": "None if aead else mac_engine",
                "mac_key": "None if aead else mac_key", "etm": "etm", "aead": "aead",
                ivname: "%s if aead else None" % ivname}
        if side == "outbound":
            want["sdctr"] = "sdctr"
            require_once(fn, "sdctr = self.local_cipher.endswith('-ctr')", fname)
        for k, v in want.items():
            if kw.get(k) != v:
                die("%s: keyword %s=%s expected, found %s" % (fname, k, v, kw.get(k)), calls[0])
        msz = [k.value for k in calls[0].keywords if k.arg == "mac_size"]
        if len(msz) != 1 or not (isinstance(msz[0], ast.IfExp) and norm(msz[0].test) == "aead"
                                 and norm(msz[0].orelse) == "mac_size"):
            die("%s: mac_size=<n> if aead else mac_size expected" % fname, calls[0])
        yield const_int(msz[0].body, "AEAD mac_size")


def check_auth_trigger(tcls):
    fn = get_func(tcls, "_auth_trigger")
    names = []
    for n in ast.walk(fn):
        if isinstance(n, ast.If):
            t = norm(n.test)
            for side in ("self.local_compression == ", "self.remote_compression == "):
                if t.startswith(side):
                    names.append(ast.literal_eval(t[len(side):]))
    if len(names) != 2 or names[0] != names[1]:
        die("_auth_trigger: one delayed compression name on both directions expected", fn)
    return names[0]


# --------------------------------------------------------------------------- packet.py


def tr_packet(pcls, out):
    init = get_func(pcls, "__init__")
    for attr, key in (("self.__block_size_out", "init_bs_out"), ("self.__block_size_in", "init_bs_in"),
                      ("self.__mac_size_out", "init_msz_out"), ("self.__mac_size_in", "init_msz_in"),
                      ("self.__sequence_number_out", "init_seq_out"), ("self.__sequence_number_in", "init_seq_in")):
        if count_stores(init, attr) != 1:
            die("__init__: %s must be assigned exactly once" % attr, init)
        out[key] = const_int(find_assign(init, attr, "__init__"), attr)
    for a in ("self.__block_engine_out", "self.__block_engine_in", "self.__compress_engine_out",
              "self.__compress_engine_in"):
        if norm(find_assign(init, a, "__init__")) != "None":
            die("__init__: %s = None expected" % a, init)
    require_once(init, "self._initial_kex_done = False", "__init__")

    # ---- _inc_iv_counter
    fn = get_func(pcls, "_inc_iv_counter")
    body = strip_doc(fn.body)
    want = ["iv_counter_b = iv[%d:]", "iv_counter = int.from_bytes(iv_counter_b, 'big')",
            "inc_iv_counter = iv_counter + %d", "inc_iv_counter_b = inc_iv_counter.to_bytes(%d, 'big')",
            "new_iv = iv[0:%d] + inc_iv_counter_b", "return new_iv"]
    if len(body) != len(want):
        die("_inc_iv_counter must have %d statements" % len(want), fn)
    import re
    nums = []
    for st, w in zip(body, want):
        pat = "^" + re.escape(w).replace("%d", r"(\d+)") + "$"
        m = re.match(pat, norm(st))
        if not m:
            die("_inc_iv_counter: expected `%s`" % w, st)
        nums += [int(x) for x in m.groups()]
    fixed, step, ctr, fixed2 = nums
    if fixed != fixed2:
        die("_inc_iv_counter: iv[%d:] and iv[0:%d] must split at the same index" % (fixed, fixed2), fn)
    out.update(iv_fixed=fixed, iv_step=step, iv_ctr=ctr)

    # ---- sequence numbers
    for fname, seq in (("send_message", "self.__sequence_number_out"), ("read_message", "self.__sequence_number_in")):
        fn = get_func(pcls, fname)
        v = find_assign(fn, "next_seq", fname)
        tr = Tr({seq: "q", "xffffffff": "g1_seq_mask"})
        out["seq_next_" + fname] = tr.z(v)
        if count_stores(fn, seq) != 1:
            die("%s: %s must be stored exactly once" % (fname, seq), fn)
        require_once(fn, "%s = next_seq" % seq, fname)
        iff = find_if(fn, lambda t: t.startswith("next_seq == 0"), fname + " rollover test")
        tr = Tr({"next_seq": "next"}, {"self._initial_kex_done": "kex_done"})
        out["rollover_" + fname] = tr.b(iff.test)
        if len(iff.body) != 1 or not norm(iff.body[0]).startswith("raise SSHException("):
            die("%s: the rollover test must raise SSHException" % fname, iff)
        # the bump must come after the test
        bump = [n for n in ast.walk(fn) if isinstance(n, ast.Assign) and norm(n) == "%s = next_seq" % seq][0]
        if not iff.lineno < bump.lineno:
            die("%s: rollover test must precede the seqno store" % fname, iff)

    # ---- read_message: read sizes, blocking test, payload slice
    fn = get_func(pcls, "read_message")
    require_once(fn, "header = self.read_all(self.__block_size_in, check_rekey=True)", "read_message")
    others = [norm(n) for n in ast.walk(fn) if isinstance(n, ast.Call) and norm(n.func) == "self.read_all"]
    if sorted(others) != sorted(["self.read_all(self.__block_size_in, check_rekey=True)",
                                 "self.read_all(remaining, check_rekey=False)",
                                 "self.read_all(self.__mac_size_in, check_rekey=False)",
                                 "self.read_all(remaining, check_rekey=False)",
                                 "self.read_all(packet_size + self.__mac_size_in - len(leftover))"]):
        die("read_message: unexpected set of read_all calls: %s" % others, fn)
    if stmts_text(fn).count("packet_size = struct.unpack('>I', header[:4])[0]") != 3:
        die("read_message: packet_size = struct.unpack('>I', header[:4])[0] expected in all three paths", fn)
    if stmts_text(fn).count("packet = header[4:] + self.read_all(remaining, check_rekey=False)") != 2:
        die("read_message: packet = header[4:] + read_all(remaining) expected in the ETM and AEAD paths", fn)
    require_once(fn, "aad = header[:4]", "read_message")
    require_once(fn, "leftover = header[4:]", "read_message")
    require_once(fn, "packet = buf[:packet_size - len(leftover)]", "read_message")
    require_once(fn, "post_packet = buf[packet_size - len(leftover):]", "read_message")
    require_once(fn, "packet = leftover + packet", "read_message")
    require_once(fn, "mac = post_packet[:self.__mac_size_in]", "read_message")
    require_once(fn, "padding = byte_ord(packet[0])", "read_message")
    require_once(fn, "msg = Message(payload[1:])", "read_message")
    require_once(fn, "cmd = byte_ord(payload[0])", "read_message")
    require_once(fn, "return (cmd, msg)", "read_message")
    env = {"packet_size": "ps", "self.__block_size_in": "bs", "self.__mac_size_in": "msz", "len(leftover)": "lo",
           "padding": "padding"}
    tr = Tr(env)
    out["etm_remaining"] = tr.z(find_assign(fn, "remaining", "ETM remaining", 0))
    out["aead_remaining"] = tr.z(find_assign(fn, "remaining", "AEAD remaining", 1))
    if count_stores(fn, "remaining") != 2:
        die("read_message: `remaining` must be assigned exactly twice", fn)
    buf = find_assign(fn, "buf", "classic read")
    if not (isinstance(buf, ast.Call) and norm(buf.func) == "self.read_all" and len(buf.args) == 1 and not buf.keywords):
        die("read_message: buf = self.read_all(<n>) expected", buf)
    out["classic_read"] = tr.z(buf.args[0])
    blk = find_if(fn, lambda t: "% self.__block_size_in" in t, "blocking test")
    out["block_check"] = tr.b(blk.test)
    if len(blk.body) != 1 or not norm(blk.body[0]).startswith("raise SSHException("):
        die("read_message: the blocking test must raise SSHException", blk)
    pay = find_assign(fn, "payload", "payload slice", 0)
    if not (isinstance(pay, ast.Subscript) and norm(pay.value) == "packet" and isinstance(pay.slice, ast.Slice)
            and pay.slice.step is None and pay.slice.lower is not None and pay.slice.upper is not None):
        die("read_message: payload = packet[a:b] expected", pay)
    out["payload_start"] = const_int(pay.slice.lower, "payload slice start")
    out["payload_end"] = tr.z(pay.slice.upper)

    # ---- read_all
    fn = get_func(pcls, "read_all")
    if [a.arg for a in fn.args.args] != ["self", "n", "check_rekey"] or norm(fn.args.defaults[0]) != "False":
        die("read_all signature", fn)
    loops = [n for n in ast.walk(fn) if isinstance(n, ast.While)]
    if len(loops) != 1:
        die("read_all: one while loop expected", fn)
    out["read_continue"] = Tr({"n": "n"}).b(loops[0].test)
    for t in ("x = self.__socket.recv(n)", "out += x", "n -= len(x)", "got_timeout = True", "return out",
              "got_timeout = False"):
        require(fn, [t], "read_all")
    if stmts_text(fn).count("x = self.__socket.recv(n)") != 1 or count_stores(fn, "out") != 3 \
            or count_stores(fn, "n") != 2:
        die("read_all: recv / out / n updates do not have the modelled shape", fn)
    eof = find_if(fn, lambda t: t == "len(x) == 0", "read_all EOF test")
    if [norm(s) for s in eof.body] != ["raise EOFError()"]:
        die("read_all: recv() == b'' must raise EOFError", eof)
    rk = find_if(fn, lambda t: "self.__need_rekey" in t, "read_all need-rekey guard")
    if [norm(s) for s in rk.body] != ["raise NeedRekeyException()"]:
        die("read_all: the need-rekey guard must raise NeedRekeyException", rk)
    out["rekey_cond"] = Tr({"len(out)": "out_len"}, {"check_rekey": "check_rekey",
                                                     "self.__need_rekey": "need_rekey"}).b(rk.test)

    # ---- write_all
    fn = get_func(pcls, "write_all")
    loops = [n for n in ast.walk(fn) if isinstance(n, ast.While)]
    if len(loops) != 1:
        die("write_all: one while loop expected", fn)
    out["write_continue"] = Tr({"len(out)": "len_out"}).b(loops[0].test)
    loop = loops[0]
    top = [norm(s).split(":")[0] if isinstance(s, (ast.If, ast.Try)) else norm(s) for s in loop.body]
    if top != ["retry_write = False", "try", "if retry_write", "if n < 0", "if n == len(out)", "out = out[n:]"]:
        die("write_all: loop body statements / order not as modelled: %s" % top, loop)
    tryst = loop.body[1]
    if [norm(s) for s in tryst.body] != ["n = self.__socket.send(out)"]:
        die("write_all: n = self.__socket.send(out) expected", tryst)
    retry = loop.body[2]
    if not retry.body or not (isinstance(retry.body[0], ast.Assign) and norm(retry.body[0].targets[0]) == "n"):
        die("write_all: the retry path must start by resetting n", retry)
    out["write_retry_n"] = const_int(retry.body[0].value, "retry n")
    if len(retry.orelse) != 2 or norm(retry.orelse[1]) != "iteration_with_zero_as_return_value += 1":
        die("write_all: zero-return accounting not as modelled", retry)
    z = retry.orelse[0]
    if not (isinstance(z, ast.If) and [norm(s) for s in z.body] == ["n = -1"] and not z.orelse):
        die("write_all: zero-return rule must set n = -1", z)
    out["write_zero_abort"] = Tr({"n": "n", "iteration_with_zero_as_return_value": "iters"}).b(z.test)
    out["write_fail"] = Tr({"n": "n"}).b(loop.body[3].test)
    if [norm(s) for s in loop.body[3].body] != ["raise EOFError()"]:
        die("write_all: n < 0 must raise EOFError", loop.body[3])
    out["write_done"] = Tr({"n": "n", "len(out)": "len_out"}).b(loop.body[4].test)
    if [norm(s) for s in loop.body[4].body] != ["break"]:
        die("write_all: n == len(out) must break", loop.body[4])
    hand = {norm(h.type) if h.type is not None else None: h for h in tryst.handlers}
    if [norm(s) for s in hand.get("socket.timeout", ast.ExceptHandler(body=[])).body] != ["retry_write = True"]:
        die("write_all: socket.timeout must retry", tryst)
    pre = [norm(s) for s in fn.body if not isinstance(s, ast.While)]
    if pre != ["self.__keepalive_last = time.time()", "iteration_with_zero_as_return_value = 0", "return"]:
        die("write_all: statements outside the loop not as modelled: %s" % pre, fn)


def coq_bool(b):
    return "true" if b else "false"


def generate(repo):
    ctree = ast.parse(open(os.path.join(repo, "paramiko", "common.py")).read())
    ptree = ast.parse(open(os.path.join(repo, "paramiko", "packet.py")).read())
    ttree = ast.parse(open(os.path.join(repo, "paramiko", "transport.py")).read())
    masks = [n.value for n in ctree.body if isinstance(n, ast.Assign) and len(n.targets) == 1
             and norm(n.targets[0]) == "xffffffff"]
    if len(masks) != 1:
        die("common.xffffffff must be assigned exactly once")
    mask = const_int(masks[0], "xffffffff")
    imp = [norm(n) for n in ptree.body if isinstance(n, ast.ImportFrom) and n.module == "paramiko.common"]
    if not imp or "xffffffff" not in imp[0]:
        die("packet.py must import xffffffff from paramiko.common")
    tcls = get_class(ttree, "Transport")
    ciphers, macs, comps = tr_tables(tcls)
    aead_msz = list(check_activate(tcls))
    if len(set(aead_msz)) != 1:
        die("inbound and outbound AEAD mac_size differ: %s" % aead_msz)
    delayed = check_auth_trigger(tcls)
    if delayed not in [c[0] for c in comps]:
        die("_auth_trigger switches on a compression that is not in _compression_info")
    o = {}
    tr_packet(get_class(ptree, "Packetizer"), o)
    L = []
    L.append("(* GENERATED by gen/c01.py from paramiko/common.py, packet.py, transport.py - do not edit. *)")
    L.append("From Coq Require Import ZArith List Bool.")
    L.append("Import ListNotations.")
    L.append("Open Scope Z_scope.")
    L.append("(* _cipher_info: (block size, key size, IV size, is_aead), in source order: %s *)"
             % ", ".join(c[0] for c in ciphers))
    L.append("Definition g1_ciphers : list (Z * Z * Z * bool) := [%s]."
             % "; ".join("(%d, %d, %d, %s)" % (c[1], c[2], c[3], coq_bool(c[4])) for c in ciphers))
    L.append("(* _mac_info: (transmitted size, digest size, etm), in source order: %s *)" % ", ".join(m[0] for m in macs))
    L.append("Definition g1_macs : list (Z * Z * bool) := [%s]."
             % "; ".join("(%d, %d, %s)" % (m[1], m[2], coq_bool(m[3])) for m in macs))
    L.append("(* _compression_info: (has engines, switched on only after authentication): %s *)"
             % ", ".join(c[0] for c in comps))
    L.append("Definition g1_compressions : list (bool * bool) := [%s]."
             % "; ".join("(%s, %s)" % (coq_bool(c[1]), coq_bool(c[0] == delayed)) for c in comps))
    L.append("Definition g1_aead_mac_size : Z := %d." % aead_msz[0])
    for k in ("init_bs_out", "init_bs_in", "init_msz_out", "init_msz_in", "init_seq_out", "init_seq_in"):
        L.append("Definition g1_%s : Z := %d." % (k, o[k]))
    L.append("Definition g1_seq_mask : Z := %d." % mask)
    L.append("Definition g1_seq_next_out (q : Z) : Z := %s." % o["seq_next_send_message"])
    L.append("Definition g1_seq_next_in (q : Z) : Z := %s." % o["seq_next_read_message"])
    L.append("Definition g1_rollover_out (next : Z) (kex_done : bool) : bool := %s." % o["rollover_send_message"])
    L.append("Definition g1_rollover_in (next : Z) (kex_done : bool) : bool := %s." % o["rollover_read_message"])
    L.append("Definition g1_iv_fixed : Z := %d." % o["iv_fixed"])
    L.append("Definition g1_iv_step : Z := %d." % o["iv_step"])
    L.append("Definition g1_iv_ctr : Z := %d." % o["iv_ctr"])
    L.append("Definition g1_etm_remaining (ps bs : Z) : Z := %s." % o["etm_remaining"])
    L.append("Definition g1_aead_remaining (ps bs msz : Z) : Z := %s." % o["aead_remaining"])
    L.append("Definition g1_classic_read (ps msz lo : Z) : Z := %s." % o["classic_read"])
    L.append("Definition g1_block_check (ps lo bs : Z) : bool := %s." % o["block_check"])
    L.append("Definition g1_payload_start : Z := %d." % o["payload_start"])
    L.append("Definition g1_payload_end (ps padding : Z) : Z := %s." % o["payload_end"])
    L.append("Definition g1_read_continue (n : Z) : bool := %s." % o["read_continue"])
    L.append("Definition g1_rekey_cond (check_rekey : bool) (out_len : Z) (need_rekey : bool) : bool := %s."
             % o["rekey_cond"])
    L.append("Definition g1_write_continue (len_out : Z) : bool := %s." % o["write_continue"])
    L.append("Definition g1_write_retry_n : Z := %d." % o["write_retry_n"])
    L.append("Definition g1_write_zero_abort (n iters : Z) : bool := %s." % o["write_zero_abort"])
    L.append("Definition g1_write_fail (n : Z) : bool := %s." % o["write_fail"])
    L.append("Definition g1_write_done (n len_out : Z) : bool := %s." % o["write_done"])
    return {"C01_gen.v": "\n".join(L) + "\n"}


if __name__ == "__main__":
    import sys
    print(generate(sys.argv[1] if len(sys.argv) > 1 else "/repo")["C01_gen.v"])
