"""gen/c03.py -- fail-closed translator for property C03 (RFC 4253 section 6 framing).

Reads, with the Python `ast` module, from the working tree under `repo`:

  paramiko/packet.py     Packetizer.__init__            outbound defaults (block size 8, MAC size 0, ...)
                         Packetizer.set_outbound_cipher  parameters stored unchanged
                         Packetizer._build_packet        addlen conditional, padding expression,
                                                         struct.pack(">IB", <length field>, <pad byte>),
                                                         number of padding bytes appended on both branches
                         Packetizer.send_message         which slice of the packet is handed to the cipher in
                                                         each framing mode, when a MAC is appended, its truncation
  paramiko/transport.py  Transport._activate_outbound    etm / aead / mac_size / block_size arguments

and, from the live classes of that tree, `Transport._cipher_info` / `Transport._mac_info`.

Everything is emitted as Gallina into coq/Gen/C03_gen.v; the theorems of coq/Props/C03_props.v are about
these generated definitions, so they are re-proved against what the code says on every run.  Any statement or
expression shape this file does not recognise raises `Abort` (the framework reports a broken obligation).
"""
import ast
import importlib
import os
import sys


class Abort(Exception):
    pass


def die(msg, node=None):
    where = ""
    if node is not None and hasattr(node, "lineno"):
        where = " (line %d: %s)" % (node.lineno, ast.dump(node)[:200])
    raise Abort("gen/c03.py: unrecognised source shape: " + msg + where)


# --------------------------------------------------------------------------- leaves


def leaf_key(node):
    """Canonical text of the few leaf shapes that may stand for a model variable."""
    if isinstance(node, ast.Name):
        return node.id
    if isinstance(node, ast.Attribute) and isinstance(node.value, ast.Name) and node.value.id == "self":
        return "self." + node.attr
    if (isinstance(node, ast.Call) and isinstance(node.func, ast.Name) and node.func.id == "len"
            and len(node.args) == 1 and not node.keywords and isinstance(node.args[0], ast.Name)):
        return "len(%s)" % node.args[0].id
    return None


def is_none(node):
    return isinstance(node, ast.Constant) and node.value is None


class Tr:
    """Expression subset -> Gallina.  envz: leaf -> Z variable; envb: leaf -> bool term.
    `isnone`: leaf -> bool term meaning "<leaf> is None"."""

    ZOPS = {ast.Add: "(%s + %s)", ast.Sub: "(%s - %s)", ast.Mult: "(%s * %s)", ast.FloorDiv: "(%s / %s)",
            ast.Mod: "(%s mod %s)", ast.BitAnd: "(Z.land %s %s)", ast.BitOr: "(Z.lor %s %s)",
            ast.LShift: "(Z.shiftl %s %s)", ast.RShift: "(Z.shiftr %s %s)"}
    CMP = {ast.Lt: "(%s <? %s)", ast.LtE: "(%s <=? %s)", ast.Gt: "(%s >? %s)", ast.GtE: "(%s >=? %s)",
           ast.Eq: "(%s =? %s)", ast.NotEq: "(negb (%s =? %s))"}

    def __init__(self, envz=None, envb=None, isnone=None):
        self.envz = envz or {}
        self.envb = envb or {}
        self.isnone = isnone or {}

    def z(self, n):
        if isinstance(n, ast.Constant) and type(n.value) is int:
            return "%d" % n.value if n.value >= 0 else "(%d)" % n.value
        if isinstance(n, ast.UnaryOp) and isinstance(n.op, ast.USub):
            return "(- %s)" % self.z(n.operand)
        if isinstance(n, ast.BinOp) and type(n.op) in self.ZOPS:
            return self.ZOPS[type(n.op)] % (self.z(n.left), self.z(n.right))
        if isinstance(n, ast.IfExp):
            return "(if %s then %s else %s)" % (self.b(n.test), self.z(n.body), self.z(n.orelse))
        if isinstance(n, ast.Call) and isinstance(n.func, ast.Name) and n.func.id in ("min", "max") \
                and len(n.args) == 2 and not n.keywords:
            return "(Z.%s %s %s)" % (n.func.id, self.z(n.args[0]), self.z(n.args[1]))
        k = leaf_key(n)
        if k is not None and k in self.envz:
            return self.envz[k]
        die("integer expression", n)

    def b(self, n):
        if isinstance(n, ast.Constant) and type(n.value) is bool:
            return "true" if n.value else "false"
        if isinstance(n, ast.BoolOp):
            op = " && " if isinstance(n.op, ast.And) else " || "
            return "(" + op.join(self.b(v) for v in n.values) + ")"
        if isinstance(n, ast.UnaryOp) and isinstance(n.op, ast.Not):
            return "(negb %s)" % self.b(n.operand)
        if isinstance(n, ast.Compare) and len(n.ops) == 1:
            op, lhs, rhs = n.ops[0], n.left, n.comparators[0]
            if isinstance(op, (ast.Is, ast.IsNot)) and is_none(rhs):
                k = leaf_key(lhs)
                if k in self.isnone:
                    return self.isnone[k] if isinstance(op, ast.Is) else "(negb %s)" % self.isnone[k]
                die("`is None` test on an unknown object", n)
            if type(op) in self.CMP:
                return self.CMP[type(op)] % (self.z(lhs), self.z(rhs))
        k = leaf_key(n)
        if k is not None and k in self.envb:
            return self.envb[k]
        die("boolean expression", n)


# --------------------------------------------------------------------------- helpers on statements


def get_class(tree, name):
    for n in tree.body:
        if isinstance(n, ast.ClassDef) and n.name == name:
            return n
    die("class %s not found" % name)


def get_func(cls, name):
    fs = [n for n in cls.body if isinstance(n, ast.FunctionDef) and n.name == name]
    if len(fs) != 1:
        die("expected exactly one %s.%s, found %d" % (cls.name, name, len(fs)))
    return fs[0]


def strip_doc(body):
    if body and isinstance(body[0], ast.Expr) and isinstance(body[0].value, ast.Constant) \
            and isinstance(body[0].value.value, str):
        return body[1:]
    return body


def single_assign(st, what):
    if not (isinstance(st, ast.Assign) and len(st.targets) == 1):
        die("expected a simple assignment for " + what, st)
    return st.targets[0], st.value


def stores(func, key):
    """All statements in func that store to the leaf `key` (Assign / AugAssign / AnnAssign / for / with ...)."""
    out = []
    for n in ast.walk(func):
        if isinstance(n, (ast.Name, ast.Attribute)) and isinstance(getattr(n, "ctx", None), ast.Store) \
                and leaf_key(n) == key:
            out.append(n)
    return out


def the_assign(func, key):
    """The value of the one and only top-level `key = <value>` in func (no other store anywhere)."""
    if len(stores(func, key)) != 1:
        die("%s must be stored exactly once in %s (found %d)" % (key, func.name, len(stores(func, key))))
    for st in func.body:
        if isinstance(st, ast.Assign) and len(st.targets) == 1 and leaf_key(st.targets[0]) == key:
            return st.value
    die("%s is not assigned by a top-level statement of %s" % (key, func.name))


def const_int_slice(sub, base):
    """packet[a:b] -> (a, b) with b possibly None; the subscripted object must be Name `base`."""
    if not (isinstance(sub, ast.Subscript) and isinstance(sub.value, ast.Name) and sub.value.id == base
            and isinstance(sub.slice, ast.Slice) and sub.slice.step is None):
        die("expected %s[a:b]" % base, sub)

    def c(x):
        if x is None:
            return None
        if isinstance(x, ast.Constant) and type(x.value) is int and x.value >= 0:
            return x.value
        die("slice bound must be a non-negative integer literal", x)
    return c(sub.slice.lower), c(sub.slice.upper)


def engine_call(node, method):
    """self.__block_engine_out.<method>(args...) -> args"""
    if not (isinstance(node, ast.Call) and isinstance(node.func, ast.Attribute) and node.func.attr == method
            and leaf_key(node.func.value) == "self.__block_engine_out" and not node.keywords):
        die("expected self.__block_engine_out.%s(...)" % method, node)
    return node.args


# --------------------------------------------------------------------------- Packetizer._build_packet


def tr_build_packet(fn):
    if [a.arg for a in fn.args.args] != ["self", "payload"]:
        die("_build_packet signature", fn)
    body = strip_doc(fn.body)
    if len(body) != 7:
        die("_build_packet must have exactly 7 statements, found %d" % len(body), fn)
    out = {}
    # 1. bsize = self.__block_size_out
    t, v = single_assign(body[0], "bsize")
    if leaf_key(t) != "bsize" or leaf_key(v) != "self.__block_size_out":
        die("expected `bsize = self.__block_size_out`", body[0])
    # 2. addlen = <const> if <flags> else <const>
    t, v = single_assign(body[1], "addlen")
    if leaf_key(t) != "addlen":
        die("expected `addlen = ...`", body[1])
    out["addlen"] = Tr(envb={"self.__etm_out": "etm", "self.__aead_out": "aead"}).z(v)
    # 3. padding = <expr over bsize, addlen, len(payload)>
    t, v = single_assign(body[2], "padding")
    if leaf_key(t) != "padding":
        die("expected `padding = ...`", body[2])
    out["padding"] = Tr(envz={"bsize": "bsize", "addlen": "addlen", "len(payload)": "len_payload"}).z(v)
    # 4. packet = struct.pack(">IB", <length field>, <pad byte>)
    t, v = single_assign(body[3], "packet")
    if not (leaf_key(t) == "packet" and isinstance(v, ast.Call) and isinstance(v.func, ast.Attribute)
            and v.func.attr == "pack" and isinstance(v.func.value, ast.Name) and v.func.value.id == "struct"
            and len(v.args) == 3 and not v.keywords and isinstance(v.args[0], ast.Constant)
            and v.args[0].value == ">IB"):
        die('expected `packet = struct.pack(">IB", <length>, <padding>)`', body[3])
    tr = Tr(envz={"len(payload)": "len_payload", "padding": "padding"})
    out["length_field"] = tr.z(v.args[1])
    out["pad_byte"] = tr.z(v.args[2])
    # 5. packet += payload
    st = body[4]
    if not (isinstance(st, ast.AugAssign) and isinstance(st.op, ast.Add) and leaf_key(st.target) == "packet"
            and leaf_key(st.value) == "payload"):
        die("expected `packet += payload`", st)
    # 6. if <zero padding test>: packet += zero_byte * N  else: packet += os.urandom(N)
    st = body[5]
    if not (isinstance(st, ast.If) and len(st.body) == 1 and len(st.orelse) == 1):
        die("expected the zero/random padding `if` with one statement per branch", st)
    out["zero_padding"] = Tr(envb={"self.__sdctr_out": "sdctr"},
                             isnone={"self.__block_engine_out": "(negb enc)"}).b(st.test)
    trp = Tr(envz={"padding": "padding"})
    a, b = st.body[0], st.orelse[0]
    if not (isinstance(a, ast.AugAssign) and isinstance(a.op, ast.Add) and leaf_key(a.target) == "packet"
            and isinstance(a.value, ast.BinOp) and isinstance(a.value.op, ast.Mult)
            and leaf_key(a.value.left) == "zero_byte"):
        die("expected `packet += zero_byte * <n>`", a)
    out["padcount_zero"] = trp.z(a.value.right)
    if not (isinstance(b, ast.AugAssign) and isinstance(b.op, ast.Add) and leaf_key(b.target) == "packet"
            and isinstance(b.value, ast.Call) and isinstance(b.value.func, ast.Attribute)
            and b.value.func.attr == "urandom" and isinstance(b.value.func.value, ast.Name)
            and b.value.func.value.id == "os" and len(b.value.args) == 1 and not b.value.keywords):
        die("expected `packet += os.urandom(<n>)`", b)
    out["padcount_random"] = trp.z(b.value.args[0])
    # 7. return packet
    st = body[6]
    if not (isinstance(st, ast.Return) and leaf_key(st.value) == "packet"):
        die("expected `return packet`", st)
    return out


# --------------------------------------------------------------------------- Packetizer.send_message


def tr_send_message(fn):
    out = {}
    tries = [n for n in fn.body if isinstance(n, ast.Try)]
    if len(tries) != 1:
        die("send_message: expected one try block", fn)
    body = tries[0].body
    if len(stores(fn, "packet")) != 1:
        die("send_message: `packet` must be assigned exactly once", fn)
    if len(stores(fn, "out")) != 5:
        die("send_message: `out` must be stored exactly 5 times (3 cipher branches, clear, MAC append); found %d"
            % len(stores(fn, "out")), fn)
    # packet = self._build_packet(data)
    idx = None
    for i, st in enumerate(body):
        if isinstance(st, ast.Assign) and leaf_key(st.targets[0]) == "packet":
            v = st.value
            if not (isinstance(v, ast.Call) and leaf_key(v.func) == "self._build_packet" and len(v.args) == 1
                    and leaf_key(v.args[0]) == "data" and not v.keywords):
                die("expected `packet = self._build_packet(data)`", st)
            idx = i
    if idx is None:
        die("send_message: `packet = self._build_packet(data)` not found at the top level of the try block", fn)
    # --- before the try: data = data.asbytes(); cmd = byte_ord(data[<k>])  (IndexError on a short payload)
    pre = []
    for st in fn.body:
        if st is tries[0]:
            break
        pre.append(st)
    pre = strip_doc(pre)
    if len(stores(fn, "data")) != 2:
        die("send_message: `data` must be stored exactly twice (asbytes, compression); found %d"
            % len(stores(fn, "data")), fn)
    if not pre:
        die("send_message: statements before the try block not found", fn)
    t, v = single_assign(pre[0], "data")
    if not (leaf_key(t) == "data" and isinstance(v, ast.Call) and isinstance(v.func, ast.Attribute)
            and v.func.attr == "asbytes" and leaf_key(v.func.value) == "data" and not v.args and not v.keywords):
        die("send_message: expected `data = data.asbytes()` first", pre[0])
    reads = [st for st in pre[1:] if isinstance(st, ast.Assign) and leaf_key(st.targets[0]) == "cmd"]
    if len(reads) != 1 or len(stores(fn, "cmd")) != 1:
        die("send_message: expected one `cmd = byte_ord(data[k])` before the try block", fn)
    v = reads[0].value
    if not (isinstance(v, ast.Call) and leaf_key(v.func) == "byte_ord" and len(v.args) == 1 and not v.keywords
            and isinstance(v.args[0], ast.Subscript) and leaf_key(v.args[0].value) == "data"
            and isinstance(v.args[0].slice, ast.Constant) and type(v.args[0].slice.value) is int
            and v.args[0].slice.value >= 0):
        die("send_message: expected `cmd = byte_ord(data[k])` with a literal k >= 0", reads[0])
    out["type_byte_index"] = v.args[0].slice.value
    # --- compression: the statement(s) between `try:` and the packet assignment
    comp = [st for st in body[:idx] if not (isinstance(st, ast.Expr) and isinstance(st.value, ast.Constant))]
    if len(comp) != 1 or not isinstance(comp[0], ast.If) or comp[0].orelse or len(comp[0].body) != 1:
        die("send_message: expected exactly the compression `if` before `packet = self._build_packet(data)`", fn)
    out["compress_applies"] = Tr(isnone={"self.__compress_engine_out": "(negb has_comp)"}).b(comp[0].test)
    t, v = single_assign(comp[0].body[0], "data (compression)")
    if not (leaf_key(t) == "data" and isinstance(v, ast.Call) and leaf_key(v.func) == "self.__compress_engine_out"
            and len(v.args) == 1 and leaf_key(v.args[0]) == "data" and not v.keywords):
        die("send_message: expected `data = self.__compress_engine_out(data)`", comp[0].body[0])
    # the cipher `if`: first If after the packet assignment that tests the block engine
    rest = body[idx + 1:]
    isnone = {"self.__block_engine_out": "(negb enc)"}
    cipher_if = None
    mac_if = None
    for st in rest:
        if isinstance(st, ast.If) and any(leaf_key(x) == "out" for x in ast.walk(st)
                                          if isinstance(x, ast.Name) and isinstance(x.ctx, ast.Store)):
            if cipher_if is None:
                cipher_if = st
            elif mac_if is None:
                mac_if = st
            else:
                die("send_message: more than two `if` statements write `out`", st)
    if cipher_if is None or mac_if is None:
        die("send_message: cipher / MAC `if` statements not found", fn)
    if Tr(isnone=isnone).b(cipher_if.test) != "(negb (negb enc))":
        die("send_message: cipher `if` must test `self.__block_engine_out is not None`", cipher_if)
    # else: out = packet
    if not (len(cipher_if.orelse) == 1 and isinstance(cipher_if.orelse[0], ast.Assign)
            and leaf_key(cipher_if.orelse[0].targets[0]) == "out"
            and leaf_key(cipher_if.orelse[0].value) == "packet"):
        die("send_message: expected `else: out = packet`", cipher_if)
    if not (len(cipher_if.body) == 1 and isinstance(cipher_if.body[0], ast.If)):
        die("send_message: expected the etm/aead/else chain inside the cipher `if`", cipher_if)
    etm_if = cipher_if.body[0]
    if leaf_key(etm_if.test) != "self.__etm_out":
        die("send_message: first branch must test self.__etm_out", etm_if)
    # --- EtM: out = packet[0:k] + engine.update(packet[k:])
    if len(etm_if.body) != 1:
        die("send_message: EtM branch must be one statement", etm_if)
    t, v = single_assign(etm_if.body[0], "out (EtM)")
    if not (leaf_key(t) == "out" and isinstance(v, ast.BinOp) and isinstance(v.op, ast.Add)):
        die("send_message: EtM branch `out = packet[0:4] + update(packet[4:])`", etm_if.body[0])
    lo, hi = const_int_slice(v.left, "packet")
    args = engine_call(v.right, "update")
    if len(args) != 1:
        die("send_message: EtM update takes one argument", v.right)
    s, e = const_int_slice(args[0], "packet")
    if not ((lo in (0, None)) and hi is not None and s == hi and e is None):
        die("send_message: EtM clear prefix and encrypted slice must be contiguous packet[0:k] + packet[k:]", v)
    out["off_etm"] = hi
    # --- AEAD
    if not (len(etm_if.orelse) == 1 and isinstance(etm_if.orelse[0], ast.If)
            and leaf_key(etm_if.orelse[0].test) == "self.__aead_out"):
        die("send_message: second branch must be `elif self.__aead_out`", etm_if)
    aead_if = etm_if.orelse[0]
    if len(aead_if.body) != 2:
        die("send_message: AEAD branch must be two statements (encrypt, IV increment)", aead_if)
    t, v = single_assign(aead_if.body[0], "out (AEAD)")
    if not (leaf_key(t) == "out" and isinstance(v, ast.BinOp) and isinstance(v.op, ast.Add)):
        die("send_message: AEAD branch `out = packet[0:4] + encrypt(iv, packet[4:], packet[0:4])`", aead_if.body[0])
    lo, hi = const_int_slice(v.left, "packet")
    args = engine_call(v.right, "encrypt")
    if not (len(args) == 3 and leaf_key(args[0]) == "self.__iv_out"):
        die("send_message: AEAD encrypt(self.__iv_out, data, aad)", v.right)
    s, e = const_int_slice(args[1], "packet")
    alo, ahi = const_int_slice(args[2], "packet")
    if not ((lo in (0, None)) and hi is not None and s == hi and e is None):
        die("send_message: AEAD clear prefix and encrypted slice must be contiguous", v)
    if not ((alo in (0, None)) and ahi is not None):
        die("send_message: AEAD associated data must be packet[0:k]", args[2])
    out["off_aead"] = hi
    out["aad_len"] = ahi
    t, v = single_assign(aead_if.body[1], "IV increment")
    if not (leaf_key(t) == "self.__iv_out" and isinstance(v, ast.Call)
            and leaf_key(v.func) == "self._inc_iv_counter" and len(v.args) == 1
            and leaf_key(v.args[0]) == "self.__iv_out"):
        die("send_message: expected `self.__iv_out = self._inc_iv_counter(self.__iv_out)`", aead_if.body[1])
    # --- classic: out = engine.update(packet)
    if len(aead_if.orelse) != 1:
        die("send_message: classic branch must be one statement", aead_if)
    t, v = single_assign(aead_if.orelse[0], "out (classic)")
    args = engine_call(v, "update")
    if not (leaf_key(t) == "out" and len(args) == 1 and leaf_key(args[0]) == "packet"):
        die("send_message: classic branch `out = update(packet)`", aead_if.orelse[0])
    out["off_classic"] = 0
    # --- MAC
    out["mac_appended"] = Tr(envb={"self.__aead_out": "aead"}, isnone=isnone).b(mac_if.test)
    if mac_if.orelse or len(mac_if.body) != 3:
        die("send_message: MAC block must be three statements without else", mac_if)
    t, v = single_assign(mac_if.body[0], "packed")
    if not (leaf_key(t) == "packed" and isinstance(v, ast.Call) and isinstance(v.func, ast.Attribute)
            and v.func.attr == "pack" and len(v.args) == 2 and isinstance(v.args[0], ast.Constant)
            and v.args[0].value == ">I" and leaf_key(v.args[1]) == "self.__sequence_number_out"):
        die('send_message: expected `packed = struct.pack(">I", self.__sequence_number_out)`', mac_if.body[0])
    t, v = single_assign(mac_if.body[1], "payload")
    if not (leaf_key(t) == "payload" and isinstance(v, ast.BinOp) and isinstance(v.op, ast.Add)
            and leaf_key(v.left) == "packed" and isinstance(v.right, ast.IfExp)
            and leaf_key(v.right.body) == "out" and leaf_key(v.right.orelse) == "packet"):
        die("send_message: expected `payload = packed + (out if <etm> else packet)`", mac_if.body[1])
    out["mac_over_ciphertext"] = Tr(envb={"self.__etm_out": "etm"}).b(v.right.test)
    st = mac_if.body[2]
    if not (isinstance(st, ast.AugAssign) and isinstance(st.op, ast.Add) and leaf_key(st.target) == "out"
            and isinstance(st.value, ast.Subscript) and isinstance(st.value.slice, ast.Slice)
            and st.value.slice.lower is None and st.value.slice.step is None
            and st.value.slice.upper is not None
            and isinstance(st.value.value, ast.Call) and leaf_key(st.value.value.func) == "compute_hmac"):
        die("send_message: expected `out += compute_hmac(...)[: <n>]`", st)
    out["mac_trunc"] = Tr(envz={"self.__mac_size_out": "mac_size"}).z(st.value.slice.upper)
    hargs = st.value.value.args
    if not (len(hargs) == 3 and leaf_key(hargs[0]) == "self.__mac_key_out" and leaf_key(hargs[1]) == "payload"
            and leaf_key(hargs[2]) == "self.__mac_engine_out"):
        die("send_message: compute_hmac(self.__mac_key_out, payload, self.__mac_engine_out)", st)
    # the bytes written are `out`
    writes = [n for n in ast.walk(fn) if isinstance(n, ast.Call) and leaf_key(n.func) == "self.write_all"]
    if not (len(writes) == 1 and len(writes[0].args) == 1 and leaf_key(writes[0].args[0]) == "out"):
        die("send_message: expected exactly one `self.write_all(out)`", fn)
    return out


# --------------------------------------------------------------------------- __init__ / set_outbound_cipher


def tr_init(fn):
    out = {}
    want = {"self.__block_size_out": int, "self.__mac_size_out": int, "self.__etm_out": bool,
            "self.__aead_out": bool, "self.__sdctr_out": bool, "self.__block_engine_out": type(None)}
    for key, ty in want.items():
        v = the_assign(fn, key)
        if not (isinstance(v, ast.Constant) and type(v.value) is ty):
            die("Packetizer.__init__: %s must be initialised with a %s literal" % (key, ty.__name__), v)
        out[key] = v.value
    return out


def check_setter(fn):
    want = {"self.__block_engine_out": "block_engine", "self.__sdctr_out": "sdctr",
            "self.__block_size_out": "block_size", "self.__mac_engine_out": "mac_engine",
            "self.__mac_size_out": "mac_size", "self.__mac_key_out": "mac_key", "self.__etm_out": "etm",
            "self.__aead_out": "aead", "self.__iv_out": "iv_out"}
    params = [a.arg for a in fn.args.args]
    for key, p in want.items():
        v = the_assign(fn, key)
        if not (isinstance(v, ast.Name) and v.id == p and p in params):
            die("set_outbound_cipher: expected `%s = %s`" % (key, p), v)
    defaults = dict(zip(params[len(params) - len(fn.args.defaults):], fn.args.defaults))
    for p in ("sdctr", "etm", "aead"):
        d = defaults.get(p)
        if not (isinstance(d, ast.Constant) and d.value is False):
            die("set_outbound_cipher: default of %s must be False" % p, fn)


# --------------------------------------------------------------------------- Transport._activate_outbound


def tr_activate_outbound(fn):
    out = {}
    # info = self._cipher_info[self.local_cipher]
    v = the_assign(fn, "info")
    if not (isinstance(v, ast.Subscript) and leaf_key(v.value) == "self._cipher_info"
            and leaf_key(v.slice) == "self.local_cipher"):
        die("_activate_outbound: expected `info = self._cipher_info[self.local_cipher]`", v)
    # aead = info.get("is_aead", False)
    v = the_assign(fn, "aead")
    if not (isinstance(v, ast.Call) and isinstance(v.func, ast.Attribute) and v.func.attr == "get"
            and leaf_key(v.func.value) == "info" and len(v.args) == 2 and not v.keywords
            and isinstance(v.args[0], ast.Constant) and isinstance(v.args[0].value, str)
            and isinstance(v.args[1], ast.Constant) and v.args[1].value is False):
        die('_activate_outbound: expected `aead = info.get("is_aead", False)`', v)
    out["aead_key"] = v.args[0].value
    # block_size = info["block-size"]
    v = the_assign(fn, "block_size")
    if not (isinstance(v, ast.Subscript) and leaf_key(v.value) == "info" and isinstance(v.slice, ast.Constant)
            and isinstance(v.slice.value, str)):
        die('_activate_outbound: expected `block_size = info["block-size"]`', v)
    out["bs_key"] = v.slice.value
    # mac_size = self._mac_info[self.local_mac]["size"]
    v = the_assign(fn, "mac_size")
    if not (isinstance(v, ast.Subscript) and isinstance(v.slice, ast.Constant) and isinstance(v.slice.value, str)
            and isinstance(v.value, ast.Subscript) and leaf_key(v.value.value) == "self._mac_info"
            and leaf_key(v.value.slice) == "self.local_mac"):
        die('_activate_outbound: expected `mac_size = self._mac_info[self.local_mac]["size"]`', v)
    out["size_key"] = v.slice.value
    # etm = (not aead) and "<marker>" in self.local_mac
    v = the_assign(fn, "etm")
    marker = []

    class T(Tr):
        def b(self, n):
            if (isinstance(n, ast.Compare) and len(n.ops) == 1 and isinstance(n.ops[0], ast.In)
                    and isinstance(n.left, ast.Constant) and isinstance(n.left.value, str)
                    and leaf_key(n.comparators[0]) == "self.local_mac"):
                marker.append(n.left.value)
                return "mac_is_etm"
            return Tr.b(self, n)
    out["etm_of"] = T(envb={"aead": "aead"}).b(v)
    if len(marker) != 1:
        die("_activate_outbound: `etm` must test one marker substring of self.local_mac", v)
    out["etm_marker"] = marker[0]
    # sdctr = self.local_cipher.endswith("-ctr")
    v = the_assign(fn, "sdctr")
    if not (isinstance(v, ast.Call) and isinstance(v.func, ast.Attribute) and v.func.attr == "endswith"
            and leaf_key(v.func.value) == "self.local_cipher" and len(v.args) == 1
            and isinstance(v.args[0], ast.Constant) and isinstance(v.args[0].value, str)):
        die('_activate_outbound: expected `sdctr = self.local_cipher.endswith("-ctr")`', v)
    out["ctr_suffix"] = v.args[0].value
    # self.packetizer.set_outbound_cipher(block_size=..., mac_size=..., etm=..., aead=..., sdctr=...)
    calls = [n for n in ast.walk(fn) if isinstance(n, ast.Call) and isinstance(n.func, ast.Attribute)
             and n.func.attr == "set_outbound_cipher"]
    if len(calls) != 1 or calls[0].args:
        die("_activate_outbound: expected one keyword-only call of set_outbound_cipher", fn)
    kw = {k.arg: k.value for k in calls[0].keywords}
    for name in ("block_size", "etm", "aead", "sdctr"):
        if leaf_key(kw.get(name)) != name:
            die("_activate_outbound: set_outbound_cipher(%s=%s) expected" % (name, name), calls[0])
    if "mac_size" not in kw or "block_engine" not in kw:
        die("_activate_outbound: set_outbound_cipher needs mac_size= and block_engine=", calls[0])
    if is_none(kw["block_engine"]):
        die("_activate_outbound: block_engine must not be None", calls[0])
    out["mac_size_arg"] = Tr(envz={"mac_size": "mac_size"}, envb={"aead": "aead"}).z(kw["mac_size"])
    return out


# --------------------------------------------------------------------------- tables from the live classes


def live_transport(repo):
    want = os.path.realpath(os.path.join(repo, "paramiko"))
    mod = sys.modules.get("paramiko")
    if mod is None:
        for p in (os.path.join(repo, "tests"), repo):
            if p in sys.path:
                sys.path.remove(p)
            sys.path.insert(0, p)
        mod = importlib.import_module("paramiko")
    got = os.path.realpath(os.path.dirname(mod.__file__))
    if got != want:
        raise Abort("gen/c03.py: paramiko is imported from %s, wanted %s" % (got, want))
    from paramiko.transport import Transport
    return Transport


def coq_string(s):
    if not all(32 <= ord(c) < 127 and c != '"' for c in s):
        raise Abort("gen/c03.py: algorithm name %r is not plain ASCII" % (s,))
    return '"%s"%%string' % s


def coq_bool(b):
    if type(b) is not bool:
        raise Abort("gen/c03.py: expected a bool, got %r" % (b,))
    return "true" if b else "false"


def coq_nat_z(v, what):
    if type(v) is not int or v < 0:
        raise Abort("gen/c03.py: %s must be a non-negative int, got %r" % (what, v))
    return "%d" % v


def tables(repo, act):
    T = live_transport(repo)
    ciphers = []
    for name, info in T._cipher_info.items():
        if not isinstance(name, str) or not isinstance(info, dict):
            raise Abort("gen/c03.py: _cipher_info entry %r has an unexpected shape" % (name,))
        if act["bs_key"] not in info:
            raise Abort("gen/c03.py: cipher %s has no %r" % (name, act["bs_key"]))
        ciphers.append((name, info[act["bs_key"]], info.get(act["aead_key"], False),
                        name.endswith(act["ctr_suffix"])))
    macs = []
    for name, info in T._mac_info.items():
        if not isinstance(name, str) or not isinstance(info, dict) or act["size_key"] not in info \
                or "class" not in info:
            raise Abort("gen/c03.py: _mac_info entry %r has an unexpected shape" % (name,))
        macs.append((name, info[act["size_key"]], act["etm_marker"] in name, info["class"]().digest_size))
    if not ciphers or not macs:
        raise Abort("gen/c03.py: empty cipher or MAC table")
    return ciphers, macs


# --------------------------------------------------------------------------- emit


def generate(repo):
    ppath = os.path.join(repo, "paramiko", "packet.py")
    tpath = os.path.join(repo, "paramiko", "transport.py")
    ptree = ast.parse(open(ppath).read(), ppath)
    ttree = ast.parse(open(tpath).read(), tpath)
    pk = get_class(ptree, "Packetizer")
    bp = tr_build_packet(get_func(pk, "_build_packet"))
    sm = tr_send_message(get_func(pk, "send_message"))
    ini = tr_init(get_func(pk, "__init__"))
    check_setter(get_func(pk, "set_outbound_cipher"))
    act = tr_activate_outbound(get_func(get_class(ttree, "Transport"), "_activate_outbound"))
    ciphers, macs = tables(repo, act)
    if ini["self.__block_engine_out"] is not None:
        raise Abort("gen/c03.py: initial block engine must be None")

    L = []
    w = L.append
    w("(* GENERATED by /verif/gen/c03.py from paramiko/packet.py and paramiko/transport.py of the working")
    w("   tree -- do not edit.  Regenerated on every ./check C03. *)")
    w("From Coq Require Import ZArith Bool List String.")
    w("Import ListNotations.")
    w("Open Scope Z_scope.")
    w("")
    w("(* ---- Packetizer._build_packet ---- *)")
    w("(* addlen = ... *)")
    w("Definition c03_addlen (etm aead : bool) : Z := %s." % bp["addlen"])
    w("(* padding = ... *)")
    w("Definition c03_padding (bsize addlen len_payload : Z) : Z := %s." % bp["padding"])
    w('(* struct.pack(">IB", <length field>, <pad byte>) *)')
    w("Definition c03_length_field (len_payload padding : Z) : Z := %s." % bp["length_field"])
    w("Definition c03_pad_byte (len_payload padding : Z) : Z := %s." % bp["pad_byte"])
    w("(* number of bytes appended after the payload on the zero / random branch *)")
    w("Definition c03_padcount_zero (padding : Z) : Z := %s." % bp["padcount_zero"])
    w("Definition c03_padcount_random (padding : Z) : Z := %s." % bp["padcount_random"])
    w("(* test selecting the zero-padding branch; enc = (block engine is not None) *)")
    w("Definition c03_zero_padding (sdctr enc : bool) : bool := %s." % bp["zero_padding"])
    w("")
    w("(* ---- Packetizer.send_message ---- *)")
    w("(* offset in the packet at which the bytes handed to the cipher start (the prefix stays in the clear) *)")
    w("Definition c03_enc_offset (etm aead : bool) : Z := if etm then %d else if aead then %d else %d."
      % (sm["off_etm"], sm["off_aead"], sm["off_classic"]))
    w("Definition c03_aead_aad_len : Z := %d." % sm["aad_len"])
    w("(* cmd = byte_ord(data[k]) on the uncompressed message, before anything is framed *)")
    w("Definition c03_type_byte_index : Z := %d." % sm["type_byte_index"])
    w("(* test under which data = compress(data) runs before _build_packet(data) *)")
    w("Definition c03_compress_applies (has_comp : bool) : bool := %s." % sm["compress_applies"])
    w("(* condition under which compute_hmac(...)[:n] is appended, and n *)")
    w("Definition c03_mac_appended (enc aead : bool) : bool := %s." % sm["mac_appended"])
    w("Definition c03_mac_trunc (mac_size : Z) : Z := %s." % sm["mac_trunc"])
    w("Definition c03_mac_over_ciphertext (etm : bool) : bool := %s." % sm["mac_over_ciphertext"])
    w("")
    w("(* ---- Packetizer.__init__ (state before any set_outbound_cipher) ---- *)")
    w("Definition c03_default_bs : Z := %s." % coq_nat_z(ini["self.__block_size_out"], "default block size"))
    w("Definition c03_default_mac_size : Z := %s." % coq_nat_z(ini["self.__mac_size_out"], "default MAC size"))
    w("Definition c03_default_etm : bool := %s." % coq_bool(ini["self.__etm_out"]))
    w("Definition c03_default_aead : bool := %s." % coq_bool(ini["self.__aead_out"]))
    w("Definition c03_default_sdctr : bool := %s." % coq_bool(ini["self.__sdctr_out"]))
    w("")
    w("(* ---- Transport._activate_outbound ---- *)")
    w("(* etm = ... ; mac_is_etm = (%r in local_mac) *)" % act["etm_marker"].replace("*)", "* )"))
    w("Definition c03_etm_of (aead mac_is_etm : bool) : bool := %s." % act["etm_of"])
    w("(* set_outbound_cipher(mac_size=...) *)")
    w("Definition c03_mac_size_arg (aead : bool) (mac_size : Z) : Z := %s." % act["mac_size_arg"])
    w("")
    w("(* ---- Transport._cipher_info / _mac_info (live objects) ---- *)")
    w("Record c03_cipher := mk_cipher { ci_name : string; ci_bs : Z; ci_aead : bool; ci_sdctr : bool }.")
    w("Record c03_mac := mk_mac { ma_name : string; ma_size : Z; ma_etm : bool; ma_digest : Z }.")
    w("Definition c03_cipher_table : list c03_cipher := [")
    w(";\n".join("  mk_cipher %s %s %s %s" % (coq_string(n), coq_nat_z(bs, "block size of " + n), coq_bool(a),
                                              coq_bool(c)) for n, bs, a, c in ciphers))
    w("].")
    w("Definition c03_mac_table : list c03_mac := [")
    w(";\n".join("  mk_mac %s %s %s %s" % (coq_string(n), coq_nat_z(sz, "size of " + n), coq_bool(e),
                                           coq_nat_z(d, "digest size of " + n)) for n, sz, e, d in macs))
    w("].")
    return {"C03_gen.v": "\n".join(L) + "\n"}


if __name__ == "__main__":
    sys.stdout.write(generate(sys.argv[1] if len(sys.argv) > 1 else "/repo")["C03_gen.v"])
