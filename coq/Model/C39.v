(* C39 — model of paramiko/message.py (the Message add/get methods) and
   util.deflate_long / util.inflate_long.  Definitions only; proofs are in Proofs/C39.v.
   Every function mirrors the Python source statement by statement. *)
From PV Require Import Bytes.
Open Scope Z_scope.

(* ---- struct.pack / struct.unpack ------------------------------------- *)
Definition pack_u32 (n : Z) : result (list Z) :=
  if (0 <=? n) && (n <? 2 ^ 32) then Ok (be_encode 4 n) else Raise StructErr.
Definition pack_u64 (n : Z) : result (list Z) :=
  if (0 <=? n) && (n <? 2 ^ 64) then Ok (be_encode 8 n) else Raise StructErr.

(* ---- util.deflate_long ------------------------------------------------ *)
(* while (n != 0) and (n != -1): s = pack(">I", n & 0xffffffff) + s; n >>= 32 *)
Fixpoint limbs (fuel : nat) (n : Z) (s : list Z) : Z * list Z :=
  if (n =? 0) || (n =? -1) then (n, s)
  else match fuel with
       | O => (n, s)
       | S f => limbs f (Z.shiftr n 32) (be_encode 4 (Z.land n (2 ^ 32 - 1)) ++ s)
       end.

Definition limb_fuel (n : Z) : nat := Z.to_nat (Z.log2 (Z.abs n) / 32 + 2).

(* the for/else loop: Some suffix = broke out at that suffix; None = ran to the end *)
Fixpoint strip (n : Z) (s : list Z) : option (list Z) :=
  match s with
  | [] => None
  | b :: r =>
      if ((n =? 0) && negb (b =? 0)) || ((n =? -1) && negb (b =? 255)) then Some s
      else strip n r
  end.

Definition deflate_long (n : Z) (add_sign_padding : bool) : list Z :=
  let '(r, s) := limbs (limb_fuel n) n [] in
  let s1 := match strip r s with
            | Some t => t
            | None => if r =? 0 then [0] else [255]
            end in
  if add_sign_padding then
    if (r =? 0) && (128 <=? hd 0 s1) then 0 :: s1
    else if (r =? -1) && (hd 0 s1 <? 128) then 255 :: s1
    else s1
  else s1.

(* ---- util.inflate_long ------------------------------------------------ *)
Fixpoint inflate_loop (out : Z) (s : list Z) : Z :=
  match s with
  | a :: b :: c :: d :: r => inflate_loop (Z.shiftl out 32 + be_decode [a; b; c; d]) r
  | _ => out
  end.

Definition inflate_long (s : list Z) (always_positive : bool) : Z :=
  let len := length s in
  let negative := negb always_positive && (0 <? Z.of_nat len) && (128 <=? hd 0 s) in
  let s' := if Nat.eqb (len mod 4) 0 then s
            else repeat (if negative then 255 else 0) (4 - len mod 4) ++ s in
  let out := inflate_loop 0 s' in
  if negative then out - Z.shiftl 1 (8 * Z.of_nat (length s')) else out.

(* ---- Message add methods ---------------------------------------------------- *)
Definition big_int : Z := 4278190080.   (* Message.big_int = 0xff000000 *)

Definition add_string (s : list Z) : result (list Z) :=
  bind (pack_u32 (Z.of_nat (length s))) (fun h => Ok (h ++ s)).

Fixpoint join_comma (l : list (list Z)) : list Z :=
  match l with
  | [] => []
  | [x] => x
  | x :: r => x ++ 44 :: join_comma r
  end.

(* add_mpint after the repair: RFC 4251 zero is the empty string *)
Definition add_mpint (n : Z) : result (list Z) :=
  if n =? 0 then add_string [] else add_string (deflate_long n true).

Inductive field :=
  | FByte (b : Z) | FBool (b : bool) | FU32 (n : Z) | FU64 (n : Z) | FAdaptive (n : Z)
  | FString (s : list Z) | FList (l : list (list Z)) | FMpint (n : Z).

Definition encode_field (f : field) : result (list Z) :=
  match f with
  | FByte b => Ok [b]
  | FBool b => Ok [if b then 1 else 0]
  | FU32 n => pack_u32 n
  | FU64 n => pack_u64 n
  | FAdaptive n =>
      if big_int <=? n then bind (add_string (deflate_long n true)) (fun e => Ok (255 :: e))
      else pack_u32 n
  | FString s => add_string s
  | FList l => add_string (join_comma l)
  | FMpint n => add_mpint n
  end.

Fixpoint encode_all (fs : list field) : result (list Z) :=
  match fs with
  | [] => Ok []
  | f :: r => bind (encode_field f) (fun a => bind (encode_all r) (fun b => Ok (a ++ b)))
  end.

(* ---- Message get methods ---------------------------------------------------- *)
(* BytesIO.read(n) followed by the zero padding rule of get_bytes *)
Definition get_bytes (buf : list Z) (pos : nat) (n : Z) : list Z * nat :=
  let avail := skipn pos buf in
  (* read(n) returns min(n, available) bytes; the min keeps Z.to_nat small *)
  let b := firstn (Z.to_nat (Z.min n (Z.of_nat (length avail)))) avail in
  let pos' := (pos + length b)%nat in
  if (Z.of_nat (length b) <? n) && (n <? 2 ^ 20)
  then (b ++ repeat 0 (Z.to_nat n - length b), pos')
  else (b, pos').

Definition get_int (buf : list Z) (pos : nat) : Z * nat :=
  let '(b, p) := get_bytes buf pos 4 in (be_decode b, p).
Definition get_int64 (buf : list Z) (pos : nat) : Z * nat :=
  let '(b, p) := get_bytes buf pos 8 in (be_decode b, p).
Definition get_string (buf : list Z) (pos : nat) : list Z * nat :=
  let '(n, p) := get_int buf pos in get_bytes buf p n.

Fixpoint split_comma_aux (cur : list Z) (s : list Z) : list (list Z) :=
  match s with
  | [] => [rev cur]
  | c :: r => if c =? 44 then rev cur :: split_comma_aux [] r else split_comma_aux (c :: cur) r
  end.
Definition split_comma (s : list Z) : list (list Z) := split_comma_aux [] s.

Inductive kind := KByte | KBool | KU32 | KU64 | KAdaptive | KString | KList | KMpint.

Definition kind_of (f : field) : kind :=
  match f with
  | FByte _ => KByte | FBool _ => KBool | FU32 _ => KU32 | FU64 _ => KU64
  | FAdaptive _ => KAdaptive | FString _ => KString | FList _ => KList | FMpint _ => KMpint
  end.

Definition decode_field (k : kind) (buf : list Z) (pos : nat) : field * nat :=
  match k with
  | KByte => let '(b, p) := get_bytes buf pos 1 in (FByte (hd 0 b), p)
  | KBool => let '(b, p) := get_bytes buf pos 1 in (FBool (negb (hd 0 b =? 0)), p)
  | KU32 => let '(n, p) := get_int buf pos in (FU32 n, p)
  | KU64 => let '(n, p) := get_int64 buf pos in (FU64 n, p)
  | KAdaptive =>
      let '(b, p) := get_bytes buf pos 1 in
      if hd 0 b =? 255 then
        let '(s, p2) := get_string buf p in (FAdaptive (inflate_long s false), p2)
      else
        let '(b3, p2) := get_bytes buf p 3 in (FAdaptive (be_decode (b ++ b3)), p2)
  | KString => let '(s, p) := get_string buf pos in (FString s, p)
  | KList => let '(s, p) := get_string buf pos in (FList (split_comma s), p)
  | KMpint => let '(s, p) := get_string buf pos in (FMpint (inflate_long s false), p)
  end.

Fixpoint decode_all (ks : list kind) (buf : list Z) (pos : nat) : list field * nat :=
  match ks with
  | [] => ([], pos)
  | k :: r =>
      let '(f, p) := decode_field k buf pos in
      let '(fs, p') := decode_all r buf p in (f :: fs, p')
  end.

Definition get_so_far (buf : list Z) (pos : nat) : list Z := firstn pos buf.
Definition get_remainder (buf : list Z) (pos : nat) : list Z := skipn pos buf.

(* ---- well-formed fields (what the round-trip theorem quantifies over) -- *)
Definition no_comma (s : list Z) : bool := forallb (fun c => negb (c =? 44)) s.

Definition field_wf (f : field) : bool :=
  match f with
  | FByte b => byte_ok b
  | FBool _ => true
  | FU32 n => (0 <=? n) && (n <? 2 ^ 32)
  | FU64 n => (0 <=? n) && (n <? 2 ^ 64)
  | FAdaptive n => 0 <=? n
  | FString s => bytes_ok s
  | FList l => negb (match l with [] => true | _ => false end)
               && forallb (fun s => bytes_ok s && no_comma s) l
  | FMpint _ => true
  end.

(* signed big-endian (two's complement) value of a byte string *)
Definition sval (s : list Z) : Z :=
  if 128 <=? hd 0 s then be_decode s - 256 ^ Z.of_nat (length s) else be_decode s.

(* minimal two's complement form: no redundant leading 00 / FF byte *)
Definition minimal (s : list Z) : bool :=
  match s with
  | 0 :: b :: _ => 128 <=? b
  | 255 :: b :: _ => b <? 128
  | _ => true
  end.

(* ---- canonical encodings for the correspondence run -------------------- *)
(* a field as list Z: tag :: payload, used to compare with the implementation *)
Definition enc_z (n : Z) : list Z := (* sign, then magnitude bytes *)
  (if n <? 0 then 1 else 0) :: let m := Z.abs n in
  let k := Z.to_nat (Z.log2 m / 8 + 1) in Z.of_nat k :: be_encode k m.

Definition canon_field (f : field) : list Z :=
  match f with
  | FByte b => [1; b]
  | FBool b => [2; if b then 1 else 0]
  | FU32 n => 3 :: enc_z n
  | FU64 n => 4 :: enc_z n
  | FAdaptive n => 5 :: enc_z n
  | FString s => 6 :: Z.of_nat (length s) :: s
  | FList l => 7 :: Z.of_nat (length l) :: flat_map (fun s => Z.of_nat (length s) :: s) l
  | FMpint n => 8 :: enc_z n
  end.

Definition canon_result (r : result (list Z)) : list Z :=
  match r with Ok b => 0 :: b | Raise e => [exn_code e] end.

(* run_encode: encoding of a field list as the implementation would produce it *)
Definition run_encode (fs : list field) : list Z := canon_result (encode_all fs).

(* run_decode: decode the given kinds from a buffer, then report fields, position,
   so_far and remainder *)
Definition run_decode (c : list kind * list Z) : list Z :=
  let '(ks, buf) := c in
  let '(fs, p) := decode_all ks buf 0 in
  flat_map canon_field fs ++ [(-1); Z.of_nat p] ++ get_so_far buf p ++ [(-2)] ++ get_remainder buf p.

Definition run_deflate (c : Z * bool) : list Z := deflate_long (fst c) (snd c).
Definition run_inflate (c : list Z * bool) : list Z := enc_z (inflate_long (fst c) (snd c)).
