"""C06 — key exchange agrees on a secret and authenticates the server's host key.

Proof: coq/Props/C06_props.v over coq/Model/C06.v + coq/Gen/C06_gen.v (exchange-hash layout of every
handler, reply wire layout, _set_K_H statements, _verify_key shape: regenerated from the source by
gen/c06.py on every run).
Tie: (a) the translator; (b) differential run of the model's exchange_hash_input (vm_compute inside
Coq) on transcripts recorded from the real engines -- driven directly with stub transports and in real
loopback handshakes -- against the bytes the real handler hashed (captured at hash_algo); run_dh and
run_latch against the engines' e/f/K and the transports' session_id/H/K.
Oracle: the property on observables: equal K and H on both peers, H = hash(RFC 4253/4419/5656 input),
client holds the server's key after verifying, session_id == first H over 1-3 rekeys, every installed
key is the RFC 4253 7.2 derivation with session id = first H, and every single-field corruption of the
server's kex reply -- on the initial exchange or on a re-key -- makes the client abort before NEWKEYS.
"""
import os
import struct
import threading
import time

from common import coq, Raw, with_watchdog

PID = "C06"
LEVEL_TEXT = ("Machine-checked proof (Coq, closed under the global context; library primitives are universally "
              "quantified with their idealised properties as explicit premises) over the exchange-hash layouts, reply "
              "wire layouts, _set_K_H statements and _verify_key shape translated from the source on every run: "
              "Diffie-Hellman commutes for every modulus p > 0; client and server handlers of every engine hash the "
              "same ordered fields; the transcript encoding is injective (from C39), so any change of K_S, f / Q_S, e / "
              "Q_C, V/I strings or K changes the hash input; an unaltered run ends with equal K and H and the verified "
              "host key stored; any single-field corruption of the reply (host key blob, public value, signature) is "
              "refused; an accepted reply under the honest key is authentic; session_id is the first H after any "
              "sequence of exchanges; _check_banner keeps the peer's identification line unchanged; an accepted signature "
              "blob passed every pre-verification test present in _verify_key; Transport.connect(hostkey=pinned) goes on to "
              "authenticate iff the verified server key has the pinned type name and blob; tied to the real engines and Transport by a differential run of the model "
              "(vm_compute) on recorded transcripts plus an implementation-level oracle with tamper runs.")
LEVEL_NOTE = ("PARTIAL: symbolic cryptography.  The hash is assumed injective, signatures are a free algebra "
              "(C06_tamper_abort) or unforgeable (C06_accept_authentic), ECDH / X25519 commutation "
              "ec_dh x (pub y) = ec_dh y (pub x) and all curve arithmetic are premises (the `cryptography` library's); "
              "only classic DH commutation is proved (in Z).  Range checks on e/f and point validation are C08's, the "
              "choice of signature algorithm C07's.  The handlers are modelled as functions on an abstract transcript; "
              "message parsing, _activate_outbound and NEWKEYS sequencing are not modelled (the oracle checks that a "
              "client that must abort never activates its outbound keys).  A swapped host key together with a fresh "
              "signature by that key's owner is accepted by design (host key pinning is HostKeys' job, C02/C03).  "
              "Integers the protocol hashes / verifies by VALUE (mpint f, ECDSA r and s) are accepted in non-minimal "
              "encodings (redundant leading zero), as RFC 4253 section 8 hashes the canonical mpint; the oracle then requires equal K and H.  "
              "Repaired in /repo after this check found it (fix: reject trailing data in host key signature blobs and ECDSA "
              "(r, s) strings): trailing bytes after the signature blob / after (r, s) used to be ignored; the generated flag "
              "verify_canonical_guard records the strict-blob test.  Key derivation (_compute_key) is C04's model; here only the oracle compares "
              "installed keys with the RFC derivation under session id = first H.  "
              "Trusted: Coq kernel + vm_compute, gen/c06.py (fail-closed AST translator), this harness.")
TECHNIQUE = ("Coq proof over AST-translated transcript layouts (injectivity from C39, symbolic signatures) + vm_compute "
             "differential correspondence on recorded transcripts + loopback handshakes with rekeys and reply tampering")

HASHLOG = {}          # digest -> data, filled by the recording hash constructors
_KEYS = {}


# ----------------------------------------------------------------------------- helpers

def engines():
    """[(kex name, class, family index)] for every non-GSS engine registered in Transport._kex_info."""
    from paramiko.transport import Transport
    from paramiko.kex_group1 import KexGroup1
    from paramiko.kex_gex import KexGex
    from paramiko.kex_ecdh_nist import KexNistp256
    from paramiko.kex_curve25519 import KexCurve25519
    out = []
    for name, cls in sorted(Transport._kex_info.items()):
        if name.startswith("gss-"):
            continue
        for fam, base in enumerate((KexGroup1, KexGex, KexNistp256, KexCurve25519)):
            if isinstance(cls, type) and issubclass(cls, base):
                out.append((name, cls, fam))
                break
        else:
            raise RuntimeError("kex engine %s of an unknown family" % name)
    return out


class hash_recording:
    """While active, every engine class's hash_algo records (digest -> input) in HASHLOG."""

    def __enter__(self):
        self.saved = []
        seen = set()
        for _, cls, _ in engines():
            for k in cls.__mro__:
                if k in seen or "hash_algo" not in k.__dict__:
                    continue
                seen.add(k)
                orig = k.__dict__["hash_algo"]
                fn = orig.__func__ if isinstance(orig, staticmethod) else orig
                self.saved.append((k, orig))
                k.hash_algo = staticmethod(_recorder(fn))
        return self

    def __exit__(self, *a):
        for k, orig in self.saved:
            k.hash_algo = orig
        HASHLOG.clear()


def _recorder(fn):
    class R:
        def __init__(self, data=b""):
            self.data = bytes(data)
            self.h = fn(data)

        def update(self, d):
            self.data += bytes(d)
            self.h.update(d)

        def digest(self):
            d = self.h.digest()
            HASHLOG[d] = self.data
            return d

        def hexdigest(self):
            return self.h.hexdigest()
    R.orig = fn
    return R


def real_hash(cls):
    h = cls.hash_algo
    return getattr(h, "orig", h)


def host_keys(repo):
    """{host key algorithm: (key, [other keys of the same key type])}"""
    if _KEYS:
        return _KEYS
    import paramiko
    from cryptography.hazmat.primitives.asymmetric import ec
    t = os.path.join(repo, "tests")

    def load(cls, *rel):
        for r in rel:
            p = os.path.join(t, r)
            if os.path.exists(p):
                try:
                    return cls.from_private_key_file(p)
                except Exception:
                    continue
        return None
    rsa = load(paramiko.RSAKey, "_support/rsa.key") or paramiko.RSAKey.generate(2048)
    rsa2 = None
    for rel in ("_support/rsa-lonely.key", "test_rsa_openssh.key", "test_rsa_openssh_nopad.key"):
        k = load(paramiko.RSAKey, rel)
        if k is not None and k.asbytes() != rsa.asbytes():
            rsa2 = k
            break
    rsa2 = rsa2 or paramiko.RSAKey.generate(2048)
    for alg in ("ssh-rsa", "rsa-sha2-256", "rsa-sha2-512"):
        _KEYS[alg] = (rsa, rsa2)
    for alg, rel, curve in (("ecdsa-sha2-nistp256", "_support/ecdsa-256.key", ec.SECP256R1()),
                            ("ecdsa-sha2-nistp384", "test_ecdsa_384.key", ec.SECP384R1()),
                            ("ecdsa-sha2-nistp521", "test_ecdsa_521.key", ec.SECP521R1())):
        _KEYS[alg] = (load(paramiko.ECDSAKey, rel) or paramiko.ECDSAKey.generate(curve=curve),
                      paramiko.ECDSAKey.generate(curve=curve))
    ed = load(paramiko.Ed25519Key, "_support/ed25519.key")
    ed2 = load(paramiko.Ed25519Key, "test_ed25519-funky-padding.key", "badhash_key1.ed25519.key")
    if ed is not None and ed2 is not None and ed.asbytes() != ed2.asbytes():
        _KEYS["ssh-ed25519"] = (ed, ed2)
    return _KEYS


def rfc_string(b):
    return struct.pack(">I", len(b)) + b


def rfc_mpint(n):
    if n == 0:
        return rfc_string(b"")
    k = 1
    while True:
        try:
            return rfc_string(n.to_bytes(k, "big", signed=True))
        except OverflowError:
            k += 1


def _rfc_sig_hash(alg):
    """hash each host key algorithm signs with: RFC 4253 6.6, RFC 8332 3, RFC 5656 6.2.1 (None: Ed25519, RFC 8709)"""
    from cryptography.hazmat.primitives import hashes
    return {"ssh-rsa": hashes.SHA1, "rsa-sha2-256": hashes.SHA256, "rsa-sha2-512": hashes.SHA512,
            "ecdsa-sha2-nistp256": hashes.SHA256, "ecdsa-sha2-nistp384": hashes.SHA384,
            "ecdsa-sha2-nistp521": hashes.SHA512, "ssh-ed25519": None}[alg]


def _fields(blob):
    out, pos = [], 0
    while pos + 4 <= len(blob):
        n = struct.unpack(">I", blob[pos:pos + 4])[0]
        out.append(blob[pos + 4:pos + 4 + n])
        pos += 4 + n
    return out


def independent_verify(alg, ks, sig, data):
    """Does `sig` (SSH signature blob) verify over `data` under the key blob `ks` for host key algorithm `alg`,
    per the RFCs, using the `cryptography` primitives directly -- no paramiko key class involved."""
    from cryptography.exceptions import InvalidSignature
    from cryptography.hazmat.primitives.asymmetric import ec, padding, rsa, ed25519
    from cryptography.hazmat.primitives.asymmetric.utils import encode_dss_signature
    try:
        kf, sf = _fields(ks), _fields(sig)
        if len(sf) != 2 or sf[0] != alg.encode():
            return False
        h = _rfc_sig_hash(alg)
        if alg in ("ssh-rsa", "rsa-sha2-256", "rsa-sha2-512"):
            if kf[0] != b"ssh-rsa":
                return False
            e, n = int.from_bytes(kf[1], "big"), int.from_bytes(kf[2], "big")
            pub = rsa.RSAPublicNumbers(e, n).public_key()
            size = (n.bit_length() + 7) // 8
            if len(sf[1]) > size:
                return False
            pub.verify(sf[1].rjust(size, b"\x00"), data, padding.PKCS1v15(), h())
            return True
        if alg.startswith("ecdsa-sha2-"):
            curve = {"nistp256": ec.SECP256R1(), "nistp384": ec.SECP384R1(), "nistp521": ec.SECP521R1()}[alg[11:]]
            if kf[0] != alg.encode() or kf[1] != alg[11:].encode():
                return False
            pub = ec.EllipticCurvePublicKey.from_encoded_point(curve, kf[2])
            rs = _fields(sf[1])
            if len(rs) != 2:
                return False
            r, s_ = int.from_bytes(rs[0], "big", signed=True), int.from_bytes(rs[1], "big", signed=True)
            pub.verify(encode_dss_signature(r, s_), data, ec.ECDSA(h()))
            return True
        if alg == "ssh-ed25519":
            if kf[0] != b"ssh-ed25519":
                return False
            ed25519.Ed25519PublicKey.from_public_bytes(kf[1]).verify(sf[1], data)
            return True
    except (InvalidSignature, ValueError, IndexError, KeyError, struct.error):
        return False
    return False


def independent_sign(alg, key, data):
    """An RFC-conforming signature blob over `data` made with the private numbers of `key`, without paramiko's
    signing code (what a non-paramiko server holding this key would send)."""
    from cryptography.hazmat.primitives.asymmetric import ec, padding
    from cryptography.hazmat.primitives.asymmetric.utils import decode_dss_signature
    h = _rfc_sig_hash(alg)
    if alg in ("ssh-rsa", "rsa-sha2-256", "rsa-sha2-512"):
        raw = key.key.sign(data, padding.PKCS1v15(), h())
    elif alg.startswith("ecdsa-"):
        r, s_ = decode_dss_signature(key.signing_key.sign(data, ec.ECDSA(h())))
        raw = rfc_mpint(r) + rfc_mpint(s_)
    else:
        raw = bytes(key._signing_key.sign(data).signature)
    return rfc_string(alg.encode()) + rfc_string(raw)


def check_accepted_sig(ctx, where, name, alg, ks, sig, H, case):
    if not independent_verify(alg, ks, sig, H):
        ctx.fail("accepted-signature-not-valid:" + alg,
                 "%s: the client accepted a host key signature that is NOT a valid %s signature over H under the host key "
                 "shown (verified with the cryptography primitives per RFC 4253 6.6 / 8332 / 5656 6.2.1 / 8709)" % (where, alg),
                 case=case, expected="valid %s signature over H" % alg, observed={"sig": sig, "H": H})


NIST_P = {"nistp256": 2 ** 256 - 2 ** 224 + 2 ** 192 + 2 ** 96 - 1,
          "nistp384": 2 ** 384 - 2 ** 128 - 2 ** 96 + 2 ** 32 - 1, "nistp521": 2 ** 521 - 1}


def near_miss_keys(key):
    """Public keys of the same type that agree with `key` in PART of their public material:
    ECDSA: the mirrored point (same x, y -> p - y); RSA: same n other e, same e other n; Ed25519: one bit differs."""
    import paramiko
    f = _fields(key.asbytes())
    out = []
    name = key.get_name()
    try:
        if name == "ssh-rsa":
            e, n = int.from_bytes(f[1], "big"), int.from_bytes(f[2], "big")
            for e2, n2, lab in ((e + 2, n, "rsa-same-n-other-e"), (e, n + 2, "rsa-same-e-other-n"), (n, e, "rsa-e-n-swapped")):
                blob = rfc_string(b"ssh-rsa") + rfc_mpint(e2) + rfc_mpint(n2)
                out.append((lab, paramiko.RSAKey(data=blob)))
        elif name.startswith("ecdsa-sha2-"):
            pt = f[2]
            nb = (len(pt) - 1) // 2
            x, y = pt[1:1 + nb], int.from_bytes(pt[1 + nb:], "big")
            p = NIST_P[name[11:]]
            blob = rfc_string(f[0]) + rfc_string(f[1]) + rfc_string(b"\x04" + x + (p - y).to_bytes(nb, "big"))
            out.append(("ecdsa-mirrored-same-x", paramiko.ECDSAKey(data=blob)))
        elif name == "ssh-ed25519":
            for pos, lab in ((0, "ed25519-first-byte"), (31, "ed25519-last-byte")):
                b = bytearray(f[1])
                b[pos] ^= 1
                out.append((lab, paramiko.Ed25519Key(data=rfc_string(f[0]) + rfc_string(bytes(b)))))
    except Exception:   # noqa: a variant the key class refuses to load is simply not available
        pass
    return [(lab, k) for lab, k in out if k.asbytes() != key.asbytes()]


def rfc_kdf(hashf, K, H, X, sid, n):
    """RFC 4253 section 7.2 key derivation with an explicit session identifier."""
    kb = rfc_mpint(K)
    out = hashf(kb + H + X + sid).digest()
    while len(out) < n:
        out += hashf(kb + H + out).digest()
    return out[:n]


def ref_input(fam, t):
    """Independent reference: RFC 4253 s8 / RFC 4419 s3 / RFC 5656 s4 exchange hash input."""
    s = b"".join(rfc_string(t[k]) for k in ("vc", "vs", "ic", "is", "ks"))
    if fam == 0:
        return s + rfc_mpint(t["e"]) + rfc_mpint(t["f"]) + rfc_mpint(t["k"])
    if fam == 1:
        if not t["old"]:
            s += struct.pack(">I", t["min"])
        s += struct.pack(">I", t["n"])
        if not t["old"]:
            s += struct.pack(">I", t["max"])
        return s + b"".join(rfc_mpint(t[k]) for k in ("p", "g", "e", "f", "k"))
    return s + rfc_string(t["qc"]) + rfc_string(t["qs"]) + rfc_mpint(t["k"])


def blank():
    return {"vc": b"", "vs": b"", "ic": b"", "is": b"", "ks": b"", "qc": b"", "qs": b"", "e": 0, "f": 0, "k": 0,
            "min": 0, "n": 0, "max": 0, "p": 0, "g": 0, "old": False}


def coq_transcript(t):
    return "(mkT %s %s %s %s %s %s %s %s %s %s %s %s %s %s %s %s)" % tuple(
        coq(list(t[k])) if isinstance(t[k], (bytes, bytearray)) else coq(t[k])
        for k in ("vc", "vs", "ic", "is", "ks", "qc", "qs", "e", "f", "k", "min", "n", "max", "p", "g", "old"))


def asb(v):
    return v.encode("utf-8") if isinstance(v, str) else bytes(v)


def own_fields(engine, fam, server):
    """What this side contributes to the transcript, read from its own engine object."""
    from cryptography.hazmat.primitives import serialization
    d = {}
    if fam == 0:
        d["f" if server else "e"] = engine.f if server else engine.e
        d["p"], d["g"] = engine.P, engine.G
    elif fam == 1:
        if server:
            d["f"], d["p"], d["g"] = engine.f, engine.p, engine.g
        else:
            d["e"], d["min"], d["n"], d["max"], d["old"] = (engine.e, engine.min_bits, engine.preferred_bits,
                                                            engine.max_bits, bool(engine.old_style))
    elif fam == 2:
        q = engine.Q_S if server else engine.Q_C
        d["qs" if server else "qc"] = q.public_bytes(serialization.Encoding.X962,
                                                      serialization.PublicFormat.UncompressedPoint)
    else:
        d["qs" if server else "qc"] = engine.key.public_key().public_bytes(serialization.Encoding.Raw,
                                                                            serialization.PublicFormat.Raw)
    return d


def merge(fam, crec, srec):
    """Both sides' transcripts (client view, server view) from what each side itself contributed."""
    base = blank()
    base.update({"vc": asb(crec["version"]), "ic": asb(crec["kexinit"]), "vs": asb(srec["version"]),
                 "is": asb(srec["kexinit"]), "ks": srec["hostkey"]})
    base.update(crec["own"])
    base.update(srec["own"])
    tc = dict(base, k=crec["K"])
    ts = dict(base, k=srec["K"])
    return tc, ts


# ----------------------------------------------------------------------------- reply tampering

FAULTS = ["hostkey-swap", "hostkey-other-type", "hostkey-bitflip", "pub-changed", "sig-bitflip",
          "sig-other-key", "sig-other-data", "sig-empty",
          # same value, different bytes: junk / padding around the encoded fields
          "sig-inner-prepend", "sig-inner-append", "sig-blob-append", "hostkey-append", "hostkey-field-pad",
          # another ENCODING of the same value: compressed EC point, X25519 u with the ignored top bit set, mpint f
          # with a redundant leading zero; algorithm / key type names in another letter case; ECDSA r re-encoded
          "pub-reencoded", "sig-alg-case", "hostkey-name-case", "sig-mpint-pad",
          # not a corruption: the signature a conforming non-paramiko server would send (made with the cryptography
          # primitives and the RFC hash for the algorithm) -- the client MUST accept it
          "sig-independent",
          # the key owner signs the right H, but with ANOTHER algorithm of the same key family than the negotiated one
          "sig-other-alg-same-key",
          # K_S replaced by a key of the same type sharing part of the public material (mirrored EC point, same RSA n)
          "hostkey-near-miss",
          # ECDSA r replaced by its negation (cannot even be DER-encoded: must be refused, not waved through)
          "sig-negative-mpint"]
RSA_ALGS = ("ssh-rsa", "rsa-sha2-256", "rsa-sha2-512")


def value_level(fault, fam):
    """Faults that re-encode an INTEGER the protocol hashes / verifies by value (mpint f of the DH families, ECDSA
    r): the client may accept them, but then both peers must still hold the same K and H."""
    return fault in ("sig-mpint-pad", "sig-independent") or (fault == "pub-reencoded" and fam in (0, 1))


def must_accept(fault):
    return fault == "sig-independent"


def fault_applies(fault, alg):
    if fault == "sig-other-alg-same-key":
        return alg in RSA_ALGS
    return fault not in ("sig-mpint-pad", "sig-negative-mpint") or alg.startswith("ecdsa-")


def reencode_pub(fam, pub, rng):
    if fam in (0, 1):
        return b"\x00" * rng.randrange(1, 3) + pub
    if fam == 2:
        if pub[:1] != b"\x04" or len(pub) % 2 != 1:
            return pub
        n = (len(pub) - 1) // 2
        return bytes([2 + (pub[-1] & 1)]) + pub[1:1 + n]
    b = bytearray(pub)
    b[-1] |= 0x80          # RFC 7748: the most significant bit of the u-coordinate is ignored
    return bytes(b)


def swapcase_first_field(blob):
    a, b, rest = split3(blob)
    return rfc_string(a.swapcase()) + rfc_string(b) + rest
# faults whose acceptance on the current tree is a registered finding (strict parsing is missing, the
# verified content is unchanged); any other accepted fault is a violation
KNOWN_KEYS = {"sig-blob-append": "sig-trailing-data-accepted"}


def fault_key(fault, alg, case):
    if fault in KNOWN_KEYS:
        return KNOWN_KEYS[fault]
    if fault == "sig-inner-append" and alg.startswith("ecdsa-"):
        return "ecdsa-sig-trailing-data-accepted"
    return "tamper-accepted:%s%s" % (fault, "" if case.get("exchange", 1) == 1 else ":rekey")


def split3(blob):
    """string || string || rest"""
    from paramiko.message import Message
    m = Message(blob)
    a = m.get_binary()
    b = m.get_binary()
    return a, b, m.get_remainder()


def last_field_pad(blob):
    """prepend a zero byte to the last length-prefixed field of a key blob (same number, other bytes)"""
    fields = []
    pos = 0
    while pos + 4 <= len(blob):
        n = struct.unpack(">I", blob[pos:pos + 4])[0]
        if pos + 4 + n > len(blob):
            break
        fields.append(blob[pos + 4:pos + 4 + n])
        pos += 4 + n
    if not fields or pos != len(blob):
        return blob + b"\x00"
    fields[-1] = b"\x00" + fields[-1]
    return b"".join(rfc_string(f) for f in fields)


def split_reply(fam, payload):
    """payload (after the type byte) -> (ks, pub raw bytes, sig)"""
    from paramiko.message import Message
    m = Message(payload)
    return m.get_binary(), m.get_binary(), m.get_binary()


def join_reply(ks, pub, sig):
    return rfc_string(ks) + rfc_string(pub) + rfc_string(sig)


def fresh_pub(fam, cls, rng, pub):
    from cryptography.hazmat.primitives import serialization
    if fam in (0, 1):
        f = int.from_bytes(pub, "big", signed=True)
        f2 = f ^ (1 << rng.randrange(0, max(1, f.bit_length() - 2)))
        if f2 < 2:
            f2 = f + 1
        return rfc_mpint(f2)[4:]
    if fam == 2:
        from cryptography.hazmat.primitives.asymmetric import ec
        return ec.generate_private_key(cls.curve).public_key().public_bytes(
            serialization.Encoding.X962, serialization.PublicFormat.UncompressedPoint)
    from cryptography.hazmat.primitives.asymmetric.x25519 import X25519PrivateKey
    return X25519PrivateKey.generate().public_key().public_bytes(serialization.Encoding.Raw,
                                                                  serialization.PublicFormat.Raw)


def tamper(fault, fam, cls, payload, alg, keys, get_H, rng):
    """One altered field of the server's kex reply; returns the new payload (after the type byte)."""
    key, other = keys[alg]
    ks, pub, sig = split_reply(fam, payload)
    if fault == "hostkey-swap":
        ks = other.asbytes()
    elif fault == "hostkey-other-type":
        alt = [k for a, (k, _) in sorted(keys.items()) if k.get_name() != key.get_name()]
        ks = alt[rng.randrange(len(alt))].asbytes()
    elif fault == "hostkey-bitflip":
        b = bytearray(ks)
        b[len(b) - 1 - rng.randrange(min(16, len(b)))] ^= 1 << rng.randrange(8)
        ks = bytes(b)
    elif fault == "pub-changed":
        pub = fresh_pub(fam, cls, rng, pub)
    elif fault == "sig-bitflip":
        b = bytearray(sig)
        b[len(b) - 1 - rng.randrange(min(20, len(b)))] ^= 1 << rng.randrange(8)
        sig = bytes(b)
    elif fault == "sig-other-key":
        sig = other.sign_ssh_data(get_H(), alg).asbytes()
    elif fault == "sig-other-data":
        h = bytearray(get_H())
        h[rng.randrange(len(h))] ^= 1 << rng.randrange(8)
        sig = key.sign_ssh_data(bytes(h), alg).asbytes()
    elif fault == "sig-empty":
        sig = b""
    elif fault in ("sig-inner-prepend", "sig-inner-append"):
        a, inner, rest = split3(sig)
        junk = bytes([rng.choice([0, 0, rng.randrange(1, 256)])]) * rng.randrange(1, 4)
        inner = junk + inner if fault == "sig-inner-prepend" else inner + junk
        sig = rfc_string(a) + rfc_string(inner) + rest
    elif fault == "sig-blob-append":
        sig = sig + rng.choice([b"\x00", b"\x00\x00\x00\x00", rfc_string(b"junk")])
    elif fault == "hostkey-append":
        ks = ks + rng.choice([b"\x00", b"\x00\x00\x00\x00", rfc_string(b"junk")])
    elif fault == "hostkey-field-pad":
        ks = last_field_pad(ks)
    elif fault == "pub-reencoded":
        pub = reencode_pub(fam, pub, rng)
    elif fault == "sig-alg-case":
        sig = swapcase_first_field(sig)
    elif fault == "hostkey-name-case":
        ks = swapcase_first_field(ks)
    elif fault == "hostkey-near-miss":
        nm = near_miss_keys(key)
        if nm:
            ks = nm[rng.randrange(len(nm))][1].asbytes()
    elif fault == "sig-negative-mpint":
        if alg.startswith("ecdsa-"):
            a, inner, rest = split3(sig)
            r, s_, rest2 = split3(inner)
            which = rng.randrange(2)
            neg = lambda b_: rfc_mpint(-int.from_bytes(b_, "big", signed=True))   # noqa
            sig = rfc_string(a) + rfc_string((neg(r) if which == 0 else rfc_string(r)) +
                                             (neg(s_) if which == 1 else rfc_string(s_)) + rest2) + rest
    elif fault == "sig-other-alg-same-key":
        if alg in RSA_ALGS:
            oth = [a for a in RSA_ALGS if a != alg][rng.randrange(2)]
            sig = key.sign_ssh_data(get_H(), oth).asbytes()
    elif fault == "sig-independent":
        sig = independent_sign(alg, key, get_H())
        if alg.startswith("rsa") or alg in ("ssh-rsa", "ssh-ed25519"):
            sig = sig + b""      # deterministic schemes give the very same bytes; still a meaningful acceptance test
    elif fault == "sig-mpint-pad":
        if alg.startswith("ecdsa-"):
            a, inner, rest = split3(sig)
            r, s_, rest2 = split3(inner)
            sig = rfc_string(a) + rfc_string(rfc_string(b"\x00" + r) + rfc_string(s_) + rest2) + rest
    else:
        raise ValueError(fault)
    return join_reply(ks, pub, sig)


# ----------------------------------------------------------------------------- (a) direct drive

class Pack:
    def __init__(self, g, p):
        self.gp = (g, p)

    def get_modulus(self, lo, n, hi):
        return self.gp


class Stub:
    """FakeTransport of tests/test_kex.py, but _set_K_H / _verify_key are the real Transport methods."""

    def __init__(self, server, key, alg, rng, pack=None):
        from paramiko.transport import Transport
        self.server_mode = server
        self.local_version = "SSH-2.0-paramiko_verif_%s" % ("S" if server else "C")
        self.remote_version = None
        self.local_kex_init = bytes([20]) + bytes(rng.getrandbits(8) for _ in range(rng.randrange(17, 60)))
        self.remote_kex_init = None
        self._key = key
        self.host_key_type = alg
        self._key_info = Transport._key_info
        self.K = self.H = self.session_id = self.host_key = None
        self.calls = []
        self.sent = []
        self.hm = None
        self.verify_args = None
        self._pack = pack

    def _send_message(self, m):
        self.calls.append("send")
        self.sent.append(m.asbytes())

    def _expect_packet(self, *t):
        self.expect = t

    def _set_K_H(self, K, H):
        from paramiko.transport import Transport
        self.calls.append("setKH")
        self.hm = HASHLOG.get(H)
        Transport._set_K_H(self, K, H)

    def _verify_key(self, host_key, sig):
        from paramiko.transport import Transport
        self.calls.append("verify")
        self.verify_args = (host_key, sig)
        Transport._verify_key(self, host_key, sig)

    def _activate_outbound(self):
        self.calls.append("activate")

    def _log(self, *a):
        pass

    def get_server_key(self):
        return self._key

    def _get_modulus_pack(self):
        return self._pack


def direct_exchange(name, cls, fam, alg, keys, rng, fault=None, old_style=False, small_x=None, exchanges=1):
    """Run the real client and server engines of one kex against each other through stub transports,
    `exchanges` times over the same two transports (2nd, 3rd = re-key); a fault hits the last one."""
    from paramiko.message import Message
    from paramiko.kex_group14 import KexGroup14
    key = keys[alg][0]
    pack = Pack(KexGroup14.G, KexGroup14.P) if fam == 1 else None
    tc, ts = Stub(False, key, alg, rng), Stub(True, key, alg, rng, pack)
    tc.remote_version, ts.remote_version = ts.local_version, tc.local_version

    def deliver(engine, raw):
        m = Message(raw[1:])
        engine.parse_next(raw[0], m)

    out = {"client": tc, "server": ts, "exc": None, "fault_applied": False, "H_list": [], "activated_before": 0}
    for i in range(exchanges):
        last = i == exchanges - 1
        if i:
            for t in (tc, ts):
                t.local_kex_init = bytes([20]) + bytes(rng.getrandbits(8) for _ in range(rng.randrange(17, 60)))
        tc.remote_kex_init, ts.remote_kex_init = ts.local_kex_init, tc.local_kex_init
        kc, ks = cls(tc), cls(ts)
        out["kc"], out["ks"] = kc, ks
        if small_x is not None and fam in (0, 1):
            kc._generate_x = lambda kc=kc: setattr(kc, "x", small_x[0])
            ks._generate_x = lambda ks=ks: setattr(ks, "x", small_x[1])
        ks.start_kex()
        if fam == 1 and old_style:
            kc.start_kex(_test_old_style=True)
        else:
            kc.start_kex()
        if fam == 1:
            deliver(ks, tc.sent[-1])        # REQUEST / REQUEST_OLD
            deliver(kc, ts.sent[-1])        # GROUP
        deliver(ks, tc.sent[-1])            # INIT
        reply = ts.sent[-1]
        out["reply"] = reply
        out["activated_before"] = tc.calls.count("activate")
        if fault is not None and last:
            reply = reply[:1] + tamper(fault, fam, cls, reply[1:], alg, keys, lambda: ts.H, rng)
            out["fault_applied"] = reply != ts.sent[-1] or must_accept(fault)
        try:
            deliver(kc, reply)
        except Exception as e:   # noqa: the client's reaction is the observable
            out["exc"] = e
            out["failed_at"] = i + 1
            break
        out["H_list"].append(ts.H)
        if not last:
            tc.K = ts.K = None   # what _parse_newkeys does
    out["activated_after"] = tc.calls.count("activate")
    return out


def stub_rec(t, engine, fam, server, key):
    return {"version": t.local_version, "kexinit": t.local_kex_init, "K": t.K, "H": t.H, "sid": t.session_id,
            "hm": t.hm, "own": own_fields(engine, fam, server), "hostkey": key.asbytes()}


def check_honest(ctx, where, name, cls, fam, alg, crec, srec, client_key_blob, case, model_cases):
    """Oracle on one completed exchange + queue the model comparison of both sides' hash inputs."""
    hashf = real_hash(cls)
    tc, ts = merge(fam, crec, srec)
    ok = True
    if crec["K"] is None or crec["K"] != srec["K"]:
        ctx.fail("K-differs:" + name, "%s: the peers hold different shared secrets" % where, case=case,
                 expected=srec["K"], observed=crec["K"])
        ok = False
    if crec["H"] is None or crec["H"] != srec["H"]:
        ctx.fail("H-differs:" + name, "%s: the peers hold different exchange hashes" % where, case=case,
                 expected=srec["H"], observed=crec["H"])
        ok = False
    for role, rec, t in (("client", crec, tc), ("server", srec, ts)):
        want = ref_input(fam, t)
        if rec["hm"] is None:
            ctx.fail("H-not-hash-of-transcript:%s:%s" % (name, role),
                     "%s: H handed to _set_K_H is not hash_algo(<bytes hashed by the engine>).digest()" % where, case=case)
            ok = False
            continue
        if rec["hm"] != want:
            ctx.fail("hash-input-layout:%s:%s" % (name, role),
                     "%s: the %s hashes bytes that are not the RFC exchange-hash input of the transcript" % (where, role),
                     case=case, expected=want, observed=rec["hm"])
            ok = False
        if hashf(rec["hm"]).digest() != rec["H"]:
            ctx.fail("H-not-hash:%s:%s" % (name, role), "%s: H != hash(hm)" % where, case=case)
            ok = False
        model_cases.append(("(%d, %d, %s)" % (fam, 0 if role == "client" else 1, coq_transcript(t)),
                            [0] + list(rec["hm"]), dict(case, role=role)))
    if client_key_blob != srec["hostkey"]:
        ctx.fail("client-host-key:" + name, "%s: after the exchange the client does not hold the server's host key" % where,
                 case=case, expected=srec["hostkey"], observed=client_key_blob)
        ok = False
    return ok


def check_abort(ctx, where, name, fault, aborted, activated, exc, case):
    if not aborted or activated:
        ctx.fail(fault_key(fault, case.get("hostkey") or "", case),
                 "%s: client accepted a kex reply whose %s was altered (kex %s, exchange %s)%s" % (
                     where, fault, name, case.get("exchange", 1), "; outbound keys were activated" if activated else ""),
                 case=case, expected="client aborts (SSHException) before NEWKEYS",
                 observed="no exception" if exc is None else "%s: %s" % (type(exc).__name__, str(exc)[:100]))


def check_tampered(ctx, where, name, fam, fault, aborted, activated, exc, case, hk_client, hk_server):
    """hk_* = (K, H) each side holds for the tampered exchange (None when it did not get that far)."""
    if must_accept(fault) and aborted:
        ctx.fail("conforming-signature-rejected:" + (case.get("hostkey") or ""),
                 "%s: the client rejected an RFC-conforming %s signature over H made by the host key's owner with the "
                 "cryptography primitives (what a non-paramiko server sends): %r" % (where, case.get("hostkey"), exc),
                 case=case, expected="accepted", observed=repr(exc))
        return
    if value_level(fault, fam) and not aborted:
        if hk_client is None or hk_client != hk_server:
            ctx.fail("reencoded-value-diverges:" + fault,
                     "%s: client accepted a re-encoded integer (%s, kex %s) but the peers do not hold the same K and H" % (
                         where, fault, name), case=case, expected=hk_server, observed=hk_client)
        return
    check_abort(ctx, where, name, fault, aborted, activated, exc, case)


def run_direct(ctx, keys, model_cases, dh_cases):
    rng = ctx.rng
    T = ctx.thorough
    algs = sorted(keys)
    n = 0
    for ei, (name, cls, fam) in enumerate(engines()):
        big = getattr(cls, "P", 0).bit_length() > 3000
        rounds = (1 if big else 2) if T else 1
        for r in range(rounds):
            alg = algs[(ei + r * 3) % len(algs)] if not T else rng.choice(algs)
            variants = [False] + ([True] if fam == 1 else [])
            for old in variants:
                small = None
                # the Coq evaluation of a modular power costs ~n^2 per step: group1 only (thorough: + one 2048-bit)
                if fam in (0, 1) and r == 0 and not old and (name == "diffie-hellman-group1-sha1" or
                                                              (T and name == "diffie-hellman-group14-sha256")):
                    small = (rng.getrandbits(16) | 2, rng.getrandbits(16) | 2)
                case = {"mode": "direct", "kex": name, "hostkey": alg, "old_style": old, "fault": None}
                o = direct_exchange(name, cls, fam, alg, keys, rng, None, old, small)
                ctx.count(("direct", name, alg, old, r), kind="direct:" + name)
                n += 1
                if o["exc"] is not None:
                    ctx.fail("honest-exchange-fails:" + name, "direct drive: an unaltered exchange raised %s: %s" % (
                        type(o["exc"]).__name__, str(o["exc"])[:120]), case=case)
                    continue
                crec = stub_rec(o["client"], o["kc"], fam, False, keys[alg][0])
                srec = stub_rec(o["server"], o["ks"], fam, True, keys[alg][0])
                hk = o["client"].host_key
                check_honest(ctx, "direct drive", name, cls, fam, alg, crec, srec,
                             hk.asbytes() if hk is not None else None, case, model_cases)
                if "activate" not in o["client"].calls or o["client"].calls.index("verify") > o["client"].calls.index("activate"):
                    ctx.fail("verify-after-activate:" + name, "client activates outbound keys before verifying", case=case)
                va = o["client"].verify_args
                if va is not None:
                    check_accepted_sig(ctx, "direct drive", name, alg, bytes(va[0]), bytes(va[1]), o["client"].H, case)
                if fam in (0, 1):
                    p, g = (cls.P, cls.G) if fam == 0 else (o["ks"].p, o["ks"].g)
                    x, y = o["kc"].x, o["ks"].x
                    e, f = o["kc"].e, o["ks"].f
                    if e != pow(g, x, p) or f != pow(g, y, p) or crec["K"] != pow(f, x, p) or srec["K"] != pow(e, y, p):
                        ctx.fail("dh-values:" + name, "e, f or K is not the modular power of the transcript values", case=case)
                    if small is not None:
                        dh_cases.append((coq((g, p, x, y)), [e, f, crec["K"], srec["K"]], case))
                if len(ctx.samples) < 2:
                    ctx.sample({"direct": case, "H": crec["H"], "hm_len": len(crec["hm"] or b""), "K_equal": crec["K"] == srec["K"]})
        # tamper runs: on the initial exchange and on a re-key (2nd / 3rd exchange over the same transports)
        if T:
            plan = [(f, k) for f in FAULTS for k in ((1, 2) if big else (1, 2, 3))]
        elif big:
            plan = [(FAULTS[(ei + j * 3) % len(FAULTS)], k) for j, k in enumerate((1, 2, 1, 2))]
        else:
            plan = [(f, 1 + (ei + j) % 3) for j, f in enumerate(FAULTS)]
        for fault, nex in plan:
            alg = algs[(ei + 2 * FAULTS.index(fault) + nex) % len(algs)] if not T else rng.choice(algs)
            if not fault_applies(fault, alg):
                pool = [a for a in algs if fault_applies(fault, a)]
                alg = pool[(ei + nex) % len(pool)]
            case = {"mode": "direct", "kex": name, "hostkey": alg, "old_style": False, "fault": fault, "exchange": nex}
            o = direct_exchange(name, cls, fam, alg, keys, rng, fault, exchanges=nex)
            ctx.count(("direct-fault", name, alg, fault, nex), nontrivial=o["fault_applied"],
                      kind="direct-fault:%s@%d" % (fault, nex))
            n += 1
            if o.get("failed_at", nex) != nex:
                ctx.fail("honest-exchange-fails:" + name, "direct drive: unaltered exchange %d raised %s: %s" % (
                    o["failed_at"], type(o["exc"]).__name__, str(o["exc"])[:120]), case=case)
                continue
            if o["H_list"] and (o["client"].session_id != o["H_list"][0] or o["server"].session_id != o["H_list"][0]):
                ctx.fail("session-id-changed", "direct drive: session_id differs from the first exchange hash after a re-key",
                         case=case, expected=o["H_list"][0], observed=o["client"].session_id)
            if not o["fault_applied"]:
                continue
            check_tampered(ctx, "direct drive", name, fam, fault, o["exc"] is not None,
                           o["activated_after"] > o["activated_before"], o["exc"], case,
                           (o["client"].K, o["client"].H), (o["server"].K, o["server"].H))
            va = o["client"].verify_args
            if o["exc"] is None and va is not None:
                check_accepted_sig(ctx, "direct drive", name, alg, bytes(va[0]), bytes(va[1]), o["client"].H, case)
    return n


# ----------------------------------------------------------------------------- (b), (c) loopback

def rec_transport_class():
    import paramiko

    class RecTransport(paramiko.Transport):
        def _rec(self):
            return self.__dict__.setdefault("_c06", {"kex": [], "verify": [], "activate": 0, "newkeys": 0})

        def _set_K_H(self, k, h):
            super()._set_K_H(k, h)
            eng = self.kex_engine
            fam = [f for _, c, f in engines() if type(eng) is c]
            key = self.get_server_key() if self.server_mode else None
            self._rec()["kex"].append({
                "version": self.local_version, "kexinit": self.local_kex_init, "K": k, "H": h,
                "sid": self.session_id, "hm": HASHLOG.get(h), "engine": type(eng).__name__,
                "own": own_fields(eng, fam[0], self.server_mode) if fam else {},
                "hostkey": key.asbytes() if key is not None else None})

        def _verify_key(self, host_key, sig):
            r = self._rec()
            try:
                super()._verify_key(host_key, sig)
                r["verify"].append("ok")
                r.setdefault("verified", []).append((self.host_key_type, bytes(host_key), bytes(sig), self.H))
            except Exception as e:
                r["verify"].append(type(e).__name__)
                raise

        def _activate_outbound(self):
            self._rec()["activate"] += 1
            super()._activate_outbound()

        def _compute_key(self, id, nbytes):
            out = super()._compute_key(id, nbytes)
            self._rec().setdefault("derived", []).append({
                "id": id if isinstance(id, bytes) else str(id).encode(), "n": nbytes, "out": out, "K": self.K, "H": self.H,
                "engine": type(self.kex_engine)})
            return out

        def _parse_newkeys(self, m):
            super()._parse_newkeys(m)
            r = self._rec()
            r["newkeys"] += 1
            r["after_newkeys"] = (self.K, self.H, self.session_id)
    return RecTransport


def tamper_packetizer(ptype_target, alter, nth=1, force=False):
    from paramiko.packet import Packetizer
    from paramiko.message import Message

    class TamperPacketizer(Packetizer):
        _c06_seen = 0

        def read_message(self):
            ptype, m = super().read_message()
            if ptype == ptype_target:
                self._c06_seen += 1
            if ptype == ptype_target and self._c06_seen == nth:
                raw = m.asbytes()
                new = alter(raw)
                self._c06_changed = new != raw or force
                m2 = Message(new)
                m2.seqno = m.seqno
                return ptype, m2
            return ptype, m
    return TamperPacketizer


BANNERS = [None, "SSH-2.0-verifpeer_1.0 build 42", "SSH-2.0-x_1 ", "SSH-1.99-srv_0.9 two words  ", "SSH-2.0-a-b-c",
           "SSH-2.0-verif_peer comment with-dash SSH-2.0"]


def rec_loop_socket():
    from _loop import LoopSocket

    class RecLoop(LoopSocket):
        """LoopSocket that remembers the first line this side put on the wire."""
        _c06_sent = b""

        def send(self, data):
            if b"\n" not in self._c06_sent:
                self._c06_sent += bytes(data)
            return super().send(data)

        def first_line(self):
            line = self._c06_sent.split(b"\n", 1)[0]
            return line[:-1] if line.endswith(b"\r") else line
    return RecLoop


def loopback(name, cls, fam, alg, keys, rng, rekeys=0, fault=None, fault_at=1, banners=(None, None)):
    """Real handshake over a LoopSocket pair; returns both sides' records and the outcome.
    With a fault: exchange number `fault_at` (1 = initial, 2.. = re-key) gets its reply altered."""
    import paramiko
    from paramiko.kex_group14 import KexGroup14
    RT = rec_transport_class()
    LS = rec_loop_socket()
    a, b = LS(), LS()
    a.link(b)
    ts = RT(b)
    kw = {}
    if fault is not None:
        def alter(raw):
            return tamper(fault, fam, cls, raw, alg, keys, lambda: ts.H, rng)
        kw["packetizer_class"] = tamper_packetizer(33 if fam == 1 else 31, alter, fault_at, must_accept(fault))
        rekeys = fault_at - 1
    tc = RT(a, **kw)
    out = {"exc": None, "rekey_exc": None, "pre_exc": None}

    def settle(nk):
        t0 = time.time()
        while time.time() - t0 < 10 and not (ts._rec()["newkeys"] >= nk and tc._rec()["newkeys"] >= nk):
            time.sleep(0.005)
    try:
        for t, bn in ((tc, banners[0]), (ts, banners[1])):
            t.get_security_options().kex = [name]
            if bn is not None:
                t.local_version = bn
        tc.get_security_options().key_types = [alg]
        ts.add_server_key(keys[alg][0])
        if fam == 1:
            ts._modulus_pack = Pack(KexGroup14.G, KexGroup14.P)
            ts.get_security_options().kex = [name]
        ts.start_server(event=threading.Event(), server=paramiko.ServerInterface())
        try:
            tc.start_client(timeout=40)
        except Exception as e:   # noqa: the client's reaction is the observable
            out["exc"] = e
        if out["exc"] is None:
            settle(1)
            for i in range(rekeys):
                tampered = fault is not None and i == rekeys - 1
                if tampered:
                    out["activate_before"] = tc._rec()["activate"]
                    out["newkeys_before"] = tc._rec()["newkeys"]
                try:
                    tc.renegotiate_keys()
                except Exception as e:   # noqa
                    out["exc" if tampered else "rekey_exc"] = e
                    break
                settle(i + 2)
        elif fault is not None and fault_at > 1:
            out["pre_exc"], out["exc"] = out["exc"], None
        out.setdefault("activate_before", 0)
        out.setdefault("newkeys_before", 0)
        out["changed"] = getattr(tc.packetizer, "_c06_changed", None)
        out["client"] = dict(tc._rec(), sid=tc.session_id, K=tc.K, H=tc.H, active=tc.is_active(),
                             initial_kex_done=tc.initial_kex_done,
                             remote_key=tc.host_key.asbytes() if tc.host_key is not None else None)
        out["server"] = dict(ts._rec(), sid=ts.session_id, K=ts.K, H=ts.H)
        out["client"]["wire_line"], out["server"]["wire_line"] = a.first_line(), b.first_line()
        out["client"]["remote_version"], out["server"]["remote_version"] = tc.remote_version, ts.remote_version
        return out
    finally:
        tc.close()
        ts.close()
        a.close()
        b.close()


def do_loopback(name, cls, fam, alg, keys, rng, rekeys=0, fault=None, fault_at=1, banners=(None, None)):
    st, o = with_watchdog(lambda: loopback(name, cls, fam, alg, keys, rng, rekeys, fault, fault_at, banners), 120)
    return o if st == "ok" else {"harness_problem": "%s %r" % (st, o)}


def check_versions(ctx, o, case):
    """V_C / V_S each side will hash = the exact identification line the peer put on the wire (RFC 4253 4.2, 8)."""
    c, s = o["client"], o["server"]
    ok = True
    for side, me, peer in (("client", c, s), ("server", s, c)):
        if me["remote_version"] is None:
            continue
        got = me["remote_version"].encode("utf-8") if isinstance(me["remote_version"], str) else me["remote_version"]
        if got != peer["wire_line"]:
            ctx.fail("remote-version-not-exact", "%s: remote_version (the V_%s it hashes) is not the exact identification "
                     "line the peer sent, without CR LF" % (side, "S" if side == "client" else "C"), case=dict(case, side=side),
                     expected=peer["wire_line"], observed=got)
            ok = False
    return ok


BANNER_CASES = []


def check_verified(ctx, c, name, case):
    """every signature the real client's _verify_key accepted must verify independently"""
    for alg, ks, sig, H in c.get("verified", []):
        check_accepted_sig(ctx, "handshake", name, alg, ks, sig, H, case)


def check_loop_honest(ctx, name, cls, fam, alg, rekeys, o, case, model_cases, latch_cases):
    c, s = o["client"], o["server"]
    check_versions(ctx, o, case)
    check_verified(ctx, c, name, case)
    for me, peer in ((c, s), (s, c)):
        if me["remote_version"] is not None and len(BANNER_CASES) < (300 if ctx.thorough else 24):
            BANNER_CASES.append((coq(list(peer["wire_line"])), list(asb(me["remote_version"])), case))
    for rec, r in ((c["kex"], c), (s["kex"], s)):
        for k in rec:
            k["version"] = r["wire_line"]     # what this side really sent, not what it believes it sent
    if o["exc"] is not None or o["rekey_exc"] is not None:
        e = o["exc"] or o["rekey_exc"]
        ctx.fail("honest-handshake-fails:" + name, "an unaltered %s raised %s: %s" % (
            "handshake" if o["exc"] is not None else "rekey", type(e).__name__, str(e)[:120]), case=case)
        return
    want = rekeys + 1
    if len(c["kex"]) != want or len(s["kex"]) != want:
        ctx.fail("exchange-count:" + name, "expected %d exchanges, the peers ran %d / %d" % (want, len(c["kex"]), len(s["kex"])),
                 case=case)
        return
    for i, (crec, srec) in enumerate(zip(c["kex"], s["kex"])):
        crec = dict(crec, hostkey=None)
        check_honest(ctx, "handshake (exchange %d)" % (i + 1), name, cls, fam, alg, crec, srec, c["remote_key"],
                     dict(case, exchange=i + 1),
                     model_cases if len(model_cases) < (400 if ctx.thorough else 36) and (ctx.thorough or i == 0) else [])
    first = c["kex"][0]["H"]
    for side, r in (("client", c), ("server", s)):
        sids = [k["sid"] for k in r["kex"]] + [r["sid"]]
        if any(x != first for x in sids):
            ctx.fail("session-id-changed", "session_id differs from the first exchange hash on the %s after %d rekey(s)" % (
                side, rekeys), case=case, expected=first, observed=[x for x in sids if x != first][0])
        if r["K"] is not None or r["H"] != r["kex"][-1]["H"]:
            ctx.fail("post-newkeys-state", "%s: K not wiped or H is not the last exchange hash after NEWKEYS" % side, case=case)
        if not ctx.thorough and len(latch_cases) >= 20:
            continue
        latch_cases.append((coq([(k["K"], list(k["H"])) for k in r["kex"]]),
                            [1] + list(r["sid"] or b"") + [-1, 1] + list(r["H"] or b"") + [-1] + ([0] if r["K"] is None else [2, r["K"]]),
                            dict(case, side=side)))
    for side, r in (("client", c), ("server", s)):
        for d in r.get("derived", []):
            hashf = real_hash(d["engine"])
            wantk = rfc_kdf(hashf, d["K"], d["H"], d["id"], first, d["n"])
            if d["out"] != wantk:
                nth = [k["H"] for k in r["kex"]].index(d["H"]) + 1 if d["H"] in [k["H"] for k in r["kex"]] else 0
                ctx.fail("derived-key-session-id" if nth > 1 else "derived-key-not-rfc",
                         "%s: key %r installed after exchange %d is not HASH(K || H || X || session_id) with session_id = "
                         "the first exchange hash (RFC 4253 7.2)" % (side, d["id"].decode(), nth),
                         case=dict(case, side=side, letter=d["id"].decode(), exchange=nth), expected=wantk, observed=d["out"])
                break
    if len({k["H"] for k in c["kex"]}) != want:
        ctx.notes.append("exchange hashes repeated across rekeys in %r" % (case,))
    if c["verify"] != ["ok"] * want:
        ctx.fail("verify-not-run:" + name, "client did not verify the host key signature in every exchange", case=case,
                 expected=["ok"] * want, observed=c["verify"])


def run_loopback(ctx, keys, model_cases, latch_cases):
    from paramiko.transport import Transport
    rng = ctx.rng
    T = ctx.thorough
    algs = sorted(keys)
    eng = {n: (c, f) for n, c, f in engines()}
    names = [n for n in Transport._preferred_kex if n in eng]
    names += [n for n in sorted(eng) if n not in names and eng[n][1] == 1]
    n = 0
    # (b) honest handshakes with rekeys
    combos = []
    if T:
        for rnd in range(2):
            for nm in names:
                for alg in algs:
                    if "group16" in nm and rnd:
                        continue
                    combos.append((nm, alg, rng.randrange(0, 4) if "group16" not in nm else rng.randrange(0, 2)))
    else:
        for i, nm in enumerate(names):
            for j, alg in enumerate(algs):
                if "group16" in nm and j % 3 != i % 3:
                    continue
                combos.append((nm, alg, [1, 0, 2, 0, 1, 3, 0][(i + j) % 7] if "group16" not in nm else (i + j) % 2))
    for ci, (nm, alg, rekeys) in enumerate(combos):
        cls, fam = eng[nm]
        bn = (BANNERS[ci % len(BANNERS)], BANNERS[(ci // 2 + 3) % len(BANNERS)])
        case = {"mode": "handshake", "kex": nm, "hostkey": alg, "rekeys": rekeys, "fault": None, "banners": list(bn)}
        o = do_loopback(nm, cls, fam, alg, keys, rng, rekeys, banners=bn)
        if "harness_problem" in o:
            o = do_loopback(nm, cls, fam, alg, keys, rng, rekeys, banners=bn)
        if "harness_problem" in o:
            ctx.notes.append("handshake %r did not finish: %s" % (case, o["harness_problem"]))
            continue
        ctx.count(("handshake", nm, alg, rekeys, bn), kind="handshake:rekeys=%d" % rekeys)
        n += 1
        check_loop_honest(ctx, nm, cls, fam, alg, rekeys, o, case, model_cases, latch_cases)
        if len(ctx.samples) < 4:
            ctx.sample({"handshake": case, "session_id": o["client"]["sid"],
                        "H_per_exchange": [k["H"] for k in o["client"]["kex"]]})
    # (c) tamper runs, on the initial exchange and on the 2nd / 3rd (re-key)
    tcombos = []
    light = [nm for nm in names if "group16" not in nm]
    if T:
        for nm in names:
            for fault in FAULTS:
                for k, alg in enumerate(rng.sample(algs, 1 if "group16" in nm else 2)):
                    tcombos.append((nm, alg, fault, (2 if "group16" in nm else 1 + k * rng.randrange(1, 3))))
        for j, fault in enumerate(FAULTS):
            for a, alg in enumerate(algs):
                tcombos.append((light[(j * len(algs) + a) % len(light)], alg, fault, 1 + (j + a) % 3))
    else:
        for j, fault in enumerate(FAULTS):
            for a, alg in enumerate(algs):
                tcombos.append((light[(j * len(algs) + a) % len(light)], alg, fault, 1 + (j + a) % 3))
        for j in range(4):
            tcombos.append(("diffie-hellman-group16-sha512", algs[j % len(algs)], FAULTS[(3 * j + 1) % len(FAULTS)], 1 + j % 2))
    # the public value's encoding is a per-kex matter: every kex (not only the one the rotation above picked)
    for i, nm in enumerate(names):
        tcombos.append((nm, algs[(2 * i + 1) % len(algs)], "pub-reencoded", 1 + i % 2))
    tcombos = [c for c in tcombos if fault_applies(c[2], c[1])]
    for nm, alg, fault, at in tcombos:
        cls, fam = eng[nm]
        case = {"mode": "handshake", "kex": nm, "hostkey": alg, "rekeys": at - 1, "fault": fault, "exchange": at}
        o = do_loopback(nm, cls, fam, alg, keys, rng, 0, fault, at)
        if "harness_problem" in o:
            ctx.notes.append("tamper run %r did not finish: %s" % (case, o["harness_problem"]))
            continue
        ctx.count(("tamper", nm, alg, fault, at), nontrivial=bool(o.get("changed")), kind="tamper:%s@%d" % (fault, at))
        n += 1
        if o["pre_exc"] is not None or o["rekey_exc"] is not None:
            e = o["pre_exc"] or o["rekey_exc"]
            ctx.fail("honest-handshake-fails:" + nm, "an unaltered exchange before the tampered one raised %s: %s" % (
                type(e).__name__, str(e)[:120]), case=case)
            continue
        if not o.get("changed"):
            ctx.notes.append("tamper run %r: the reply was not seen / not changed" % (case,))
            continue
        c = o["client"]
        sv = o["server"]
        check_verified(ctx, c, nm, case)
        hkc = (c["kex"][at - 1]["K"], c["kex"][at - 1]["H"]) if len(c["kex"]) >= at else None
        hks = (sv["kex"][at - 1]["K"], sv["kex"][at - 1]["H"]) if len(sv["kex"]) >= at else None
        check_tampered(ctx, "handshake", nm, fam, fault, o["exc"] is not None and not c["active"],
                       c["activate"] > o["activate_before"] or c["newkeys"] > o["newkeys_before"], o["exc"], case, hkc, hks)
        if at == 1 and o["exc"] is not None and c["remote_key"] is not None:
            ctx.fail("host-key-stored-on-abort:" + fault, "client stored a host key although it refused the reply", case=case)
    return n


# ----------------------------------------------------------------------------- (d) Transport.connect(hostkey=...)

PIN_VARIANTS = ["same", "same-reloaded", "other-same-type", "other-type", "near-miss"]


def connect_once(name, alg, keys, variant, use_pkey, rng):
    """Transport.connect(hostkey=<pinned>, username, password | pkey) against a server holding keys[alg][0]."""
    import paramiko
    from _loop import LoopSocket
    from paramiko.kex_group14 import KexGroup14
    key, other = keys[alg]
    if variant == "same":
        pinned = key
    elif variant == "same-reloaded":
        pinned = type(key)(data=key.asbytes())
    elif variant == "other-same-type":
        pinned = other
    elif variant == "near-miss":
        nm = near_miss_keys(key)
        pinned = nm[rng.randrange(len(nm))][1] if nm else other
    else:
        alt = [k for a, (k, _) in sorted(keys.items()) if k.get_name() != key.get_name()]
        pinned = alt[rng.randrange(len(alt))]

    class Srv(paramiko.ServerInterface):
        def __init__(self):
            self.auth = []

        def get_allowed_auths(self, username):
            return "password,publickey"

        def check_auth_password(self, username, password):
            self.auth.append(("password", username, password))
            return paramiko.AUTH_SUCCESSFUL

        def check_auth_publickey(self, username, k):
            self.auth.append(("publickey", username))
            return paramiko.AUTH_SUCCESSFUL

    a, b = LoopSocket(), LoopSocket()
    a.link(b)
    tc, ts = paramiko.Transport(a), paramiko.Transport(b)
    srv = Srv()
    out = {"exc": None}
    try:
        for t in (tc, ts):
            t.get_security_options().kex = [name]
        ts.add_server_key(key)
        if "group-exchange" in name:
            ts._modulus_pack = Pack(KexGroup14.G, KexGroup14.P)
            ts.get_security_options().kex = [name]
        ts.start_server(event=threading.Event(), server=srv)
        try:
            if use_pkey:
                tc.connect(hostkey=pinned, username="verif", pkey=keys[sorted(keys)[0]][1])
            else:
                tc.connect(hostkey=pinned, username="verif", password="s3cret-" + variant)
        except Exception as e:   # noqa: the client's reaction is the observable
            out["exc"] = e
            time.sleep(0.15)     # anything the client sent before raising has reached the server by now
        out["auth_seen"] = list(srv.auth)
        out["authenticated"] = tc.is_authenticated()
        out["shown"] = None if tc.host_key is None else (tc.host_key.get_name(), tc.host_key.asbytes())
        out["pinned"] = (pinned.get_name(), pinned.asbytes())
        out["server"] = (key.get_name(), key.asbytes())
        return out
    finally:
        tc.close()
        ts.close()
        a.close()
        b.close()


def check_connect(ctx, name, alg, variant, use_pkey, o, case, pin_cases):
    same = o["pinned"] == o["server"]
    accepted = o["exc"] is None
    if same:
        if not accepted or not o["authenticated"]:
            ctx.fail("pinned-key-match-rejected", "Transport.connect(hostkey=<the server's key>) failed: %r" % (o["exc"],),
                     case=case, expected="connected and authenticated", observed=repr(o["exc"]))
    else:
        if accepted or o["auth_seen"] or o["authenticated"]:
            ctx.fail("pinned-key-mismatch-accepted:" + variant,
                     "Transport.connect(hostkey=<pinned>) towards a server holding a DIFFERENT key (%s) %s" % (
                         variant, "completed and authenticated" if accepted else
                         "raised but had already sent credentials: %r" % (o["auth_seen"],)),
                     case=case, expected="SSHException before any authentication request",
                     observed={"exception": repr(o["exc"]), "auth_requests_seen_by_server": len(o["auth_seen"])})
    if o["shown"] is not None:
        # the exchange completed: connect's comparison decided
        pin_cases.append(("(%s, %s, %s, %s)" % (coq(o["shown"][0]), coq(o["pinned"][0]), coq(list(o["shown"][1])),
                                                coq(list(o["pinned"][1]))), [0] if accepted else [1], case))
        if o["shown"] != o["server"]:
            ctx.fail("client-host-key:" + name, "connect: the client holds a host key the server does not own", case=case)


def run_connect(ctx, keys, pin_cases):
    from paramiko.transport import Transport
    rng = ctx.rng
    eng = {n: (c, f) for n, c, f in engines()}
    light = [n for n in Transport._preferred_kex if n in eng and "group16" not in n]
    types = {}
    for alg in sorted(keys):
        types.setdefault(keys[alg][0].get_name(), alg)
    algs = sorted(types.values()) if not ctx.thorough else sorted(keys)
    n = 0
    for i, alg in enumerate(algs):
        for j, variant in enumerate(PIN_VARIANTS):
            for rep in range(2 if ctx.thorough else 1):
                nm = light[(i * len(PIN_VARIANTS) + j + 3 * rep) % len(light)]
                use_pkey = (i + j + rep) % 3 == 0
                case = {"mode": "connect", "kex": nm, "hostkey": alg, "variant": variant, "pkey": use_pkey}
                st, o = with_watchdog(lambda: connect_once(nm, alg, keys, variant, use_pkey, rng), 60)
                if st != "ok":
                    ctx.notes.append("connect run %r did not finish: %s %r" % (case, st, o))
                    continue
                ctx.count(("connect", nm, alg, variant, use_pkey), kind="connect:" + variant)
                n += 1
                check_connect(ctx, nm, alg, variant, use_pkey, o, case, pin_cases)
    return n


# ----------------------------------------------------------------------------- (e) SSHClient.connect / known_hosts

CLIENT_VARIANTS = ["known-same", "known-other-same-type", "known-near-miss", "known-other-type-only",
                   "known-two-other-types", "unknown-host"]
POLICIES = ["AutoAddPolicy", "WarningPolicy", "RejectPolicy"]


def sshclient_once(name, alg, keys, variant, policy, system, port, rng, sub=0):
    """SSHClient.connect(sock=...) towards a server holding keys[alg][0], with known_hosts prepared per variant."""
    import warnings
    import paramiko
    from _loop import LoopSocket
    from paramiko.kex_group14 import KexGroup14
    key, other = keys[alg]
    others = [k for a, (k, _) in sorted(keys.items()) if k.get_name() != key.get_name()]
    uniq = {}
    for k in others:
        uniq.setdefault(k.get_name(), k)
    others = [uniq[n] for n in sorted(uniq)]
    nm_keys = near_miss_keys(key)
    near = [nm_keys[sub % len(nm_keys)][1]] if nm_keys else [other]
    known = {"known-same": [key], "known-other-same-type": [other], "known-near-miss": near,
             "known-other-type-only": [others[rng.randrange(len(others))]],
             "known-two-other-types": others[:2], "unknown-host": []}[variant]

    class Srv(paramiko.ServerInterface):
        def __init__(self):
            self.auth = []

        def get_allowed_auths(self, username):
            return "password"

        def check_auth_password(self, username, password):
            self.auth.append(("password", username, password))
            return paramiko.AUTH_SUCCESSFUL

    host = "verifhost.example"
    entry = host if port == 22 else "[%s]:%d" % (host, port)
    a, b = LoopSocket(), LoopSocket()
    a.link(b)
    ts = paramiko.Transport(b)
    srv = Srv()
    client = paramiko.SSHClient()
    store = client._system_host_keys if system else client.get_host_keys()
    for k in known:
        store.add(entry, k.get_name(), k)
    client.set_missing_host_key_policy(getattr(paramiko, policy)())

    def snapshot():
        return sorted((h, t, k.asbytes()) for hk in (client._system_host_keys, client.get_host_keys())
                      for h in hk.keys() for t, k in hk[h].items())
    before = snapshot()
    out = {"exc": None}
    try:
        ts.get_security_options().kex = [name]
        ts.add_server_key(key)
        if "group-exchange" in name:
            ts._modulus_pack = Pack(KexGroup14.G, KexGroup14.P)
            ts.get_security_options().kex = [name]
        ts.start_server(event=threading.Event(), server=srv)
        with warnings.catch_warnings():
            warnings.simplefilter("ignore")
            try:
                client.connect(host, port=port, username="verif", password="s3cret-" + variant, sock=a,
                               look_for_keys=False, allow_agent=False, timeout=30)
            except Exception as e:   # noqa: the client's reaction is the observable
                out["exc"] = e
                time.sleep(0.15)
        out["auth_seen"] = list(srv.auth)
        out["stored_changed"] = snapshot() != before
        out["known"] = [(k.get_name(), k.asbytes()) for k in known]
        out["server"] = (key.get_name(), key.asbytes())
        return out
    finally:
        client.close()
        ts.close()
        a.close()
        b.close()


def check_sshclient(ctx, variant, policy, o, case):
    accepted = o["exc"] is None
    if variant == "known-same":
        if not accepted or len(o["auth_seen"]) != 1:
            ctx.fail("known-host-key-rejected", "SSHClient.connect to a host whose key is in known_hosts failed: %r" % (o["exc"],),
                     case=case, expected="connected", observed=repr(o["exc"]))
    elif variant == "unknown-host":
        if policy == "RejectPolicy" and (accepted or o["auth_seen"]):
            ctx.fail("unknown-host-accepted-under-reject", "RejectPolicy let an unknown host through", case=case)
    else:
        # known_hosts has key(s) for this host and the server shows a DIFFERENT key: swapped -> abort, whatever the policy
        if accepted or o["auth_seen"] or o["stored_changed"]:
            ctx.fail("known-host-key-swapped-accepted:" + variant,
                     "SSHClient.connect (%s): known_hosts has %s for the host, the server presented a different key (%s) and the "
                     "client %s" % (policy, [n for n, _ in o["known"]], o["server"][0],
                                    "connected and sent credentials" if accepted or o["auth_seen"] else "stored the new key"),
                     case=case, expected="BadHostKeyException before any authentication request, known_hosts unchanged",
                     observed={"exception": repr(o["exc"]), "auth_requests_seen_by_server": len(o["auth_seen"]),
                               "known_hosts_changed": o["stored_changed"]})


def run_sshclient(ctx, keys):
    from paramiko.transport import Transport
    rng = ctx.rng
    eng = {n: (c, f) for n, c, f in engines()}
    light = [n for n in Transport._preferred_kex if n in eng and "group16" not in n and "group-exchange" not in n]
    types = {}
    for alg in sorted(keys):
        types.setdefault(keys[alg][0].get_name(), alg)
    algs = sorted(types.values())
    n = 0
    k = ctx.seed
    for vi, variant in enumerate(CLIENT_VARIANTS):
        for pi, policy in enumerate(POLICIES):
            reps = len(algs) if (ctx.thorough or variant == "known-near-miss") else 1
            for rep in range(reps):
                sub = rep + pi + k
                alg = algs[(vi + 2 * pi + rep + k) % len(algs)]
                nm = light[(vi * 3 + pi + rep + k) % len(light)]
                system = (vi + pi + rep) % 2 == 0
                port = 22 if (vi + rep) % 3 else 2222
                case = {"mode": "sshclient", "kex": nm, "hostkey": alg, "variant": variant, "policy": policy,
                        "system": system, "port": port, "sub": sub}
                st, o = with_watchdog(lambda: sshclient_once(nm, alg, keys, variant, policy, system, port, rng, sub), 60)
                if st != "ok":
                    ctx.notes.append("SSHClient run %r did not finish: %s %r" % (case, st, o))
                    continue
                ctx.count(("sshclient", nm, alg, variant, policy, system, port), kind="sshclient:" + variant)
                n += 1
                check_sshclient(ctx, variant, policy, o, case)
    return n


# ----------------------------------------------------------------------------- run / replay

def compare_models(ctx, model_cases, dh_cases, latch_cases, pin_cases=()):
    jobs = [("run_banner", "(list Z)", list(BANNER_CASES), 200),
            ("run_pin", "(list Z * list Z * list Z * list Z)", list(pin_cases), 200),
            ("run_hash_input", "(Z * Z * transcript)", model_cases, 40),
            ("run_dh", "(Z * Z * Z * Z)", dh_cases, 4),
            ("run_latch", "(list (Z * list Z))", latch_cases, 60)]
    results = {}

    def work(fn, ty, cs, shard):
        try:
            results[fn] = ctx.model_mismatches(fn, ty, [(i, e) for i, e, _ in cs], shard=shard)
        except Exception as e:   # noqa
            results[fn] = e
    ths = [threading.Thread(target=work, args=j) for j in jobs if j[2]]
    for t in ths:
        t.start()
    for t in ths:
        t.join()
    for fn, ty, cs, _ in jobs:
        bad = results.get(fn, [])
        if isinstance(bad, Exception):
            ctx.disagree("model evaluation of %s failed: %s" % (fn, str(bad)[-600:]))
            continue
        for i in bad[:3]:
            ctx.disagree("%s differs from the real code" % fn, case=cs[i][2], impl=cs[i][1][:64])


def run(ctx):
    ctx.rule = ("every non-GSS engine in Transport._kex_info (group1/14/14-sha256/16, gex sha1/sha256, ecdh nistp256/384/521, "
                "curve25519) is (a) driven client-against-server through stub transports whose _set_K_H/_verify_key are the "
                "real Transport methods (fresh random V/I strings, host key types rotated over rsa sha1/256/512, ecdsa "
                "256/384/521, ed25519; gex also old-style; pinned 40-bit exponents for the Coq DH evaluation), (b) run in "
                "real loopback handshakes per kex in Transport._preferred_kex x host key algorithm with 0-3 "
                "renegotiate_keys(), with identification strings that carry comments / trailing spaces / 1.99 on either "
                "side (remote_version must be the exact line on the wire), (c) re-run with exactly one field of the server's reply altered (host key swapped for "
                "another key of the same / another type, bit flipped in the key blob, f / Q_S replaced by another valid "
                "value, signature bit flipped / made by another key over the same H / made by the right key over other "
                "data / emptied; junk or zero padding prepended / appended to the inner signature string, appended to the "
                "signature blob or the key blob, a key field zero-padded; the SAME value in another encoding: Q_S as a "
                "compressed EC point, X25519 u with the ignored top bit set, mpint f / ECDSA r with a redundant leading zero "
                "(integers hashed by value: acceptance allowed only with equal K and H on both peers), algorithm / key type "
                "names in another letter case; plus the RFC-conforming signature a non-paramiko server would send (made with "
                "the cryptography primitives), which must be ACCEPTED; every signature a client accepts is re-verified with "
                "the cryptography primitives and the RFC hash of the negotiated algorithm, no paramiko key class involved; every fault x every host key algorithm) -- on the initial exchange or on the 2nd / 3rd exchange (re-key) of the same transports; (d) "
                "Transport.connect(hostkey=pinned, password | pkey) towards a server holding the pinned key / the same key "
                "re-loaded / another key of the same type / a key of another type, per host key type: a differing key must "
                "raise before the server sees any authentication request; (e) SSHClient.connect(sock=...) with known_hosts "
                "(system or user store, port 22 or 2222) holding the server's key / another key of the same type / only keys of "
                "other types / nothing, under AutoAdd / Warning / Reject policy: a host with recorded keys showing a different key "
                "must raise before authentication and leave known_hosts unchanged.  The in-flight grid also has the right H signed "
                "by the key owner with ANOTHER algorithm of the same key family (ssh-rsa / rsa-sha2-256 / -512) as a must-abort fault.  "
                "Every key a transport installs (_compute_key result) is compared with an independent RFC 4253 7.2 "
                "derivation whose session id is the FIRST exchange hash.  A case is non-trivial when distinct and, for tamper runs, when the reply really changed")
    ctx.trusted += ["gen/c06.py translator (fail-closed): layout / reply_sent / reply_read / setkh_prog / verify_over in Gen/C06_gen.v",
                    "hash, signatures, ECDH / X25519 are the cryptography library's; symbolic in the proofs",
                    "the hash input is captured by substituting each engine class's hash_algo with a recording wrapper "
                    "in the harness process"]
    ctx.assumptions += ["hash injective; signatures symbolic (free algebra) or unforgeable; ec_dh x (pub y) = ec_dh y (pub x)",
                        "only the server's reply is altered (V/I strings and the client's public value reach the server intact)"]
    ctx.prove()
    import logging
    logging.getLogger("paramiko").addHandler(logging.NullHandler())
    logging.getLogger("paramiko").propagate = False
    keys = host_keys(ctx.repo)
    model_cases, dh_cases, latch_cases = [], [], []
    del BANNER_CASES[:]
    with hash_recording():
        t0 = time.time()
        n = run_direct(ctx, keys, model_cases, dh_cases)
        ctx.log("direct drive: %d exchanges in %.1fs" % (n, time.time() - t0))
        t0 = time.time()
        n = run_loopback(ctx, keys, model_cases, latch_cases)
        ctx.log("loopback: %d handshakes in %.1fs" % (n, time.time() - t0))
        t0 = time.time()
        pin_cases = []
        n = run_connect(ctx, keys, pin_cases)
        ctx.log("Transport.connect(hostkey=...): %d connections in %.1fs" % (n, time.time() - t0))
        t0 = time.time()
        n = run_sshclient(ctx, keys)
        ctx.log("SSHClient.connect / known_hosts: %d connections in %.1fs" % (n, time.time() - t0))
    ctx.traces = len(model_cases) + len(dh_cases) + len(latch_cases) + len(BANNER_CASES) + len(pin_cases)
    compare_models(ctx, model_cases, dh_cases, latch_cases, pin_cases)


def replay(ctx, rep):
    case = rep.get("case")
    if not isinstance(case, dict) or "kex" not in case or case.get("hostkey") is None:
        return run(ctx)
    keys = host_keys(ctx.repo)
    eng = {n: (c, f) for n, c, f in engines()}
    cls, fam = eng[case["kex"]]
    alg, fault = case["hostkey"], case.get("fault")
    mc, dc, lc = [], [], []
    with hash_recording():
        for attempt in range(3):
            ctx.count(("replay", attempt, str(case)))
            if case.get("mode") == "sshclient":
                st, o = with_watchdog(lambda: sshclient_once(case["kex"], alg, keys, case["variant"], case["policy"],
                                                             bool(case.get("system")), int(case.get("port") or 22), ctx.rng,
                                                             int(case.get("sub") or 0)), 60)
                if st == "ok":
                    check_sshclient(ctx, case["variant"], case["policy"], o, case)
            elif case.get("mode") == "connect":
                st, o = with_watchdog(lambda: connect_once(case["kex"], alg, keys, case["variant"], bool(case.get("pkey")),
                                                           ctx.rng), 60)
                if st == "ok":
                    check_connect(ctx, case["kex"], alg, case["variant"], bool(case.get("pkey")), o, case, [])
            elif case.get("mode") == "direct":
                o = direct_exchange(case["kex"], cls, fam, alg, keys, ctx.rng, fault, bool(case.get("old_style")),
                                    exchanges=int(case.get("exchange") or 1) if fault is not None else 1)
                if fault is None:
                    if o["exc"] is not None:
                        ctx.fail(rep["key"], rep["what"], case=case, observed=repr(o["exc"]))
                        continue
                    hk = o["client"].host_key
                    check_honest(ctx, "direct drive", case["kex"], cls, fam, alg,
                                 stub_rec(o["client"], o["kc"], fam, False, keys[alg][0]),
                                 stub_rec(o["server"], o["ks"], fam, True, keys[alg][0]),
                                 hk.asbytes() if hk is not None else None, case, mc)
                elif o["fault_applied"]:
                    check_tampered(ctx, "direct drive", case["kex"], fam, fault, o["exc"] is not None,
                                   o["activated_after"] > o["activated_before"], o["exc"], case,
                                   (o["client"].K, o["client"].H), (o["server"].K, o["server"].H))
            else:
                o = do_loopback(case["kex"], cls, fam, alg, keys, ctx.rng, int(case.get("rekeys") or 0), fault,
                                int(case.get("exchange") or 1), tuple(case.get("banners") or (None, None)))
                if "harness_problem" in o:
                    continue
                if fault is None:
                    check_loop_honest(ctx, case["kex"], cls, fam, alg, int(case.get("rekeys") or 0), o, case, mc, lc)
                elif o.get("changed"):
                    c = o["client"]
                    at = int(case.get("exchange") or 1)
                    sv = o["server"]
                    check_tampered(ctx, "handshake", case["kex"], fam, fault, o["exc"] is not None and not c["active"],
                                   c["activate"] > o["activate_before"] or c["newkeys"] > o["newkeys_before"], o["exc"], case,
                                   (c["kex"][at - 1]["K"], c["kex"][at - 1]["H"]) if len(c["kex"]) >= at else None,
                                   (sv["kex"][at - 1]["K"], sv["kex"][at - 1]["H"]) if len(sv["kex"]) >= at else None)
    ctx.log("replayed %r" % (case,))
