(* C15 -- Transport.run's dispatch of connection-layer messages (types 80..100) and
   Transport._ensure_authed, on top of the shared server-side auth model (Model/C14.v).
   Definitions only.

   What the handlers do once they are allowed to run is abstract: only "the application is
   consulted" (TCallback), "a channel is created and queued for accept()" (TChannelCreated),
   "the message is handed to a Channel" (TDeliver) and "a Transport handler that does not
   consult the application ran" (THandler) are recorded. *)
From PV Require Export Bytes C39 C14.
Open Scope Z_scope.

Record tstate := mkT {
  t_server : bool;            (* transport.server_mode *)
  t_auth : astate;            (* auth handler + active flag + _expected_packet *)
  t_chans : list Z;           (* ids in transport._channels *)
  t_seen : list Z;            (* transport.channels_seen *)
  t_next : Z                  (* transport._channel_counter (no wrap-around modelled) *)
}.

Definition tinit (server : bool) : tstate := mkT server init [] [] 0.

Inductive tout :=
  | TAuth (o : out)                       (* output of the auth layer *)
  | TReply (m : result (list Z))          (* message the run loop itself sends *)
  | TCallback (ptype : Z)                 (* server application consulted (channel open / global request) *)
  | TChannelCreated (id : Z)              (* Channel object created, queued for accept() *)
  | TDeliver (ptype chanid : Z)           (* message handed to an existing Channel *)
  | THandler (ptype : Z)                  (* Transport handler ran without consulting the application *)
  | TRaise (e : exn)                      (* exception: the run loop ends *)
  | TStop                                 (* "break": the run loop ends *)
  | TUnhandled.                           (* no table knows the type (UNIMPLEMENTED reply / C12) *)

(* a packet: an auth-layer message, or a connection-layer one with the fields the loop reads:
   the first uint32 (channel id; for CHANNEL_OPEN the sender channel read after the kind) and
   whether the application would accept the channel open *)
Inductive packet :=
  | PAuth (m : amsg)
  | PConn (ptype chanid : Z) (app_ok kind_ok : bool).
(* kind_ok: the first string of the payload (the channel kind _ensure_authed reads to build its
   refusal) is valid UTF-8 *)

Definition ptype_of (p : packet) : Z :=
  match p with
  | PAuth (Msg5 _) => gen_msg_service_request | PAuth (Msg50 _ _ _) => gen_msg_userauth_request
  | PAuth Msg61 => gen_msg_userauth_info_response | PAuth Msg66 => gen_msg_userauth_gssapi_mic
  | PConn t _ _ _ => t
  end.

Definition zmem (x : Z) (l : list Z) : bool := existsb (Z.eqb x) l.

(* Transport._handler_table restricted to 80..100, and Transport._channel_handler_table *)
Definition handler_types : list Z := gen_handler_types.     (* all keys of Transport._handler_table *)
Definition channel_types : list Z := gen_channel_types.
Definition highest_userauth : Z := gen_highest_userauth.        (* HIGHEST_USERAUTH_MESSAGE_ID *)

(* Transport.is_authenticated: active and auth_handler is not None and
   auth_handler.is_authenticated().  During a gssapi-with-mic exchange the handler is a
   GssapiWithMicAuthHandler, which (after fixes/C14-gssapi-with-mic-handler-table.diff) delegates to
   the AuthHandler it wraps; before that repair the state "exchange pending and no packet expected"
   cannot be reached through Transport.run at all (the first TOKEN raises TypeError). *)
Definition is_authenticated (ts : tstate) : result bool :=
  if negb (a_active (t_auth ts)) then Ok false
  else Ok (a_authed (t_auth ts)).

(* Transport._ensure_authed: None = go ahead, Some reply = refuse with this message *)
Definition ensure_authed (ts : tstate) (ptype chanid : Z) (kind_ok : bool) : result (option (result (list Z))) :=
  if negb (t_server ts) || (ptype <=? highest_userauth) then Ok None
  else match is_authenticated ts with
       | Raise x => Raise x
       | Ok true => Ok None
       | Ok false =>
           if ptype =? gen_msg_global_request then Ok (Some (encode_all [FByte gen_msg_request_failure]))
           else if ptype =? gen_msg_channel_open then
             (* kind = message.get_text(): a UnicodeDecodeError leaves _ensure_authed (and the run loop) *)
             if negb kind_ok then Raise UnicodeErr
             else Ok (Some (encode_all [FByte gen_msg_channel_open_failure; FU32 chanid;
                                        FU32 gen_open_prohibited; FString []; FString s_en]))
           else Ok (Some (Ok []))         (* an empty Message *)
       end.

Definition set_auth ts a := mkT (t_server ts) a (t_chans ts) (t_seen ts) (t_next ts).
Definition kill ts := set_auth ts (set_active (t_auth ts) false).

(* the handlers of types 80 / 81 / 82 / 90 / 91 / 92 once allowed to run (abstract) *)
Definition conn_handler (ts : tstate) (ptype : Z) (app_ok : bool) : tstate * list tout :=
  if t_server ts && (ptype =? gen_msg_global_request) then (ts, [TCallback ptype])
  else if t_server ts && (ptype =? gen_msg_channel_open) then
    (* my_chanid = self._next_channel() is taken before the application is asked *)
    let id := t_next ts in
    if app_ok then
      (mkT (t_server ts) (t_auth ts) (id :: t_chans ts) (id :: t_seen ts) (id + 1),
       [TCallback ptype; TChannelCreated id])
    else (mkT (t_server ts) (t_auth ts) (t_chans ts) (t_seen ts) (id + 1),
          [TCallback ptype])                (* refused by the application; reply not modelled *)
  else (ts, [THandler ptype]).

Section Loop.
Variable sig_ok : list Z -> list Z -> list Z -> vres.
Variable sid : list Z.

Definition loop_step (ts : tstate) (p : packet) (e : env) : tstate * list tout :=
  let a := t_auth ts in
  if negb (a_active a) then (ts, [])
  else
    let pt := ptype_of p in
    (* if len(self._expected_packet) > 0: must be one of them, then the tuple is cleared *)
    if match a_expected a with [] => false | _ => negb (zmem pt (a_expected a)) end
    then (kill ts, [TRaise SSHExc])
    else
      let ts := set_auth ts (set_expected a []) in
      match p with
      | PAuth m =>
          if t_server ts then
            let '(a', o) := auth_step sig_ok sid (t_auth ts) m e in (set_auth ts a', map TAuth o)
          else (ts, [TUnhandled])            (* client-side auth handler: not modelled here *)
      | PConn pt chanid app_ok kind_ok =>
          if zmem pt handler_types then
            match ensure_authed ts pt chanid kind_ok with
            | Raise x => (kill ts, [TRaise x])
            | Ok (Some (Ok [])) => (kill ts, [TRaise IndexErr])   (* send_message(empty): data[0] *)
            | Ok (Some reply) => (ts, [TReply reply])
            | Ok None => conn_handler ts pt app_ok
            end
          else if zmem pt channel_types then
            if zmem chanid (t_chans ts) then (ts, [TDeliver pt chanid])
            else if zmem chanid (t_seen ts) then (ts, [])
            else (kill ts, [TStop])
          else (ts, [TUnhandled])
      end.

Fixpoint loop_run (ts : tstate) (steps : list (packet * env)) : tstate * list tout :=
  match steps with
  | [] => (ts, [])
  | (p, e) :: r =>
      let '(ts1, o1) := loop_step ts p e in
      let '(ts2, o2) := loop_run ts1 r in (ts2, o1 ++ o2)
  end.
End Loop.

(* outputs that reach a connection-layer service *)
Definition reaches_service (o : tout) : bool :=
  match o with
  | TCallback _ | TChannelCreated _ | TDeliver _ _ | THandler _ => true
  | _ => false
  end.
(* is the output of an auth-layer packet *)
Definition is_tauth (o : tout) : bool := match o with TAuth _ => true | _ => false end.

(* ---- canonical form for the correspondence run -------------------------------- *)
(* per step: messages sent (wire bytes), then callbacks / services reached, then flags *)
Definition tout_sends (o : tout) : list Z :=
  match o with
  | TAuth a => match a with
               | OSuccess | OFailure _ | OPkOk _ _ | OInfoRequest | OAccept | OBanner | OGssResponse
               | OGssToken | ODisconnect _ => (-10) :: canon_result (wire a)
               | _ => []
               end
  | TReply m => (-10) :: canon_result m
  | _ => []
  end.
Definition tout_events (o : tout) : list Z :=
  match o with
  | TAuth (OCb k u r) => [(-11); cb_code k; res_code r]
  | TCallback p => [(-17); p]
  | TChannelCreated id => [(-18); id]
  | TDeliver p c => [(-19); p; c]
  | _ => []
  end.
Definition canon_tstate (ts : tstate) : list Z :=
  [(-20); b2z (a_active (t_auth ts)); b2z (a_authed (t_auth ts)); Z.of_nat (length (t_chans ts))].

Fixpoint loop_trace (ts : tstate) (steps : list (packet * env)) : list Z :=
  match steps with
  | [] => []
  | (p, e) :: r =>
      let '(ts1, o1) := loop_step toy_sig_ok [] ts p e in
      flat_map tout_sends o1 ++ flat_map tout_events o1 ++ canon_tstate ts1 ++ loop_trace ts1 r
  end.
Definition run_loop (c : list (packet * env)) : list Z := loop_trace (tinit true) c.
