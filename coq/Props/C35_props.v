(* C35 — signatures verify exactly when they are genuine, for every key object; verification never
   raises.  Statements only.  PARTIAL by nature: the signature schemes themselves are the libraries'
   (oracles lib / rsa_sign / ec_sign / ed_sign / pub_of / utf8_ok, universally quantified); what is proved
   is the wrapper logic of RSAKey / ECDSAKey / Ed25519Key after the repairs fixes/C35-1..4. *)
From PV Require Import Bytes C39 C35 C35_proofs.
Open Scope Z_scope.

(* verification answers True or False for EVERY signature message (any bytes), every key object
   (generated / from a private key file / from public bytes), provided the library's verify only
   returns or raises its documented exceptions (InvalidSignature / BadSignatureError; nacl's ValueError
   for Ed25519) *)
Theorem C35_total :
  forall utf8_ok pub_of k lib data msg,
    key_wf pub_of k -> lib_documented k lib ->
    exists b, verify_ssh_sig utf8_ok pub_of lib k data msg = Ok b.
Proof. exact total. Qed.
Print Assumptions C35_total.

(* a signature produced by a signing-capable key object k1 (any of the RSA hash algorithms incl. the
   cert names, ECDSA, Ed25519) verifies under every key object k2 of the same kind standing for the same
   public key: the same object, one loaded from the private key file, one built from the public bytes *)
Theorem C35_genuine :
  forall utf8_ok pub_of rsa_sign ec_sign ed_sign lib k1 k2 sk data alg sigmsg,
    (forall s, ascii s = true -> utf8_ok s = true) ->
    honest pub_of rsa_sign ec_sign ed_sign lib -> sig_shapes rsa_sign ec_sign ed_sign k1 ->
    key_wf pub_of k1 -> key_wf pub_of k2 -> same_kind k1 k2 ->
    key_pub pub_of k1 = Some (pub_of sk) -> key_pub pub_of k2 = Some (pub_of sk) ->
    match k1 with KRsa _ p _ => p = Some sk | KEcdsa _ s _ => s = Some sk | KEd s _ => s = Some sk end ->
    sign_ssh_data rsa_sign ec_sign ed_sign k1 data alg = Ok sigmsg ->
    verify_ssh_sig utf8_ok pub_of lib k2 data sigmsg = Ok true.
Proof. exact genuine. Qed.
Print Assumptions C35_genuine.

(* a signature whose algorithm name is not text, or not one this key accepts, is answered False without
   consulting the library at all (lib is arbitrary, it may even raise) *)
Theorem C35_wrong_name_false :
  forall utf8_ok pub_of k lib data msg,
    (let nm := fst (get_string msg 0) in utf8_ok nm = false \/ accepts k nm = false) ->
    verify_ssh_sig utf8_ok pub_of lib k data msg = Ok false.
Proof. exact wrong_name_false. Qed.
Print Assumptions C35_wrong_name_false.

(* True is answered only if the library accepted the (parsed, for RSA zero-padded) signature on exactly
   this data under exactly the public half this key object stands for: other data / altered signature /
   different key are rejected whenever the library rejects them *)
Theorem C35_true_only_if_library_accepts :
  forall utf8_ok pub_of k lib data msg,
    verify_ssh_sig utf8_ok pub_of lib k data msg = Ok true ->
    exists a, verify_step utf8_ok pub_of k msg = Call a /\ lib a data = LAccept /\
              key_pub pub_of k = Some (arg_pub a).
Proof. exact true_only_if_lib. Qed.
Print Assumptions C35_true_only_if_library_accepts.

(* non-vacuity: a key loaded from a private Ed25519 file (signing half only) meets the hypotheses, signs,
   and the model verifies the result under a public-bytes key object *)
Example C35_example :
  let pub_of := fun sk : Z => sk + 1 in
  let lib := fun (a : libarg) (_ : list Z) =>
    match a with AEd p sg => if (p =? 8) && zlist_eqb sg [1; 2; 3] then LAccept else LInvalid | _ => LInvalid end in
  key_wf pub_of (KEd (Some 7) None) /\ lib_documented (KEd (Some 7) None) lib /\
  exists m, sign_ssh_data (fun _ _ _ => []) (fun _ _ => (0, 0)) (fun _ _ => [1; 2; 3]) (KEd (Some 7) None) [] None = Ok m /\
            verify_ssh_sig (fun _ => true) pub_of lib (KEd None (Some 8)) [] m = Ok true /\
            verify_ssh_sig (fun _ => true) pub_of lib (KEd (Some 7) None) [] m = Ok true /\
            verify_ssh_sig (fun _ => true) pub_of lib (KEd None (Some 9)) [] m = Ok false.
Proof.
  cbv zeta. split; [exact I|]. split.
  - intros a d. destruct a as [? ? ?|? ? ?|p sg]; auto.
    destruct ((p =? 8) && zlist_eqb sg [1; 2; 3]); auto.
  - eexists. split; [vm_compute; reflexivity|]. vm_compute. auto.
Qed.
