(* C38 - peer protocol violations surface as SSH exceptions, not internal errors.
   Statements only; every proof is `exact <lemma from Proofs/C38_proofs.v>`.
   `handlers` and `ladder` are regenerated from the working tree by gen/c38.py on every run. *)
From PV Require Import Bytes C39 C38 C38_gen C38_proofs.
Open Scope Z_scope.

(* The property.  For every handler reachable from the dispatch tables (transport, auth, channel,
   every kex engine), every payload a peer can send and every outcome `tail` of the part of the
   handler that the schema does not follow (any exception class whatsoever, as long as it
   finishes): what get_exception returns, what start_client / start_server / connect /
   open_channel raise and what the auth_* calls raise is an SSHException (incl. subclasses), an
   EOFError or a socket error - and none of those calls blocks. *)
Theorem C38_only_ssh :
  forall (h : handler) (buf : list Z) (tail : option exn),
    In h handlers -> tail <> Some OutOfFuel ->
    surfaces_ok (option_map (surface ladder) (handle h buf tail)).
Proof. exact only_ssh. Qed.
Print Assumptions C38_only_ssh.

(* The same for errors raised outside any handler (packet layer: AEAD InvalidTag, an empty
   payload's IndexError, zlib errors; dispatch code: the empty reply of _ensure_authed ...):
   whatever class `e` is raised inside the run loop, the API reports an allowed class. *)
Theorem C38_any_internal_error :
  forall e : exn, terminates e = true -> surfaces_ok (Some (surface ladder e)).
Proof. exact any_internal_error. Qed.
Print Assumptions C38_any_internal_error.

(* No handler spins on a peer-supplied count: parsing always finishes ... *)
Theorem C38_no_spin :
  forall (h : handler) (buf : list Z), In h handlers -> p_exn (parse h buf) <> Some OutOfFuel.
Proof. exact no_spin. Qed.
Print Assumptions C38_no_spin.

(* ... after a number of get_* calls that is linear in the size of the packet *)
Theorem C38_work_bounded :
  forall (h : handler) (buf : list Z),
    (p_gets (parse h buf) <= items_work (length buf) (h_items h))%nat.
Proof. exact work_bounded. Qed.
Print Assumptions C38_work_bounded.

(* Non-vacuity of C38_only_ssh: ill-formed UTF-8 in a text field really does raise
   UnicodeDecodeError inside the handler; it is the ladder that turns it into an SSHException *)
Theorem C38_text_field_raises :
  forall s, utf8_valid s = false -> Z.of_nat (length s) < 2 ^ 32 ->
    snd (step GText (be_encode 4 (Z.of_nat (length s)) ++ s) 0) = Some UnicodeErr.
Proof. exact text_field_raises. Qed.
Print Assumptions C38_text_field_raises.

(* What the two repairs are for (the code as it was):
   the generic clause stored the caught object itself -> UnicodeDecodeError & co. surfaced *)
Theorem C38_unwrapped_ladder_refuted :
  exists e, terminates e = true /\ api_ok (api_start (Some (surface ladder_v0 e))) = false /\
            api_ok (api_auth (Some (surface ladder_v0 e))) = false.
Proof. exact unwrapped_leaks. Qed.
Print Assumptions C38_unwrapped_ladder_refuted.

(* `for _ in range(msg.get_int())` without the count guard: four bytes make it spin *)
Theorem C38_unguarded_count_refuted :
  exists buf, p_exn (parse (mkH 9 [IRepeat [GText; GString] None] true) buf) = Some OutOfFuel.
Proof. exact unguarded_spins. Qed.
Print Assumptions C38_unguarded_count_refuted.

(* without a generic clause the run thread would die without cleanup and start_client block *)
Theorem C38_generic_clause_needed :
  exists e, terminates e = true /\
            api_start (Some (surface [(CSSH, false); (CEOF, false); (CSocket, false)] e)) = Blocks.
Proof. exact no_generic_clause_blocks. Qed.
Print Assumptions C38_generic_clause_needed.

(* Caller-thread paths.  start_client(timeout=..) returns normally when the peer merely stalls, so
   the public methods the application calls next (get_remote_server_key - used by
   SSHClient.connect -, auth_*, ensure_session) must themselves refuse with SSHException unless
   the transport is live AND its first key exchange is complete.  The guard tests are generated. *)
Theorem C38_session_guards :
  forall g active kex_done, In g session_guards -> active && kex_done = false ->
    api_guarded (snd g) active kex_done = Raises SSHExc.
Proof. exact session_guards_raise. Qed.
Print Assumptions C38_session_guards.

(* Every place where stored peer bytes are decoded as text on the caller's thread (generated
   list: u / .decode / get_text / get_list in code reachable from the public API without going
   through run) either turns UnicodeDecodeError into an SSHException or is a registered known
   finding; a guarded site only ever raises an allowed class. *)
Theorem C38_caller_sites :
  (forall s, In s caller_sites -> snd s = true \/ existsb (zlist_eqb (fst s)) known_unguarded = true) /\
  (forall valid, match caller_decode true valid with Some e => allowed e = true | None => True end).
Proof. exact (conj caller_sites_guarded_or_known guarded_site_allowed). Qed.
Print Assumptions C38_caller_sites.

(* why a guard is needed at such a site *)
Theorem C38_unguarded_site_refuted : caller_decode false false = Some UnicodeErr /\ allowed UnicodeErr = false.
Proof. exact unguarded_site_leaks. Qed.
Print Assumptions C38_unguarded_site_refuted.

(* Caller-thread code runs concurrently with - and after - the transport thread: an attribute it
   dereferences (`self.auth_handler.wait_for_response(..)`, `self.packetizer...`, `self.sock...`;
   generated list) is never one the transport thread sets to None / deletes / reassigns on its way
   out (generated list), so those dereferences cannot turn into AttributeError. *)
Theorem C38_no_cleared_deref :
  forall a, In a caller_derefs -> caller_deref (mem_name a thread_clears) = None.
Proof. exact cleared_not_dereferenced. Qed.
Print Assumptions C38_no_cleared_deref.

Theorem C38_cleared_deref_refuted : caller_deref true = Some AttrErr /\ allowed AttrErr = false.
Proof. exact cleared_deref_leaks. Qed.
Print Assumptions C38_cleared_deref_refuted.

Example C38_derefs_nonvacuous : mem_name [97; 117; 116; 104; 95; 104; 97; 110; 100; 108; 101; 114] caller_derefs = true.
Proof. vm_compute. reflexivity. Qed.

(* Two cooperating sites: _parse_ext_info (transport thread) stores the extension value, auth_publickey
   (caller's thread) later decodes server-sig-algs.  The stored value is exactly the bytes of one
   get_string (generated), so for every wire value - empty included - the guarded decode yields a
   result or an SSHException, never TypeError / UnicodeDecodeError. *)
Theorem C38_stored_ext_value :
  forall s, match caller_u true (store_of ext_info_store s) with Some e => allowed e = true | None => True end.
Proof. exact stored_ext_decodes_ok. Qed.
Print Assumptions C38_stored_ext_value.

Theorem C38_stored_none_refuted : caller_u true SNone = Some TypeErr /\ allowed TypeErr = false.
Proof. exact stored_none_leaks. Qed.
Print Assumptions C38_stored_none_refuted.

Example C38_guards_nonvacuous :
  session_guards <> [] /\ forall g, In g session_guards -> api_guarded (snd g) true true = Returns.
Proof. split; [vm_compute; discriminate | exact session_guards_pass]. Qed.

(* non-vacuity: the generated table does contain handlers that decode text and handlers that
   loop over a peer-supplied count *)
Example C38_handlers_nonvacuous :
  (exists h, In h handlers /\ existsb item_has_text (h_items h) = true) /\
  (exists h, In h handlers /\ existsb item_is_repeat (h_items h) = true).
Proof.
  split; apply existsb_exists; vm_compute; reflexivity.
Qed.

(* concrete instances: USERAUTH_FAILURE whose method list is the single byte 0xff *)
Example C38_example_unicode :
  let h := mkH 0 [IGet GList; IGet GBool] true in
  handle h [0; 0; 0; 1; 255; 0] None = Some UnicodeErr /\
  option_map (surface ladder) (handle h [0; 0; 0; 1; 255; 0] None) = Some (Saved SSHExc).
Proof. vm_compute. auto. Qed.

(* EXT_INFO announcing 2^32-1 entries in a 4-byte packet is rejected with SSHException *)
Example C38_example_count :
  p_exn (parse (mkH 0 [IRepeat [GText; GString] (Some 8)] true) [255; 255; 255; 255]) = Some SSHExc.
Proof. reflexivity. Qed.
