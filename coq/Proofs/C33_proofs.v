(* C33 — proofs of the lemmas that Props/C33_props.v closes with `exact`. *)
From PV Require Import Bytes C39 C39_proofs C33_gen C33.
From Coq Require Import ZArith List Bool Lia.
Import ListNotations.
Open Scope Z_scope.

Ltac bind_inv H x E :=
  match type of H with
  | bind ?r _ = Ok _ => destruct r as [x|] eqn:E; [cbn [bind] in H | discriminate H]
  end.

(* ------------------------------------------------------------------ *)
(* flags                                                               *)
(* ------------------------------------------------------------------ *)

Lemma flags_b_has b1 b2 b3 b4 b5 :
  let f := flags_b b1 b2 b3 b4 b5 in
  has f FLAG_SIZE = b1 /\ has f FLAG_UIDGID = b2 /\ has f FLAG_PERMISSIONS = b3 /\
  has f FLAG_AMTIME = b4 /\ has f FLAG_EXTENDED = b5.
Proof. destruct b1, b2, b3, b4, b5; vm_compute; repeat split. Qed.

Lemma flags_b_sum b1 b2 b3 b4 b5 :
  flags_b b1 b2 b3 b4 b5 =
  (if b1 then FLAG_SIZE else 0) + (if b2 then FLAG_UIDGID else 0) + (if b3 then FLAG_PERMISSIONS else 0) +
  (if b4 then FLAG_AMTIME else 0) + (if b5 then FLAG_EXTENDED else 0).
Proof. destruct b1, b2, b3, b4, b5; reflexivity. Qed.

(* the generated constants are the five distinct bits of the SFTP draft *)
Lemma flag_values :
  FLAG_SIZE = 1 /\ FLAG_UIDGID = 2 /\ FLAG_PERMISSIONS = 4 /\ FLAG_AMTIME = 8 /\ FLAG_EXTENDED = 2147483648.
Proof. repeat split; reflexivity. Qed.

Lemma flags_has a :
  has (flags_of a) FLAG_SIZE = is_some (a_size a) /\
  has (flags_of a) FLAG_UIDGID = is_some (a_uid a) && is_some (a_gid a) /\
  has (flags_of a) FLAG_PERMISSIONS = is_some (a_mode a) /\
  has (flags_of a) FLAG_AMTIME = is_some (a_atime a) && is_some (a_mtime a) /\
  has (flags_of a) FLAG_EXTENDED = nonempty (a_ext a).
Proof. unfold flags_of. apply flags_b_has. Qed.

Lemma flags_exact a :
  flags_of a =
  (if is_some (a_size a) then FLAG_SIZE else 0) +
  (if is_some (a_uid a) && is_some (a_gid a) then FLAG_UIDGID else 0) +
  (if is_some (a_mode a) then FLAG_PERMISSIONS else 0) +
  (if is_some (a_atime a) && is_some (a_mtime a) then FLAG_AMTIME else 0) +
  (if nonempty (a_ext a) then FLAG_EXTENDED else 0).
Proof. unfold flags_of. apply flags_b_sum. Qed.

(* ------------------------------------------------------------------ *)
(* reads at a cursor, positions as lengths of the consumed prefix       *)
(* ------------------------------------------------------------------ *)

Lemma get_int_at' buf v x pre rest :
  pack_u32 v = Ok x -> buf = pre ++ x ++ rest ->
  get_int buf (length pre) = (v, length (pre ++ x)).
Proof.
  intros Hx Hb. apply pack_u32_ok in Hx as [Hv ->].
  rewrite (get_int_at buf (length pre) v pre rest Hb eq_refl Hv).
  rewrite app_length, be_encode_length. reflexivity.
Qed.

Lemma get_int64_at' buf v x pre rest :
  pack_u64 v = Ok x -> buf = pre ++ x ++ rest ->
  get_int64 buf (length pre) = (v, length (pre ++ x)).
Proof.
  intros Hx Hb. apply pack_u64_ok in Hx as [Hv ->].
  rewrite (get_int64_at buf (length pre) v pre rest Hb eq_refl Hv).
  rewrite app_length, be_encode_length. reflexivity.
Qed.

Lemma get_string_at' buf s x pre rest :
  add_string s = Ok x -> buf = pre ++ x ++ rest ->
  get_string buf (length pre) = (s, length (pre ++ x)).
Proof.
  intros Hx Hb. apply add_string_ok in Hx as [Hl ->].
  rewrite (get_string_at buf (length pre) s pre rest Hb eq_refl Hl).
  rewrite !app_length, be_encode_length. reflexivity.
Qed.

(* ------------------------------------------------------------------ *)
(* the fixed segments                                                  *)
(* ------------------------------------------------------------------ *)

Lemma dec_size_at fl a s buf pre rest :
  has fl FLAG_SIZE = is_some (a_size a) -> enc_size fl a = Ok s -> buf = pre ++ s ++ rest ->
  dec_size fl buf (length pre) = (a_size a, length (pre ++ s)).
Proof.
  intros Hf He Hb. unfold enc_size, dec_size in *. rewrite Hf in *.
  destruct (a_size a) as [v|]; cbn [is_some opt_u64] in *.
  - rewrite (get_int64_at' buf v s pre rest He Hb). reflexivity.
  - injection He as <-. rewrite app_nil_r. reflexivity.
Qed.

Lemma dec_mode_at fl a s buf pre rest :
  has fl FLAG_PERMISSIONS = is_some (a_mode a) -> enc_mode fl a = Ok s -> buf = pre ++ s ++ rest ->
  dec_mode fl buf (length pre) = (a_mode a, length (pre ++ s)).
Proof.
  intros Hf He Hb. unfold enc_mode, dec_mode in *. rewrite Hf in *.
  destruct (a_mode a) as [v|]; cbn [is_some opt_u32] in *.
  - rewrite (get_int_at' buf v s pre rest He Hb). reflexivity.
  - injection He as <-. rewrite app_nil_r. reflexivity.
Qed.

Lemma dec_pair_at (enc : option Z -> result (list Z)) fl bit (o1 o2 : option Z) s buf pre rest :
  (forall v, enc (Some v) = pack_u32 v) ->
  has fl bit = is_some o1 && is_some o2 ->
  (if has fl bit
   then bind (enc o1) (fun x => bind (enc o2) (fun y => Ok (x ++ y)))
   else Ok []) = Ok s ->
  buf = pre ++ s ++ rest ->
  dec_pair fl bit buf (length pre) =
  (if is_some o1 && is_some o2 then o1 else None,
   if is_some o1 && is_some o2 then o2 else None, length (pre ++ s)).
Proof.
  intros Henc Hf He Hb. unfold dec_pair. rewrite Hf in *.
  destruct o1 as [u|], o2 as [g|]; cbn [is_some andb] in *;
    try (injection He as <-; rewrite app_nil_r; reflexivity).
  rewrite !Henc in He.
  bind_inv He x Ex. bind_inv He y Ey. injection He as <-.
  rewrite (get_int_at' buf u x pre (y ++ rest) Ex)
    by (rewrite Hb, <- !app_assoc; reflexivity).
  rewrite (get_int_at' buf g y (pre ++ x) rest Ey)
    by (rewrite Hb, <- !app_assoc; reflexivity).
  rewrite <- app_assoc. reflexivity.
Qed.

(* ------------------------------------------------------------------ *)
(* the extended pairs                                                  *)
(* ------------------------------------------------------------------ *)

Lemma dict_set_fresh d k v :
  ~ In k (map fst d) -> dict_set d k v = d ++ [(k, v)].
Proof.
  induction d as [|[k' v'] d IH]; intros Hn; [reflexivity|].
  cbn [dict_set map fst] in *.
  destruct (zlist_eqb k' k) eqn:E.
  - apply zlist_eqb_eq in E. exfalso. apply Hn. left. exact E.
  - rewrite IH; [reflexivity|]. intros Hi. apply Hn. right. exact Hi.
Qed.

Lemma enc_pairs_len8 l : forall e, enc_pairs l = Ok e -> (8 * length l <= length e)%nat.
Proof.
  induction l as [|[k v] r IH]; intros e He.
  - cbn. lia.
  - cbn [enc_pairs] in He.
    bind_inv He x Ex. bind_inv He y Ey. bind_inv He z Ez. injection He as <-.
    apply add_string_ok in Ex as [_ ->]. apply add_string_ok in Ey as [_ ->].
    specialize (IH z eq_refl). rewrite !app_length, !be_encode_length. cbn [length]. lia.
Qed.

Lemma enc_pairs_len l : forall e, enc_pairs l = Ok e -> (length l <= length e)%nat.
Proof. intros e He. pose proof (enc_pairs_len8 l e He). lia. Qed.

Lemma ext_loop_at l : forall d pre e rest buf,
  enc_pairs l = Ok e -> buf = pre ++ e ++ rest -> NoDup (map fst (d ++ l)) ->
  ext_loop false (length l) buf (length pre) d = (d ++ l, length (pre ++ e)).
Proof.
  induction l as [|[k v] r IH]; intros d pre e rest buf He Hb Hnd.
  - cbn in He. injection He as <-. cbn [length ext_loop]. rewrite !app_nil_r. reflexivity.
  - cbn [enc_pairs] in He.
    bind_inv He x Ex. bind_inv He y Ey. bind_inv He z Ez. injection He as <-.
    cbn [length ext_loop].
    rewrite (get_string_at' buf k x pre (y ++ z ++ rest) Ex)
      by (rewrite Hb, <- !app_assoc; reflexivity).
    rewrite (get_string_at' buf v y (pre ++ x) (z ++ rest) Ey)
      by (rewrite Hb, <- !app_assoc; reflexivity).
    assert (Hfresh : ~ In k (map fst d)).
    { rewrite map_app in Hnd. cbn [map fst] in Hnd.
      apply NoDup_remove_2 in Hnd. intros Hi. apply Hnd. apply in_or_app. left. exact Hi. }
    rewrite (dict_set_fresh d k v Hfresh).
    rewrite (IH (d ++ [(k, v)]) ((pre ++ x) ++ y) z rest buf eq_refl).
    + rewrite <- !app_assoc. reflexivity.
    + rewrite Hb, <- !app_assoc. reflexivity.
    + rewrite <- app_assoc. exact Hnd.
Qed.

Lemma dec_ext_at b fl a s buf pre rest :
  has fl FLAG_EXTENDED = nonempty (a_ext a) -> enc_ext fl a = Ok s ->
  NoDup (map fst (a_ext a)) -> buf = pre ++ s ++ rest ->
  dec_ext b false fl buf (length pre) = Ok (a_ext a, length (pre ++ s)).
Proof.
  intros Hf He Hnd Hb. unfold enc_ext, dec_ext in *. rewrite Hf in *.
  destruct (a_ext a) as [|kv l] eqn:El; cbn [nonempty] in *.
  - injection He as <-. rewrite app_nil_r. reflexivity.
  - rewrite <- El in *. clear El kv l.
    bind_inv He c Ec. bind_inv He e Ee. injection He as <-.
    rewrite (get_int_at' buf _ c pre (e ++ rest) Ec)
      by (rewrite Hb, <- !app_assoc; reflexivity).
    pose proof (enc_pairs_len8 _ _ Ee) as Hl8.
    assert (Hrem : skipn (length (pre ++ c)) buf = e ++ rest).
    { rewrite Hb. replace (pre ++ (c ++ e) ++ rest) with ((pre ++ c) ++ e ++ rest)
        by (rewrite <- !app_assoc; reflexivity).
      apply skipn_app_exact. }
    assert (Hguard : b && (Z.of_nat (length (a_ext a)) >? Z.of_nat (length (skipn (length (pre ++ c)) buf)) / 8)
                     = false).
    { rewrite Hrem, app_length. apply andb_false_intro2.
      rewrite Z.gtb_ltb. apply Z.ltb_ge. apply Z.div_le_lower_bound; lia. }
    rewrite Hguard.
    assert (Hfuel : ext_fuel (Z.of_nat (length (a_ext a))) buf = length (a_ext a)).
    { unfold ext_fuel.
      assert (Hbl : (length e <= length buf)%nat) by (rewrite Hb, !app_length; lia).
      rewrite Z.min_l by lia. apply Nat2Z.id. }
    rewrite Hfuel.
    rewrite (ext_loop_at (a_ext a) [] (pre ++ c) e rest buf Ee).
    + rewrite <- app_assoc. reflexivity.
    + rewrite Hb, <- !app_assoc. reflexivity.
    + exact Hnd.
Qed.

(* ------------------------------------------------------------------ *)
(* the whole attribute block                                           *)
(* ------------------------------------------------------------------ *)

Lemma roundtrip_gen a bs pre rest :
  NoDup (map fst (a_ext a)) -> pack a = Ok bs ->
  unpack (pre ++ bs ++ rest) (length pre) = Ok (flags_of a, normalize a, (length pre + length bs)%nat).
Proof.
  intros Hnd Hp. unfold pack, pack_with in Hp.
  bind_inv Hp h Eh. bind_inv Hp s1 E1. bind_inv Hp s2 E2. bind_inv Hp s3 E3.
  bind_inv Hp s4 E4. bind_inv Hp s5 E5. injection Hp as <-.
  destruct (flags_has a) as (F1 & F2 & F3 & F4 & F5).
  set (fl := flags_of a) in *.
  remember (pre ++ (h ++ s1 ++ s2 ++ s3 ++ s4 ++ s5) ++ rest) as buf eqn:Hb.
  unfold unpack, unpack_gen.
  rewrite (get_int_at' buf fl h pre (s1 ++ s2 ++ s3 ++ s4 ++ s5 ++ rest) Eh)
    by (rewrite Hb, <- !app_assoc; reflexivity).
  rewrite (dec_size_at fl a s1 buf (pre ++ h) (s2 ++ s3 ++ s4 ++ s5 ++ rest) F1 E1)
    by (rewrite Hb, <- !app_assoc; reflexivity).
  rewrite (dec_pair_at opt_u32 fl FLAG_UIDGID (a_uid a) (a_gid a) s2 buf ((pre ++ h) ++ s1)
             (s3 ++ s4 ++ s5 ++ rest) (fun v => eq_refl) F2 E2)
    by (rewrite Hb, <- !app_assoc; reflexivity).
  rewrite (dec_mode_at fl a s3 buf (((pre ++ h) ++ s1) ++ s2) (s4 ++ s5 ++ rest) F3 E3)
    by (rewrite Hb, <- !app_assoc; reflexivity).
  rewrite (dec_pair_at opt_time fl FLAG_AMTIME (a_atime a) (a_mtime a) s4 buf ((((pre ++ h) ++ s1) ++ s2) ++ s3)
             (s5 ++ rest) (fun v => eq_refl) F4 E4)
    by (rewrite Hb, <- !app_assoc; reflexivity).
  rewrite (dec_ext_at G_COUNT_BOUNDED fl a s5 buf (((((pre ++ h) ++ s1) ++ s2) ++ s3) ++ s4) rest F5 E5 Hnd)
    by (rewrite Hb, <- !app_assoc; reflexivity).
  unfold normalize. do 2 f_equal. rewrite !app_length. lia.
Qed.

Lemma roundtrip a bs rest :
  NoDup (map fst (a_ext a)) -> pack a = Ok bs ->
  unpack (bs ++ rest) 0 = Ok (flags_of a, normalize a, length bs).
Proof. intros Hnd Hp. exact (roundtrip_gen a bs [] rest Hnd Hp). Qed.

Lemma normalize_paired a : paired a = true -> normalize a = a.
Proof.
  destruct a as [sz u g md at_ mt ex]. unfold paired, normalize. cbn.
  destruct u, g, at_, mt; cbn; intros H; try discriminate; reflexivity.
Qed.

Lemma roundtrip_paired a bs rest :
  paired a = true -> NoDup (map fst (a_ext a)) -> pack a = Ok bs ->
  unpack (bs ++ rest) 0 = Ok (flags_of a, a, length bs).
Proof. intros Hp Hnd He. rewrite (roundtrip a bs rest Hnd He), (normalize_paired a Hp). reflexivity. Qed.

(* fields absent stay absent; an id or time without its partner decodes as absent *)
Lemma normalize_fields a :
  a_size (normalize a) = a_size a /\ a_mode (normalize a) = a_mode a /\ a_ext (normalize a) = a_ext a /\
  (a_uid a = None \/ a_gid a = None -> a_uid (normalize a) = None /\ a_gid (normalize a) = None) /\
  (a_atime a = None \/ a_mtime a = None -> a_atime (normalize a) = None /\ a_mtime (normalize a) = None) /\
  (a_uid a <> None -> a_gid a <> None ->
     a_uid (normalize a) = a_uid a /\ a_gid (normalize a) = a_gid a) /\
  (a_atime a <> None -> a_mtime a <> None ->
     a_atime (normalize a) = a_atime a /\ a_mtime (normalize a) = a_mtime a).
Proof.
  destruct a as [sz u g md at_ mt ex]. unfold normalize. cbn.
  destruct u, g, at_, mt; cbn; intuition congruence.
Qed.

(* _pack succeeds exactly when the values that are written fit their wire width *)
Definition u32_ok (o : option Z) : bool := match o with Some v => (0 <=? v) && (v <? 2 ^ 32) | None => true end.
Definition u64_ok (o : option Z) : bool := match o with Some v => (0 <=? v) && (v <? 2 ^ 64) | None => true end.

Definition in_range (a : attrs) : bool :=
  let n := normalize a in
  u64_ok (a_size n) && u32_ok (a_uid n) && u32_ok (a_gid n) && u32_ok (a_mode n) &&
  u32_ok (a_atime n) && u32_ok (a_mtime n) &&
  (Z.of_nat (length (a_ext a)) <? 2 ^ 32) &&
  forallb (fun kv => (Z.of_nat (length (fst kv)) <? 2 ^ 32) && (Z.of_nat (length (snd kv)) <? 2 ^ 32)) (a_ext a).

Lemma pack_u32_total v : (0 <=? v) && (v <? 2 ^ 32) = true -> pack_u32 v = Ok (be_encode 4 v).
Proof. intros H. unfold pack_u32. rewrite H. reflexivity. Qed.
Lemma pack_u64_total v : (0 <=? v) && (v <? 2 ^ 64) = true -> pack_u64 v = Ok (be_encode 8 v).
Proof. intros H. unfold pack_u64. rewrite H. reflexivity. Qed.

Lemma add_string_total s : Z.of_nat (length s) <? 2 ^ 32 = true -> exists x, add_string s = Ok x.
Proof.
  intros H. unfold add_string. rewrite pack_u32_total.
  - eexists. reflexivity.
  - rewrite H, andb_true_r. apply Z.leb_le. lia.
Qed.

Lemma enc_pairs_total l :
  forallb (fun kv => (Z.of_nat (length (fst kv)) <? 2 ^ 32) && (Z.of_nat (length (snd kv)) <? 2 ^ 32)) l = true ->
  exists e, enc_pairs l = Ok e.
Proof.
  induction l as [|[k v] r IH]; intros H.
  - eexists. reflexivity.
  - cbn [forallb fst snd] in H. apply andb_true_iff in H as [Hkv Hr].
    apply andb_true_iff in Hkv as [Hk Hv].
    destruct (add_string_total k Hk) as [x Ex]. destruct (add_string_total v Hv) as [y Ey].
    destruct (IH Hr) as [z Ez]. cbn [enc_pairs]. rewrite Ex, Ey, Ez. eexists. reflexivity.
Qed.

Lemma pack_total a : in_range a = true -> exists bs, pack a = Ok bs.
Proof.
  intros H. unfold in_range in H. cbv zeta in H.
  repeat match goal with Hc : _ && _ = true |- _ => apply andb_true_iff in Hc; destruct Hc end.
  destruct (flags_has a) as (F1 & F2 & F3 & F4 & F5).
  pose proof (flags_exact a) as Hfe.
  unfold pack, pack_with.
  assert (Hh : pack_u32 (flags_of a) = Ok (be_encode 4 (flags_of a))).
  { apply pack_u32_total. rewrite Hfe.
    destruct (is_some (a_size a)), (is_some (a_uid a) && is_some (a_gid a)), (is_some (a_mode a)),
      (is_some (a_atime a) && is_some (a_mtime a)), (nonempty (a_ext a)); reflexivity. }
  rewrite Hh. cbn [bind].
  unfold enc_size, enc_ug, enc_mode, enc_times, enc_ext. rewrite F1, F2, F3, F4, F5.
  destruct a as [sz u g md at_ mt ex]. unfold normalize in *. cbn [a_size a_uid a_gid a_mode a_atime a_mtime a_ext] in *.
  assert (E1 : exists s1, (if is_some sz then opt_u64 sz else Ok []) = Ok s1).
  { destruct sz as [v|]; cbn [is_some opt_u64 u64_ok] in *; [rewrite pack_u64_total by assumption|];
      eexists; reflexivity. }
  destruct E1 as [s1 ->]. cbn [bind].
  assert (E2 : exists s2, (if is_some u && is_some g
                           then bind (opt_u32 u) (fun x => bind (opt_u32 g) (fun y => Ok (x ++ y)))
                           else Ok []) = Ok s2).
  { destruct u as [uv|], g as [gv|]; cbn [is_some andb opt_u32 u32_ok] in *;
      try (eexists; reflexivity).
    rewrite !pack_u32_total by assumption. eexists. reflexivity. }
  destruct E2 as [s2 ->]. cbn [bind].
  assert (E3 : exists s3, (if is_some md then opt_u32 md else Ok []) = Ok s3).
  { destruct md as [v|]; cbn [is_some opt_u32 u32_ok] in *; [rewrite pack_u32_total by assumption|];
      eexists; reflexivity. }
  destruct E3 as [s3 ->]. cbn [bind].
  assert (E4 : exists s4, (if is_some at_ && is_some mt
                           then bind (opt_time at_) (fun x => bind (opt_time mt) (fun y => Ok (x ++ y)))
                           else Ok []) = Ok s4).
  { destruct at_ as [av|], mt as [mv|]; cbn [is_some andb opt_time u32_ok] in *;
      try (eexists; reflexivity).
    rewrite !pack_u32_total by assumption. eexists. reflexivity. }
  destruct E4 as [s4 ->]. cbn [bind].
  assert (E5 : exists s5, (if nonempty ex
                           then bind (pack_u32 (Z.of_nat (length ex))) (fun c =>
                                bind (enc_pairs ex) (fun e => Ok (c ++ e)))
                           else Ok []) = Ok s5).
  { destruct (nonempty ex); [|eexists; reflexivity].
    rewrite pack_u32_total.
    - match goal with Hp : forallb _ ex = true |- _ => destruct (enc_pairs_total ex Hp) as [e ->] end.
      eexists. reflexivity.
    - apply andb_true_iff. split; [apply Z.leb_le; lia|assumption]. }
  destruct E5 as [s5 ->]. cbn [bind]. eexists. reflexivity.
Qed.

(* ------------------------------------------------------------------ *)
(* the object's _flags field persists between calls                    *)
(* ------------------------------------------------------------------ *)

(* _pack is a function of the attribute fields only: neither the bytes written nor the flags the
   object holds afterwards depend on the flags it held before (left by an earlier _unpack / _pack) *)
Lemma pack_obj_ignores_prior :
  forall (p1 p2 : Z) (a : attrs),
    pack_obj p1 a = pack_obj p2 a /\ pack_obj p1 a = (pack a, flags_of a).
Proof. intros p1 p2 a. split; reflexivity. Qed.

(* nor on whether the object was rendered (printed, listed) in between *)
Lemma pack_after_render :
  forall (prior : Z) (a : attrs),
    pack_obj (fst (render_obj (prior, a))) (snd (render_obj (prior, a))) = (pack a, flags_of a).
Proof. intros prior a. unfold render_obj. destruct G_RENDER_READONLY; reflexivity. Qed.

(* so the round trip holds for an object with any history: decoded or encoded before, then edited *)
Lemma roundtrip_any_history prior a bs rest :
  NoDup (map fst (a_ext a)) -> fst (pack_obj prior a) = Ok bs ->
  unpack (bs ++ rest) 0 = Ok (snd (pack_obj prior a), normalize a, length bs).
Proof. intros Hnd Hp. exact (roundtrip a bs rest Hnd Hp). Qed.

(* decode, replace the fields by any others, encode, decode: the second decode yields the new fields *)
Lemma decode_edit_encode buf pos fl a p a' bs rest :
  unpack buf pos = Ok (fl, a, p) ->
  NoDup (map fst (a_ext a')) ->
  fst (pack_obj fl a') = Ok bs ->
  unpack (bs ++ rest) 0 = Ok (flags_of a', normalize a', length bs).
Proof. intros _ Hnd Hp. exact (roundtrip a' bs rest Hnd Hp). Qed.

(* without the reset the prior flags leak: a stale extended flag on an object with no fields is
   written out (flags 0x80000000 and a zero count instead of flags 0), and a stale time flag makes
   _pack raise on the missing values *)
Lemma noreset_leaks :
  let empty := MkAttrs None None None None None None [] in
  pack_obj FLAG_EXTENDED empty = (Ok [0; 0; 0; 0], 0) /\
  pack_obj_noreset FLAG_EXTENDED empty = (Ok [128; 0; 0; 0; 0; 0; 0; 0], FLAG_EXTENDED) /\
  pack_obj_noreset FLAG_AMTIME empty = (Raise TypeErr, FLAG_AMTIME) /\
  exists prior a, pack_obj_noreset prior a <> pack_obj prior a.
Proof.
  cbv zeta. repeat split.
  exists FLAG_EXTENDED, (MkAttrs None None None None None None []). vm_compute. discriminate.
Qed.

(* the code before the repair swaps key and value of an extended pair *)
Lemma v0_swaps :
  exists a bs a', pack a = Ok bs /\ NoDup (map fst (a_ext a)) /\ paired a = true /\
    unpack_v0 bs 0 = Ok (flags_of a, a', length bs) /\ a' <> a /\
    a_ext a' = map (fun kv => (snd kv, fst kv)) (a_ext a).
Proof.
  exists (MkAttrs None None None None None None [([107; 49], [118; 49])]).
  eexists. eexists. split; [vm_compute; reflexivity|].
  split; [cbn; constructor; [intros []|constructor]|].
  split; [reflexivity|].
  split; [vm_compute; reflexivity|].
  split; [discriminate|reflexivity].
Qed.

(* the count guard: a pair count the message cannot hold is refused before the loop runs
   (holds for the model of the guarded code, whatever the working tree contains) *)
Lemma count_guard buf pos :
  let '(fl, p0) := get_int buf pos in
  let '(_, p1) := dec_size fl buf p0 in
  let '(_, _, p2) := dec_pair fl FLAG_UIDGID buf p1 in
  let '(_, p3) := dec_mode fl buf p2 in
  let '(_, _, p4) := dec_pair fl FLAG_AMTIME buf p3 in
  has fl FLAG_EXTENDED = true ->
  fst (get_int buf p4) > Z.of_nat (length (skipn (snd (get_int buf p4)) buf)) / 8 ->
  unpack_gen true false buf pos = Raise SSHExc.
Proof.
  unfold unpack_gen.
  destruct (get_int buf pos) as [fl p0]. destruct (dec_size fl buf p0) as [sz p1].
  destruct (dec_pair fl FLAG_UIDGID buf p1) as [[u g] p2]. destruct (dec_mode fl buf p2) as [md p3].
  destruct (dec_pair fl FLAG_AMTIME buf p3) as [[at_ mt] p4].
  intros Hext Hgt. unfold dec_ext. rewrite Hext.
  destruct (get_int buf p4) as [count q]. cbn [fst snd] in Hgt.
  apply Z.gt_lt in Hgt. apply Z.gtb_lt in Hgt. cbn [andb]. rewrite Hgt. reflexivity.
Qed.
