(* C26 -- model of paramiko/buffered_pipe.py (BufferedPipe.feed / read / empty / close /
   set_event) as a transition system whose atomic actions are the critical sections of
   the source (everything between acquiring self._lock and releasing it, or giving it up
   in self._cv.wait).  Definitions only; proofs are in Proofs/C26_proofs.v.

   read(nbytes, timeout) is two kinds of critical section:
     ARead n t   -- from lock.acquire() to either the return / raise or the first cv.wait
     AWake dt    -- from the return of cv.wait (lock re-acquired) to the return / raise or
                    the next cv.wait; dt is the environment's clock input, the value of
                    time.time() - then  measured around that wait
   A wait can return (AWake is enabled) when the waiter has been notified (feed / close
   call notify_all) or when it has a timeout; nothing is assumed about how dt relates to
   the timeout (the source uses two unrelated clocks: the condition variable's and
   time.time), so every theorem holds for every clock behaviour.

   Times are integers (ticks).  Faithful for nbytes >= 0 and timeout None or >= 0. *)
From PV Require Import Bytes Sched C26_gen.
Open Scope Z_scope.

Record waiter := mkW { w_n : Z; w_t : option Z; w_notified : bool }.

Inductive act :=
  | AFeed (d : list Z)
  | ARead (n : Z) (t : option Z)
  | AWake (dt : Z)
  | AEmpty
  | AClose
  | ASetEvent.

(* what the calling thread observes when the critical section ends *)
Inductive outcome :=
  | ODone                         (* feed / close / set_event returned *)
  | OBlocked                      (* read is (again) inside cv.wait *)
  | ORet (n : Z) (d : list Z)     (* read(n, ..) returned d *)
  | OTimeout                      (* read raised PipeTimeout *)
  | OEmptied (d : list Z).        (* empty() returned d *)

Definition action := (Z * act)%type.              (* thread id, critical section *)
Definition event := (Z * act * outcome)%type.

Record state := mkS {
  buf : list Z;                   (* self._buffer *)
  closed : bool;                  (* self._closed *)
  has_ev : bool;                  (* self._event is not None *)
  ev : bool;                      (* self._event.is_set() *)
  waiters : Z -> option waiter;   (* threads inside cv.wait *)
  hist : list event               (* ghost: completed critical sections, newest first *)
}.

Definition init : state := mkS [] false false false (fun _ => None) [].

Definition set_waiter (s : state) (i : Z) (w : option waiter) : state :=
  mkS (buf s) (closed s) (has_ev s) (ev s)
      (fun j => if j =? i then w else waiters s j) (hist s).

(* self._cv.notify_all() *)
Definition notify_all (f : Z -> option waiter) : Z -> option waiter :=
  fun j => match f j with
           | Some w => Some (mkW (w_n w) (w_t w) true)
           | None => None
           end.

(* the tail of read(): "something's in the buffer and we have the lock" *)
Definition take (s : state) (n : Z) : state * outcome :=
  if Z.of_nat (length (buf s)) <=? n
  then (mkS [] (closed s) (has_ev s)
            (if has_ev s && negb (closed s) then false else ev s)
            (waiters s) (hist s),
        ORet n (buf s))
  else (mkS (skipn (Z.to_nat n) (buf s)) (closed s) (has_ev s) (ev s) (waiters s) (hist s),
        ORet n (firstn (Z.to_nat n) (buf s))).

(* the while test: wait (again), or fall through to the tail *)
Definition loop (s : state) (i n : Z) (t : option Z) : state * outcome :=
  if is_nil (buf s) && negb (closed s)
  then (set_waiter s i (Some (mkW n t false)), OBlocked)
  else take s n.

Definition has_timeout (w : waiter) : bool :=
  match w_t w with Some _ => true | None => false end.

Definition zero_timeout (t : option Z) : bool :=
  match t with Some t => t =? 0 | None => false end.

(* [retest = true]: the repaired source, which raises PipeTimeout after a wake-up only
   when the buffer is still empty; [retest = false]: the original order of tests
   (deadline first), kept for the refutation witness. *)
Definition step_core (retest : bool) (s : state) (a : action) : option (state * outcome) :=
  let '(i, x) := a in
  match waiters s i with
  | Some w =>
      match x with
      | AWake dt =>
          if w_notified w || has_timeout w then
            let s1 := set_waiter s i None in
            match w_t w with
            | None => Some (loop s1 i (w_n w) None)
            | Some t =>
                let t' := t - dt in
                if (t' <=? 0) && (negb retest || is_nil (buf s))
                then Some (s1, OTimeout)
                else Some (loop s1 i (w_n w) (Some t'))
            end
          else None
      | _ => None                       (* a thread inside read() does nothing else *)
      end
  | None =>
      match x with
      | AWake _ => None
      | AFeed d =>
          (* event.set() if an event is installed; [feed_sets_event_always] (generated
             from the source of feed()) says whether that is unconditional or only when
             the buffer is non-empty after the append *)
          Some (mkS (buf s ++ d) (closed s) (has_ev s)
                    (if has_ev s && (feed_sets_event_always || negb (is_nil (buf s ++ d)))
                     then true else ev s)
                    (notify_all (waiters s)) (hist s), ODone)
      | ARead n t =>
          if is_nil (buf s) then
            if closed s then Some (s, ORet n [])
            else if zero_timeout t then Some (s, OTimeout)
            else Some (loop s i n t)
          else Some (take s n)
      | AEmpty =>
          Some (mkS [] (closed s) (has_ev s)
                    (if has_ev s && negb (closed s) then false else ev s)
                    (waiters s) (hist s), OEmptied (buf s))
      | AClose =>
          Some (mkS (buf s) true (has_ev s) (has_ev s || ev s)
                    (notify_all (waiters s)) (hist s), ODone)
      | ASetEvent =>
          Some (mkS (buf s) (closed s) true (closed s || negb (is_nil (buf s)))
                    (waiters s) (hist s), ODone)
      end
  end.

Definition log (s : state) (e : event) : state :=
  mkS (buf s) (closed s) (has_ev s) (ev s) (waiters s) (e :: hist s).

Definition step_gen (retest : bool) (s : state) (a : action) : option (state * outcome) :=
  match step_core retest s a with
  | Some (s', o) => Some (log s' (a, o), o)
  | None => None
  end.

Definition step := step_gen true.        (* the code as repaired *)
Definition step_v0 := step_gen false.    (* the code before the repair *)

Definition next (s : state) (a : action) : option state := option_map fst (step s a).
Definition next_v0 (s : state) (a : action) : option state := option_map fst (step_v0 s a).

Definition run : state -> list action -> option state := Sched.run next.
Definition run_v0 : state -> list action -> option state := Sched.run next_v0.

(* ---- histories ------------------------------------------------------------ *)
Definition out_of (o : outcome) : list Z :=
  match o with ORet _ d => d | OEmptied d => d | _ => [] end.
Definition in_of (x : act) : list Z :=
  match x with AFeed d => d | _ => [] end.

(* everything returned by read / empty so far, in completion order *)
Fixpoint got_of (h : list event) : list Z :=
  match h with [] => [] | (_, _, o) :: r => got_of r ++ out_of o end.
(* everything fed so far, in order *)
Fixpoint fed_of (h : list event) : list Z :=
  match h with [] => [] | (_, x, _) :: r => fed_of r ++ in_of x end.
(* everything a schedule feeds, in schedule order *)
Definition feeds (l : list action) : list Z := flat_map (fun a => in_of (snd a)) l.

Definition is_close (a : action) : bool := match snd a with AClose => true | _ => false end.

(* ---- canonical trace for the correspondence run -------------------------------- *)
Definition b2z (b : bool) : Z := if b then 1 else 0.

Definition enc_outcome (o : outcome) : list Z :=
  match o with
  | ODone => [-10]
  | OBlocked => [-11]
  | ORet _ d => (-12) :: d
  | OTimeout => [-13]
  | OEmptied d => (-14) :: d
  end.

(* per thread: 0 = not waiting, 1 = waiting, 2 = waiting and notified *)
Definition wstat (s : state) (i : Z) : Z :=
  match waiters s i with
  | None => 0
  | Some w => if w_notified w then 2 else 1
  end.

(* all four thread slots in one number (base 3) *)
Definition wcode (s : state) : Z := wstat s 0 + 3 * wstat s 1 + 9 * wstat s 2 + 27 * wstat s 3.

Definition enc_final (s : state) : list Z :=
  (-1) :: buf s ++ [(-2); b2z (closed s); b2z (has_ev s); b2z (has_ev s && ev s)].

Fixpoint trace_from (s : state) (l : list action) : list Z :=
  match l with
  | [] => enc_final s
  | a :: r =>
      match step s a with
      | Some (s', o) => enc_outcome o ++ [wcode s'] ++ trace_from s' r
      | None => [-9]                     (* action not enabled in the model *)
      end
  end.

Definition run_trace (l : list action) : list Z := trace_from init l.

(* ---- the model enumerates all interleavings itself ---------------------------------
   Given op-level programs (lists of AFeed / ARead / AEmpty / AClose / ASetEvent, thread id =
   position) [explore] walks every maximal schedule under the harness's choice policy: an
   idle thread may start its next operation; a blocked reader may wake up when notified
   (clock reading 0, or exactly its remaining timeout) or when its wait times out (reading =
   remaining timeout).  It returns the number of maximal schedules and the sum of a rolling
   hash of their traces, which the harness compares with the same figures computed from the
   executions of the real class. *)
Definition hash_mask : Z := 281474976710655.         (* 2^48 - 1; masking is cheap under vm_compute *)
Definition mix (h v : Z) : Z := Z.land (h * 1000003 + v + 1000) hash_mask.
Definition mix_list (h : Z) (l : list Z) : Z := fold_left mix l h.

Fixpoint choices_from (i : Z) (ps : list (list act)) (s : state) : list action :=
  match ps with
  | [] => []
  | p :: r =>
      (match waiters s i with
       | Some w =>
           match w_t w with
           | None => if w_notified w then [(i, AWake 0)] else []
           | Some rem =>
               if w_notified w
               then (if rem =? 0 then [(i, AWake 0)] else [(i, AWake 0); (i, AWake rem)])
               else [(i, AWake rem)]
           end
       | None => match p with [] => [] | x :: _ => [(i, x)] end
       end) ++ choices_from (i + 1) r s
  end.

Fixpoint advance (ps : list (list act)) (i : Z) : list (list act) :=
  match ps with
  | [] => []
  | p :: r => if i =? 0 then tl p :: r else p :: advance r (i - 1)
  end.

Definition is_wake (x : act) : bool := match x with AWake _ => true | _ => false end.

Fixpoint explore (fuel : nat) (ps : list (list act)) (s : state) (h : Z) : Z * Z :=
  match fuel with
  | O => (-1000000, 0)                  (* out of fuel: poisons the count *)
  | S f =>
      match choices_from 0 ps s with
      | [] => (1, mix_list h (enc_final s))
      | ch =>
          fold_left
            (fun acc c =>
               match step s c with
               | Some (s', o) =>
                   let ps' := if is_wake (snd c) then ps else advance ps (fst c) in
                   let r := explore f ps' s' (mix_list h (enc_outcome o ++ [wcode s'])) in
                   (fst acc + fst r, Z.land (snd acc + snd r) hash_mask)
               | None => (fst acc - 1000000, snd acc)   (* a chosen step must be enabled *)
               end)
            ch (0, 0)
      end
  end.

Definition run_explore (ps : list (list act)) : list Z :=
  let '(c, h) := explore 400 ps init 0 in [c; h].
