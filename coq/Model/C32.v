(* C32 — model of SFTPServer._check_file (paramiko/sftp_server.py), the "check-file"
   extension, after the repair of its nested loop.  Definitions only; proofs are in
   Proofs/C32_proofs.v.

   The served file is a byte list; handle.read(offset, n) returns the bytes
   [offset, offset+n) that exist (empty at end of file); hash objects are modelled by
   the list of byte strings fed to update(), the digest being `hash` (a Section
   variable of the theorems) of their concatenation.  The loop control only depends on
   the lengths read, so the model first computes, per digest emitted, the list of reads
   (offset, requested length) that fed it (`check_trace`), then interprets the reads
   over the file (`check_file`).  The read chunk size (65536 in the source) is a
   parameter. *)
From PV Require Import Bytes C32_gen.
Open Scope Z_scope.

(* file[o, o+n) as far as it exists: the result of handle.read(o, n) *)
Definition slice (file : list Z) (o n : Z) : list Z :=
  firstn (Z.to_nat n) (skipn (Z.to_nat o) file).

(* number of bytes handle.read(offset, n) returns for a file of `size` bytes *)
Definition rdlen (size offset n : Z) : Z := Z.max 0 (Z.min n (size - offset)).

Definition read := (Z * Z)%type.          (* (offset, requested length) *)

Section Loop.
  Variable chunk : Z.                     (* 65536 *)
  Variable size : Z.                      (* st_size of the served file *)

  (* while count < blocklen:
         chunklen = min(blocklen - count, 65536)
         data = f.read(offset, chunklen)
         if len(data) == 0: eof = True; break
         hash_obj.update(data); count += len(data); offset += len(data)
     result: reads issued for this hash object, count, offset, eof *)
  Fixpoint inner (fuel : nat) (blocklen count offset : Z) (reads : list read)
    : option (list read * Z * Z * bool) :=
    if count <? blocklen then
      match fuel with
      | O => None
      | S f =>
          let chunklen := Z.min (blocklen - count) chunk in
          let n := rdlen size offset chunklen in
          if n =? 0 then Some (reads ++ [(offset, chunklen)], count, offset, true)
          else inner f blocklen (count + n) (offset + n) (reads ++ [(offset, chunklen)])
      end
    else Some (reads, count, offset, false).

  (* enough for the inner loop: one iteration per chunk of the bytes it will read, plus one *)
  Definition inner_fuel (blocklen offset : Z) : nat :=
    S (Z.to_nat ((Z.min blocklen (Z.max 0 (size - offset)) + chunk - 1) / chunk)).

  (* while offset < start + length and not eof:
         blocklen = min(block_size, start + length - offset)
         count = 0; hash_obj = alg()
         <inner loop>
         if count > 0: sum_out += hash_obj.digest()
     `stop` is start + length; `out` has one entry (the reads hashed) per digest *)
  Fixpoint outer (fuel : nat) (stop bs offset : Z) (out : list (list read))
    : option (list (list read)) :=
    if offset <? stop then
      match fuel with
      | O => None
      | S f =>
          let blocklen := Z.min bs (stop - offset) in
          match inner (inner_fuel blocklen offset) blocklen 0 offset [] with
          | None => None
          | Some (reads, count, offset', eof) =>
              let out' := if 0 <? count then out ++ [reads] else out in
              if eof then Some out' else outer f stop bs offset' out'
          end
      end
    else Some out.

  (* enough for the outer loop when block_size >= 256 (smaller ones are refused) *)
  Definition outer_fuel (stop offset : Z) : nat :=
    S (Z.to_nat ((Z.max 0 (Z.min stop size - offset) + 255) / 256)).
End Loop.

Inductive reply :=
  | Digests (l : list (list read))   (* CMD_EXTENDED_REPLY, one entry per digest *)
  | Status (code : Z)                (* _send_status(code, ...) *)
  | NoFuel.

Definition SFTP_FAILURE : Z := 4.

(* regenerated from the AST of _check_file on every run (Gen/C32_gen.v): the minimum block size
   and the read chunk size the source uses *)
Definition MIN_BLOCK : Z := gen_min_block.
Definition SOURCE_CHUNK : Z := gen_chunk.

(* effective length / block size: `if length == 0: length = st.st_size - start`,
   `if block_size == 0: block_size = length` *)
Definition eff_length (size start length : Z) : Z := if length =? 0 then size - start else length.
Definition eff_bs (size start length bs : Z) : Z := if bs =? 0 then eff_length size start length else bs.

(* _check_file for a valid handle and a supported algorithm *)
Definition check_trace (chunk size start length bs : Z) : reply :=
  let length' := eff_length size start length in
  let bs' := eff_bs size start length bs in
  if bs' <? MIN_BLOCK then Status SFTP_FAILURE     (* "Block size too small" *)
  else match outer chunk size (outer_fuel size (start + length') start) (start + length') bs' start [] with
       | None => NoFuel
       | Some t => Digests t
       end.

(* the bytes fed to one hash object *)
Definition ext_data (file : list Z) (reads : list read) : list Z :=
  flat_map (fun r => slice file (fst r) (snd r)) reads.

Inductive answer := Sums (sum_out : list Z) | Fail (code : Z) | Diverges.

Definition check_file (hash : list Z -> list Z) (chunk : Z) (file : list Z) (start length bs : Z) : answer :=
  match check_trace chunk (Z.of_nat (List.length file)) start length bs with
  | Digests t => Sums (flat_map (fun reads => hash (ext_data file reads)) t)
  | Status c => Fail c
  | NoFuel => Diverges
  end.

(* ---- specification: the consecutive blocks of the requested range ---------- *)
(* the range ends at end of file when the length is zero or runs past it *)
Definition range_stop (size start length : Z) : Z := Z.min (start + eff_length size start length) size.

Definition nblocks (start stop bs : Z) : Z :=
  if stop <=? start then 0 else (stop - start - 1) / bs + 1.

(* block i: [start + i*bs, min(start + (i+1)*bs, stop)) as (offset, length) *)
Definition block_ext (start stop bs : Z) (i : nat) : Z * Z :=
  (start + Z.of_nat i * bs, Z.min bs (stop - (start + Z.of_nat i * bs))).

Definition spec_blocks (start stop bs : Z) : list (Z * Z) :=
  map (block_ext start stop bs) (seq 0 (Z.to_nat (nblocks start stop bs))).

Definition spec_sums (hash : list Z -> list Z) (file : list Z) (start length bs : Z) : list Z :=
  let size := Z.of_nat (List.length file) in
  flat_map (fun b => hash (slice file (fst b) (snd b)))
           (spec_blocks start (range_stop size start length) (eff_bs size start length bs)).

(* ---- the loop as it was before the repair (kept to state the defect) ------- *)
(* chunklen = min(blocklen, 65536) fixed; no EOF exit; offset += count *)
Section OldLoop.
  Variable size : Z.
  Fixpoint old_inner (fuel : nat) (blocklen chunklen count offset : Z) (reads : list read)
    : option (list read * Z * Z) :=
    if count <? blocklen then
      match fuel with
      | O => None
      | S f =>
          let n := rdlen size offset chunklen in
          old_inner f blocklen chunklen (count + n) (offset + (count + n)) (reads ++ [(offset, chunklen)])
      end
    else Some (reads, count, offset).
End OldLoop.

(* ---- correspondence run ----------------------------------------------------- *)
Definition canon_reads (reads : list read) : list Z :=
  Z.of_nat (List.length reads) :: flat_map (fun r => [fst r; snd r]) reads.

Definition canon_reply (r : reply) : list Z :=
  match r with
  | Digests t => Z.of_nat (List.length t) :: flat_map canon_reads t
  | Status c => [-1; c]
  | NoFuel => [-2]
  end.

(* case: (chunk, size, start, length, block_size) *)
Definition run_check (c : Z * Z * Z * Z * Z) : list Z :=
  let '(chunk, size, start, length, bs) := c in
  canon_reply (check_trace chunk size start length bs).

(* ---- algorithm selection --------------------------------------------------------------- *)
(* for x in alg_list: if x in _hash_class: algname = x; break   else: status FAILURE.
   Names are numbers here (md5 = 1, sha1 = 2, anything else >= 10); `sup` is the server's table
   (gen_supported for the source), `req` the client's preference list. *)
Definition first_supported (sup req : list Z) : option Z :=
  find (fun x => existsb (Z.eqb x) sup) req.

(* case: (supported, requested, (chunk, size, start, length, block_size));
   output: the algorithm named in the reply, then the trace - or the status *)
Definition run_check_alg (c : list Z * list Z * (Z * Z * Z * Z * Z)) : list Z :=
  let '(sup, req, q) := c in
  match first_supported sup req with
  | None => [-1; SFTP_FAILURE]          (* "No supported hash types found" *)
  | Some a =>
      match run_check q with
      | (-1) :: r => (-1) :: r
      | t => a :: t
      end
  end.
