"""Shared machinery for every property check.

A property module `harness/cNN.py` exposes

    PID = "C39"
    def run(ctx): ...            # uses ctx.* below, returns nothing
    def replay(ctx, case): ...   # optional: re-run one recorded case

and the driver (`/verif/check`) does: regenerate Gen/*.v from the working tree ->
make the property's proof files -> compile Props/<PID>.v (fresh Print Assumptions)
-> module.run(ctx) (correspondence + implementation-level oracle) -> verdict,
evidence, replay files.
"""
import fcntl
import hashlib
import importlib
import importlib.util
import json
import os
import random
import re
import shutil
import subprocess
import sys
import tempfile
import threading
import time
import traceback

VERIF = os.path.dirname(os.path.dirname(os.path.abspath(__file__)))
REPO = os.environ.get("VERIF_REPO", "/repo")
ALLOWED_AXIOMS = {
    # standard-library axioms that may appear (each is named in DESIGN.md section 5)
    "functional_extensionality_dep",
    "FunctionalExtensionality.functional_extensionality_dep",
    "Eqdep.Eq_rect_eq.eq_rect_eq",
    "Classical_Prop.classic",
    "ProofIrrelevance.proof_irrelevance",
    "JMeq.JMeq_eq",
}


def coq_dir():
    d = os.environ.get("VERIF_COQ_DIR")
    if d:
        return d
    if os.path.realpath(REPO) == "/repo":
        return os.path.join(VERIF, "coq")
    # alternative working tree: private build directory so that /verif/coq keeps
    # describing /repo
    h = hashlib.sha1(os.path.realpath(REPO).encode()).hexdigest()[:10]
    return os.path.join(tempfile.gettempdir(), "verif-build-" + h)


COQ = coq_dir()


def setup_paths():
    """Make the working tree importable (never an installed copy)."""
    for p in (os.path.join(REPO, "tests"), REPO):
        if p in sys.path:
            sys.path.remove(p)
        sys.path.insert(0, p)
    os.environ.setdefault("PYTHONHASHSEED", "0")
    import paramiko  # noqa

    got = os.path.realpath(os.path.dirname(paramiko.__file__))
    want = os.path.realpath(os.path.join(REPO, "paramiko"))
    if got != want:
        raise RuntimeError("paramiko imported from %s, wanted %s" % (got, want))


# --------------------------------------------------------------------------
# Coq literals


def coq(v):
    """Render a Python value as a Gallina term (Z for ints, lists, pairs, options)."""
    if v is True:
        return "true"
    if v is False:
        return "false"
    if v is None:
        return "None"
    if isinstance(v, int):
        if abs(v) >= 1 << 64:
            # hexadecimal numerals parse in linear time (decimal is quadratic)
            return "(-0x%x)" % -v if v < 0 else "0x%x" % v
        return "(%d)" % v if v < 0 else "%d" % v
    if isinstance(v, (bytes, bytearray)):
        return "[" + ";".join("%d" % b for b in v) + "]"
    if isinstance(v, list):
        return "[" + ";".join(coq(x) for x in v) + "]"
    if isinstance(v, tuple):
        if len(v) == 2 and v[0] == "Some":
            return "(Some %s)" % coq(v[1])
        if len(v) >= 1 and isinstance(v[0], str) and v[0][:1].isupper():
            # constructor application ("Ctor", args...)
            if len(v) == 1:
                return v[0]
            return "(%s %s)" % (v[0], " ".join(coq(x) for x in v[1:]))
        return "(" + ", ".join(coq(x) for x in v) + ")"
    if isinstance(v, Raw):
        return v.s
    if isinstance(v, str):
        return "[" + ";".join("%d" % b for b in v.encode("utf-8")) + "]"
    raise TypeError("cannot render %r" % (v,))


class Raw:
    def __init__(self, s):
        self.s = s


# --------------------------------------------------------------------------
# comment stripping / forbidden-token scan

FORBIDDEN = re.compile(
    r"\b(Admitted|admit|Axiom|Axioms|Parameter|Parameters|Conjecture|Conjectures)\b"
    r"|Admit\s+Obligations|Unset\s+Guard|bypass_check|Unset\s+Universe\s+Checking"
    r"|Unset\s+Positivity|type-in-type|impredicative-set|Local\s+Unset\s+Guard"
)
SECTION_ONLY = re.compile(r"^\s*(Variable|Variables|Hypothesis|Hypotheses|Context)\b")


def strip_comments(src):
    out = []
    depth = 0
    i = 0
    n = len(src)
    in_str = False
    while i < n:
        c = src[i]
        if depth == 0 and c == '"':
            in_str = not in_str
            out.append(c)
            i += 1
            continue
        if not in_str and src.startswith("(*", i):
            depth += 1
            i += 2
            continue
        if not in_str and depth > 0 and src.startswith("*)", i):
            depth -= 1
            i += 2
            continue
        if depth == 0:
            out.append(c)
        elif c == "\n":
            out.append("\n")
        i += 1
    return "".join(out)


def scan_forbidden(files):
    """Return a list of 'file:line: token' for every forbidden construct."""
    bad = []
    for f in files:
        try:
            src = strip_comments(open(f).read())
        except OSError:
            continue
        depth = 0
        for ln, line in enumerate(src.split("\n"), 1):
            m = FORBIDDEN.search(line)
            if m:
                bad.append("%s:%d: %s" % (f, ln, m.group(0)))
            if re.match(r"^\s*Section\b", line):
                depth += 1
            elif re.match(r"^\s*End\b", line) and depth > 0:
                depth -= 1
            if SECTION_ONLY.match(line) and depth == 0:
                bad.append("%s:%d: %s outside a section" % (f, ln, line.strip()[:40]))
    return bad


# --------------------------------------------------------------------------
# build


class Lock:
    def __init__(self, path):
        self.path = path

    def __enter__(self):
        os.makedirs(os.path.dirname(self.path), exist_ok=True)
        self.f = open(self.path, "w")
        fcntl.flock(self.f, fcntl.LOCK_EX)
        return self

    def __exit__(self, *a):
        fcntl.flock(self.f, fcntl.LOCK_UN)
        self.f.close()


def sync_build_dir():
    """For an alternative VERIF_REPO: mirror /verif/coq into the private build dir."""
    src = os.path.join(VERIF, "coq")
    if os.path.realpath(COQ) == os.path.realpath(src):
        return
    os.makedirs(COQ, exist_ok=True)
    # Compiled files may be copied only while nothing has been built here yet: the Gen/*.vo made afterwards are
    # then newer than every copied file, so make rebuilds whatever depends on them.  On later syncs a copied
    # Model/*.vo (compiled against /repo's tables) could be newer than this directory's Gen/*.vo and would be
    # kept although "inconsistent" - so then only sources (and Lib/, which never depends on Gen) are updated.
    gen = os.path.join(COQ, "Gen")
    fresh = not (os.path.isdir(gen) and any(f.endswith(".vo") for f in os.listdir(gen)))
    cmd = ["rsync", "-a", "--update", "--exclude", "Gen/*", "--exclude", ".lock", "--exclude", "Makefile*",
           "--exclude", "_CoqProject", "--exclude", ".Makefile.d", "--exclude", "evidence/"]
    if not fresh:
        cmd += ["--include", "Lib/*", "--exclude", "*.vo", "--exclude", "*.vos", "--exclude", "*.vok",
                "--exclude", "*.glob", "--exclude", ".*.aux"]
    subprocess.run(cmd + [src + "/", COQ + "/"], check=True)


def vfiles():
    out = []
    for sub in ("Lib", "Gen", "Model", "Proofs", "Props"):
        d = os.path.join(COQ, sub)
        if os.path.isdir(d):
            for f in sorted(os.listdir(d)):
                if f.endswith(".v"):
                    out.append(sub + "/" + f)
    return out


def dep_closure(pid):
    """Source files the property's Props file depends on (via `From PV Require Import`), plus Lib and Gen."""
    index = {}
    for f in vfiles():
        index[os.path.basename(f)[:-2]] = os.path.join(COQ, f)
    todo = [pid + "_props"]
    seen = {}
    while todo:
        name = todo.pop()
        if name in seen or name not in index:
            continue
        seen[name] = index[name]
        try:
            src = strip_comments(open(index[name]).read())
        except OSError:
            continue
        for m in re.finditer(r"From\s+PV(?:\.\w+)*\s+Require\s+(?:Import|Export)?\s*([^.]*)\.", src):
            todo += m.group(1).split()
        for m in re.finditer(r"Require\s+(?:Import|Export)\s+((?:PV\.[\w.]+\s*)+)\.", src):
            todo += [x.split(".")[-1] for x in m.group(1).split()]
    return sorted(seen.values())


def needed_gens(pid):
    """Translators whose generated file the property's Props file depends on, directly or through another
    property's model / proofs (e.g. C45 uses C39's codec, whose proofs import C39_gen).  Generated files are
    never copied into a private build directory, so every one of them has to be regenerated there."""
    index = {}
    for f in vfiles():
        index[os.path.basename(f)[:-2]] = os.path.join(COQ, f)
    todo, seen, gens = [pid + "_props"], set(), []
    while todo:
        name = todo.pop()
        m = re.fullmatch(r"(C\d+)_gen", name)
        if m and m.group(1).lower() not in gens:
            gens.append(m.group(1).lower())
        if name in seen or name not in index or m:
            continue
        seen.add(name)
        try:
            src = strip_comments(open(index[name]).read())
        except OSError:
            continue
        for mm in re.finditer(r"From\s+PV(?:\.\w+)*\s+Require\s+(?:Import|Export)?\s*([^.]*)\.", src):
            todo += mm.group(1).split()
        for mm in re.finditer(r"Require\s+(?:Import|Export)\s+((?:PV\.[\w.]+\s*)+)\.", src):
            todo += [x.split(".")[-1] for x in mm.group(1).split()]
    return sorted(gens)


def write_if_changed(path, text):
    try:
        if open(path).read() == text:
            return False
    except OSError:
        pass
    os.makedirs(os.path.dirname(path), exist_ok=True)
    tmp = path + ".tmp%d" % os.getpid()
    with open(tmp, "w") as f:
        f.write(text)
    os.replace(tmp, path)
    return True


def ensure_makefile():
    text = "-Q . PV\n" + "\n".join(vfiles()) + "\n"
    changed = write_if_changed(os.path.join(COQ, "_CoqProject"), text)
    if changed or not os.path.exists(os.path.join(COQ, "Makefile")):
        subprocess.run(
            ["coq_makefile", "-f", "_CoqProject", "-o", "Makefile"],
            cwd=COQ, check=True, stdout=subprocess.DEVNULL, stderr=subprocess.DEVNULL,
        )


def run_gens(names):
    """Run translators gen/<name>.py; returns {name: error-or-None}."""
    res = {}
    gdir = os.path.join(VERIF, "gen")
    if gdir not in sys.path:
        sys.path.insert(0, gdir)
    for name in names:
        path = os.path.join(gdir, name + ".py")
        if not os.path.exists(path):
            continue
        try:
            # load by path under a distinct name: harness/cNN.py is already imported as "cNN"
            spec = importlib.util.spec_from_file_location("gen_" + name, path)
            mod = importlib.util.module_from_spec(spec)
            spec.loader.exec_module(mod)
            files = mod.generate(REPO)
            for fn, text in files.items():
                write_if_changed(os.path.join(COQ, "Gen", fn), text)
            res[name] = None
        except Exception:
            res[name] = traceback.format_exc()
    return res


def all_gen_names():
    gdir = os.path.join(VERIF, "gen")
    return sorted(
        f[:-3] for f in os.listdir(gdir)
        if re.match(r"^c\d+\.py$", f) or f == "tables.py"
    ) if os.path.isdir(gdir) else []


def make(targets, timeout=600, jobs=None):
    jobs = jobs or int(os.environ.get("VERIF_JOBS", "8"))
    cmd = ["timeout", str(timeout), "make", "-j%d" % jobs] + targets
    p = subprocess.run(cmd, cwd=COQ, stdout=subprocess.PIPE, stderr=subprocess.STDOUT, text=True)
    return p.returncode, p.stdout, " ".join(cmd)


def coqc(path, timeout=600, cwd=None):
    cmd = ["timeout", str(timeout), "coqc", "-Q", COQ, "PV", path]
    p = subprocess.run(cmd, cwd=cwd or COQ, stdout=subprocess.PIPE, stderr=subprocess.STDOUT, text=True)
    return p.returncode, p.stdout, " ".join(cmd)


def parse_assumptions(out):
    """Split coqc output of a Props file into per-Print-Assumptions blocks."""
    blocks = []
    cur = None
    for line in out.split("\n"):
        if line.startswith("Closed under the global context"):
            blocks.append([])
            cur = None
        elif line.startswith("Axioms:"):
            cur = []
            blocks.append(cur)
        elif cur is not None:
            m = re.match(r"^([A-Za-z_][\w.']*)\s*:", line)
            if m:
                cur.append(m.group(1))
            elif line and not line.startswith(" "):
                cur = None
    return blocks


class ProofResult:
    def __init__(self):
        self.ok = False
        self.obligations = 0
        self.discharged = 0
        self.theorems = []
        self.axioms = []
        self.cmds = []
        self.log = ""
        self.broken = None  # description of what no longer checks
        self.model_ok = False


def build_proofs(pid, gens=None, extra_targets=()):
    """Regenerate Gen files, build Proofs/<pid>.vo, compile Props/<pid>.v."""
    r = ProofResult()
    with Lock(os.path.join(COQ, ".lock")):
        sync_build_dir()
        gens = list(gens) if gens is not None else [pid.lower()]
        gens += [g for g in needed_gens(pid) if g not in gens]
        gres = run_gens(gens)
        for g, err in gres.items():
            if err:
                r.broken = "translator gen/%s.py failed (fail-closed):\n%s" % (g, err)
                r.log += r.broken
        ensure_makefile()
        bad = scan_forbidden(dep_closure(pid))
        if bad:
            r.broken = (r.broken or "") + "forbidden constructs: " + "; ".join(bad)
        props = os.path.join(COQ, "Props", pid + "_props.v")
        src = strip_comments(open(props).read())
        r.theorems = re.findall(r"^\s*(?:Theorem|Lemma|Corollary)\s+([\w']+)", src, re.M)
        r.obligations = len(r.theorems)
        nprint = len(re.findall(r"Print\s+Assumptions", src))
        # model first (so correspondence can run even when a proof breaks)
        targets = []
        for sub, suf in (("Model", ""), ("Proofs", "_proofs")):
            if os.path.exists(os.path.join(COQ, sub, pid + suf + ".v")):
                targets.append("%s/%s%s.vo" % (sub, pid, suf))
        targets += list(extra_targets)
        rc, out, cmd = make(targets[:1]) if targets else (0, "", "")
        r.cmds.append(cmd)
        r.model_ok = rc == 0
        r.log += out[-4000:]
        if rc != 0:
            r.broken = (r.broken or "") + "\nmodel does not compile: " + out[-1500:]
            return r
        if len(targets) > 1:
            rc, out, cmd = make(targets[1:])
            r.cmds.append(cmd)
            r.log += out[-4000:]
            if rc != 0:
                m = re.search(r'File "([^"]+)", line (\d+)', out)
                r.broken = (r.broken or "") + "\nproof no longer checks: %s\n%s" % (
                    m.group(0) if m else "?", out[-1500:])
                return r
        rc, out, cmd = coqc("Props/%s_props.v" % pid)
        r.cmds.append(cmd)
        r.log += out[-4000:]
        if rc != 0:
            r.broken = (r.broken or "") + "\nProps/%s_props.v no longer checks: %s" % (pid, out[-1500:])
            return r
    blocks = parse_assumptions(out)
    axioms = sorted({a for b in blocks for a in b})
    r.axioms = axioms
    notallowed = [a for a in axioms if a not in ALLOWED_AXIOMS and a.split(".")[-1] not in ALLOWED_AXIOMS]
    if len(blocks) < r.obligations or nprint < r.obligations:
        r.broken = (r.broken or "") + "\nmissing Print Assumptions (%d theorems, %d reports)" % (
            r.obligations, len(blocks))
    elif notallowed:
        r.broken = (r.broken or "") + "\nunexpected axioms: %s" % notallowed
    if not r.broken:
        r.ok = True
        r.discharged = r.obligations
    return r


# --------------------------------------------------------------------------
# evaluating the model inside Coq


def _parse_zlist(out):
    m = re.search(r"=\s*(\[.*?\])\s*:\s*list", out, re.S)
    if not m:
        raise RuntimeError("cannot parse coqc output: " + out[-800:])
    return [int(x) for x in re.findall(r"-?\d+", m.group(1))]


def coq_mismatches(imports, run_fn, case_type, cases, shard=150, jobs=None, scratch=None):
    """cases: list of (coq_input_text, expected_list_of_ints).

    Evaluates `run_fn input` with vm_compute inside Coq for every case and returns the
    sorted list of indices whose output differs from `expected`.  The very definitions
    the theorems are about are what runs (no extraction)."""
    if not cases:
        return []
    jobs = jobs or int(os.environ.get("VERIF_JOBS", "8"))
    own = scratch is None
    scratch = scratch or tempfile.mkdtemp(prefix="verif-cases-")
    try:
        files = []
        for k in range(0, len(cases), shard):
            chunk = cases[k:k + shard]
            name = "cases_%d" % (k // shard)
            body = ["From PV Require Import Bytes.", imports, "Open Scope Z_scope.",
                    "Definition cases : list (%s * list Z) := [" % case_type]
            body.append(";\n".join("(%s, %s)" % (c, coq(list(e))) for c, e in chunk))
            body.append("].")
            body.append("Eval vm_compute in (mismatches %s cases)." % run_fn)
            p = os.path.join(scratch, name + ".v")
            open(p, "w").write("\n".join(body) + "\n")
            files.append((k, p))
        results = {}
        errs = []

        def work(item):
            k, p = item
            rc, out, _ = coqc(p, timeout=300, cwd=scratch)
            if rc != 0:
                errs.append("rc=%d %s" % (rc, out[-1500:]))
                return
            results[k] = _parse_zlist(out)

        threads = []
        sem = threading.Semaphore(jobs)

        def guarded(item):
            with sem:
                work(item)

        for it in files:
            t = threading.Thread(target=guarded, args=(it,))
            t.start()
            threads.append(t)
        for t in threads:
            t.join()
        if errs:
            raise RuntimeError("coqc failed on a case file: " + errs[0])
        bad = []
        for k, idxs in results.items():
            bad += [k + i for i in idxs]
        return sorted(bad)
    finally:
        if own:
            shutil.rmtree(scratch, ignore_errors=True)


def coq_eval(imports, expr):
    """Evaluate a closed `list Z` expression inside Coq; returns list of ints."""
    scratch = tempfile.mkdtemp(prefix="verif-eval-")
    try:
        p = os.path.join(scratch, "ev.v")
        open(p, "w").write("From PV Require Import Bytes.\n%s\nOpen Scope Z_scope.\nEval vm_compute in (%s).\n" % (imports, expr))
        rc, out, _ = coqc(p, cwd=scratch)
        if rc != 0:
            raise RuntimeError(out[-1500:])
        return _parse_zlist(out)
    finally:
        shutil.rmtree(scratch, ignore_errors=True)


# --------------------------------------------------------------------------
# watchdog


def with_watchdog(fn, timeout=3.0):
    """Run fn() in a daemon thread; returns ('ok', value) | ('exc', exception) | ('hang', None)."""
    box = {}

    def target():
        try:
            box["v"] = fn()
        except BaseException as e:  # noqa
            box["e"] = e

    t = threading.Thread(target=target, daemon=True)
    t.start()
    t.join(timeout)
    if t.is_alive():
        return ("hang", None)
    if "e" in box:
        return ("exc", box["e"])
    return ("ok", box.get("v"))


# --------------------------------------------------------------------------
# context: verdict, evidence, replays, known findings


def jsonable(v):
    if isinstance(v, (bytes, bytearray)):
        return {"hex": bytes(v).hex()}
    if isinstance(v, dict):
        return {str(k): jsonable(x) for k, x in v.items()}
    if isinstance(v, (list, tuple)):
        return [jsonable(x) for x in v]
    if isinstance(v, (int, float, str, bool)) or v is None:
        return v
    return repr(v)


class Ctx:
    def __init__(self, pid, tier, seed):
        self.pid = pid
        self.tier = tier
        self.seed = seed
        self.rng = random.Random("%s-%d" % (pid, seed))
        self.repo = REPO
        self.t0 = time.time()
        self.proof = None
        self.evaluations = 0
        self.nontrivial = set()
        self.samples = []
        self.rule = ""
        self.dist = {}
        self.violations = []       # (key, replay dict)
        self.known_hits = []
        self.corr_broken = []      # descriptions of correspondence disagreements
        self.traces = 0
        self.assumptions = []
        self.trusted = []
        self.notes = []
        self.exhaustive = False
        kf = json.load(open(os.path.join(VERIF, "known_findings.json")))
        self.known = {f["key"]: f for f in kf.get("findings", []) if f["property"] == pid}
        self.thorough = tier == "thorough"

    # -- bookkeeping -------------------------------------------------------
    def count(self, case_repr, nontrivial=True, kind=None):
        """Count one evaluated case; distinctness by hash of its repr."""
        self.evaluations += 1
        if nontrivial:
            self.nontrivial.add(hashlib.sha1(repr(case_repr).encode()).digest()[:8])
        if kind is not None:
            self.dist[kind] = self.dist.get(kind, 0) + 1

    def sample(self, s):
        if len(self.samples) < 5:
            self.samples.append(jsonable(s))

    def log(self, *a):
        print("[%s] " % self.pid + " ".join(str(x) for x in a), flush=True)

    # -- proofs ------------------------------------------------------------
    def prove(self, gens=None, extra_targets=()):
        self.proof = build_proofs(self.pid, gens, extra_targets)
        if self.proof.ok and self.thorough and os.environ.get("VERIF_COQCHK", "1") == "1":
            cmd = ["timeout", "900", "coqchk", "-silent", "-o", "-Q", COQ, "PV", "PV.Props.%s_props" % self.pid]
            p = subprocess.run(cmd, cwd=COQ, stdout=subprocess.PIPE, stderr=subprocess.STDOUT, text=True)
            self.proof.cmds.append(" ".join(cmd))
            tail = p.stdout[-1500:]
            self.notes.append("coqchk -o: rc=%d; %s" % (p.returncode, tail[tail.find("CONTEXT SUMMARY"):][:1200]))
            if p.returncode != 0:
                self.proof.ok = False
                self.proof.discharged = 0
                self.proof.broken = "coqchk rejected the compiled files: " + tail
        if self.proof.ok:
            self.log("proofs: %d/%d theorems checked; axioms: %s" % (
                self.proof.discharged, self.proof.obligations, self.proof.axioms or "none"))
        else:
            self.log("proofs: BROKEN -", (self.proof.broken or "").strip()[:600])
        return self.proof

    # -- model -------------------------------------------------------------
    def model_mismatches(self, run_fn, case_type, cases, imports=None, shard=150):
        imports = imports or "From PV Require Import %s." % self.pid
        if self.proof is not None and not self.proof.model_ok:
            self.corr_broken.append("model does not compile; correspondence not run")
            return []
        t = time.time()
        r = coq_mismatches(imports, run_fn, case_type, cases, shard=shard)
        self.log("model %s on %d cases: %d mismatches (%.1fs)" % (run_fn, len(cases), len(r), time.time() - t))
        return r

    # -- failures ----------------------------------------------------------
    def fail(self, key, what, case=None, expected=None, observed=None, kind="failing-input"):
        """An implementation-level failure of the property (a concrete failing input)."""
        if key in self.known:
            if key not in self.known_hits:
                self.known_hits.append(key)
            return
        self.violations.append((key, {
            "property": self.pid, "kind": kind, "key": key, "what": what, "seed": self.seed,
            "case": jsonable(case), "expected": jsonable(expected), "observed": jsonable(observed),
            "how": "./check %s --replay <this file>" % self.pid}))

    def disagree(self, what, case=None, model=None, impl=None):
        """Model and implementation differ on a case (correspondence broken)."""
        self.corr_broken.append({"what": what, "case": jsonable(case), "model": jsonable(model),
                                 "impl": jsonable(impl)})

    # -- finish ------------------------------------------------------------
    def finish(self):
        os.makedirs(os.path.join(VERIF, "replays"), exist_ok=True)
        # evidence committed under /verif describes /repo only; a VERIF_REPO run keeps its own
        evdir = os.path.join(VERIF, "evidence") if os.path.realpath(REPO) == "/repo" else os.path.join(COQ, "evidence")
        os.makedirs(evdir, exist_ok=True)
        lines = []
        nviol = 0
        for key in self.known_hits:
            lines.append("KNOWN-FINDING: property=%s %s" % (self.pid, self.known[key].get("what", key)))
        seen = set()
        for key, rep in self.violations:
            if key in seen:
                continue
            seen.add(key)
            h = hashlib.sha1(json.dumps(rep, sort_keys=True).encode()).hexdigest()[:10]
            path = os.path.join(VERIF, "replays", "%s-%s.json" % (self.pid, h))
            json.dump(rep, open(path, "w"), indent=1)
            lines.append("VIOLATION property=%s replay=%s" % (self.pid, path))
            nviol += 1
        broken = []
        if self.proof is not None and not self.proof.ok:
            broken.append({"obligation": (self.proof.broken or "").strip()[:3000]})
        for c in self.corr_broken[:5]:
            broken.append({"correspondence": c})
        if broken and nviol == 0:
            rep = {"property": self.pid, "kind": "broken-obligation-or-correspondence",
                   "seed": self.seed, "broken": broken,
                   "note": "no concrete failing input was found by the implementation-level search",
                   "how": "./check %s --tier %s" % (self.pid, self.tier)}
            h = hashlib.sha1(json.dumps(rep, sort_keys=True).encode()).hexdigest()[:10]
            path = os.path.join(VERIF, "replays", "%s-%s.json" % (self.pid, h))
            json.dump(rep, open(path, "w"), indent=1)
            lines.append("VIOLATION property=%s replay=%s no-failing-input-found" % (self.pid, path))
            nviol += 1
        wall = time.time() - self.t0
        pr = self.proof
        cov = {
            "obligations": pr.obligations if pr else 0,
            "discharged": pr.discharged if pr else 0,
            "checker_cmd": " && ".join(c for c in (pr.cmds if pr else []) if c) or "none",
            "trusted_base": [
                "Coq 8.16.1 kernel incl. vm_compute (no native_compute)",
                "axioms reported by Print Assumptions this run: %s" % (", ".join(pr.axioms) if pr and pr.axioms else "none (closed under the global context)"),
                "correspondence harness harness/%s.py + harness/common.py (Python), CPython" % self.pid.lower(),
            ] + self.trusted,
            "theorems": pr.theorems if pr else [],
            "evaluations": self.evaluations,
            "distinct_nontrivial": len(self.nontrivial),
            "rule": self.rule,
            "samples": self.samples or ["(no samples recorded)"],
            "traces_validated_against_impl": self.traces or self.evaluations,
            "input_distribution": self.dist,
            "known_findings_replayed": self.known_hits,
            "correspondence_disagreements": len(self.corr_broken),
            "exhaustive": self.exhaustive,
            "notes": self.notes,
        }
        ev = {"property_id": self.pid, "tier": self.tier, "seed": self.seed, "level": "proof",
              "coverage": cov, "assumptions": self.assumptions, "wall_s": round(wall, 2),
              "violations": nviol}
        json.dump(ev, open(os.path.join(evdir, self.pid + ".json"), "w"), indent=1)
        for ln in lines:
            print(ln, flush=True)
        self.log("done in %.1fs: %d evaluations (%d distinct non-trivial), %d violation(s), %d known finding(s)" % (
            wall, self.evaluations, len(self.nontrivial), nviol, len(self.known_hits)))
        return 1 if nviol else 0
