"""C01 — the encrypted packet layer delivers exactly the sent message stream.

Proof: coq/Props/C01_props.v over coq/Model/C01.v (shared with C02).
Tie: real paramiko.packet.Packetizer objects over in-memory sockets with toy engines
injected through set_outbound_cipher / set_inbound_cipher; exact wire bytes per message
and the (cmd, payload) the peer returns are compared with the model's own definitions
(vm_compute inside Coq) under random read fragmentation, key switches, seqno resets/wrap.
Search oracle: the same runs with the real ciphers / MACs / zlib for every suite of
Transport._cipher_info x _mac_info: received list == sent list.
"""
import os
import struct

from common import coq

PID = "C01"
LEVEL_TEXT = ("Machine-checked proof (Coq, closed under the global context) over an executable model of "
              "Packetizer.send_message/_build_packet/read_message/read_all/_inc_iv_counter that, for every "
              "block size >= 8, MAC size, classic / encrypt-then-MAC / AEAD / cleartext framing, compression "
              "on or off, any sequence of messages, key switches and seqno resets, a receiver keyed like the "
              "sender decodes exactly the sent payloads in order with nothing left over and with equal sequence "
              "numbers (mod 2^32), for every chunking of the byte stream and every placement of socket timeouts "
              "(re-key pending or not), that a strict prefix of a packet blocks, that write_all hands the socket "
              "exactly the packet for every script of partial sends / timeouts / EAGAIN, and that AEAD nonces of "
              "a key epoch are pairwise distinct; cipher/AEAD/zlib laws are explicit premises. The model is tied to packet.py by a "
              "differential run of real Packetizer objects with toy engines against the model every run; the "
              "real primitives are exercised by an implementation-level round-trip search over all suites.")
LEVEL_NOTE = ("Trusted: Coq kernel + vm_compute; hand-written model coq/Model/C01.v, tied to the source by (a) "
              "gen/c01.py -> coq/Gen/C01_gen.v (tables, seqno mask, IV increment, read sizes, read_all / write_all "
              "loop shapes; C01_source_* theorems re-proved every run) and (b) the correspondence run; primitive laws (cipher inversion on block multiples, AEAD inversion, "
              "zlib tracking) are premises, tested not proved for the real libraries; re-key accounting "
              "(need_rekey, C10), keepalive and logging are outside the model.")
TECHNIQUE = "fail-closed AST translator gen/c01.py (cipher/MAC/compression tables, seqno mask, IV increment, read sizes, read_all/write_all loop shapes) + Coq proof (reader-monad simulation + induction over op lists) + vm_compute differential correspondence + real-cipher search"


# --------------------------------------------------------------------------
# toy primitives: identical to the Gallina definitions at the end of coq/Model/C01.v


class ToyCipher:
    def __init__(self, key, window, decrypt):
        self.key = key
        self.win = list(window)
        self.decrypt = decrypt

    def update(self, data):
        out = bytearray()
        for x in data:
            w0 = self.win[0] if self.win else 0
            if self.decrypt:
                c = x
                out.append((c - w0 - self.key) % 256)
            else:
                c = (x + w0 + self.key) % 256
                out.append(c)
            self.win = self.win[1:] + [c]
        return bytes(out)


class ToyHash:
    digest_size = 8
    block_size = 16
    name = "toyhash"

    def __init__(self, data=b""):
        self.h1 = 7
        self.h2 = 13
        if data:
            self.update(data)

    def update(self, data):
        h1, h2 = self.h1, self.h2
        for b in bytes(data):
            h1 = (h1 * 31 + b + 1) % 2 ** 32
            h2 = (h2 * 17 + h1 + b) % 2 ** 32
        self.h1, self.h2 = h1, h2

    def digest(self):
        return self.h1.to_bytes(4, "big") + self.h2.to_bytes(4, "big")

    def copy(self):
        c = ToyHash()
        c.h1, c.h2 = self.h1, self.h2
        return c


class ToyAead:
    def __init__(self, key):
        self.key = key

    def _ks(self, iv):
        a = 0
        for b in iv:
            a = (a * 3 + b) % 65521
        return self.key + a

    def _tag(self, iv, aad, ct):
        acc = 5381
        for b in bytes(iv) + bytes(aad) + bytes(ct):
            acc = (acc * 33 + b + self.key + 1) % 2 ** 32
        out = b""
        for _ in range(4):
            out += acc.to_bytes(4, "big")
            acc = (acc * 1103515245 + 12345) % 2 ** 32
        return out

    def encrypt(self, iv, data, aad):
        k = self._ks(iv)
        ct = bytes((p + k + 7 * i) % 256 for i, p in enumerate(data))
        return ct + self._tag(iv, aad, ct)

    def decrypt(self, iv, data, aad):
        from cryptography.exceptions import InvalidTag
        if len(data) < 16:
            raise InvalidTag()
        ct, tag = data[:-16], data[-16:]
        if tag != self._tag(iv, aad, ct):
            raise InvalidTag()
        k = self._ks(iv)
        return bytes((c - k - 7 * i) % 256 for i, c in enumerate(ct))


class ToyZError(Exception):
    pass


class ToyComp:
    def __init__(self, z):
        self.z = z

    def __call__(self, data):
        out = bytes([self.z % 256]) + bytes((b + self.z) % 256 for b in data)
        self.z += 1
        return out


class ToyDecomp:
    def __init__(self, z):
        self.z = z

    def __call__(self, data):
        if len(data) == 0 or data[0] != self.z % 256:
            raise ToyZError()
        out = bytes((b - self.z) % 256 for b in data[1:])
        self.z += 1
        return out


# --------------------------------------------------------------------------
# sockets and randomness


class CaptureSocket:
    def __init__(self):
        self.sent = []

    def send(self, data):
        self.sent.append(bytes(data))
        return len(data)

    def settimeout(self, t):
        pass

    def close(self):
        pass


class FragSocket:
    """recv(n) returns at most n bytes of the next chunk; b"" (EOF) when nothing is left."""

    def __init__(self, chunks=()):
        self.chunks = [bytes(c) for c in chunks if len(c)]

    def feed(self, chunks):
        self.chunks += [bytes(c) for c in chunks if len(c)]

    def recv(self, n):
        if not self.chunks:
            return b""
        c = self.chunks[0]
        out = c[:n]
        if len(c) <= n:
            self.chunks.pop(0)
        else:
            self.chunks[0] = c[n:]
        return out

    def settimeout(self, t):
        pass

    def close(self):
        pass


class EventSocket:
    """Socket oracle with timeouts: events are byte chunks or None (recv raises socket.timeout).
    recv(n) returns at most n bytes of the next chunk; b"" (EOF) when no events are left."""

    def __init__(self, events):
        self.events = [e if e is None else bytes(e) for e in events if e is None or len(e)]

    def recv(self, n):
        import socket
        if not self.events:
            return b""
        e = self.events[0]
        if e is None:
            self.events.pop(0)
            raise socket.timeout()
        out = e[:n]
        if len(e) <= n:
            self.events.pop(0)
        else:
            self.events[0] = e[n:]
        return out

    def settimeout(self, t):
        pass

    def close(self):
        pass


def gen_events(rng, wire, bs):
    """Chunk the wire and sprinkle timeouts, often in the middle of a packet's first block."""
    events = []
    i = 0
    style = rng.randrange(3)
    while i < len(wire):
        if style == 0:
            n = rng.choice([1, 2, 3, 4, 5, 7, bs - 1, bs, bs + 1])
        elif style == 1:
            n = rng.randrange(1, 2 * bs + 2)
        else:
            n = rng.choice([1, 3, 64, 1000])
        events.append(wire[i:i + n])
        i += n
        if rng.random() < 0.6:
            events += [None] * rng.choice([1, 1, 2])
    if rng.random() < 0.5:
        events = [None] * rng.randrange(1, 3) + events
    return events


def read_until_stop_rekey(p, limit=100000):
    """The run loop of Transport.run: NeedRekeyException is noted and reading continues.
    Returns (payloads, rekey notices, final code list)."""
    from paramiko.packet import NeedRekeyException
    got = []
    notices = 0
    for _ in range(limit):
        try:
            cmd, msg = p.read_message()
        except NeedRekeyException:
            notices += 1
            continue
        except BaseException as e:  # noqa
            return got, notices, exc_code(e)
        got.append(bytes([cmd]) + msg.asbytes())
    return got, notices, [-3]


def coq_events(events):
    return "[" + ";".join("STimeout" if e is None else "(SData %s)" % coq(list(e)) for e in events) + "]"


def run_toy_timeouts(ctx, rng):
    """Honest toy stream read through a socket with timeouts while need_rekey may be pending."""
    from paramiko.packet import Packetizer
    cfg = gen_cfg(rng, modes=(0, 1, 1, 2, 2, 3, 3))
    seq0 = rng.choice([0, 1, rng.randrange(2 ** 32), 2 ** 32 - 2])
    cap = CaptureSocket()
    s = Packetizer(cap)
    s._initial_kex_done = True
    s._Packetizer__sequence_number_out = seq0
    install_out(s, cfg)
    payloads = [gen_payload(rng, cfg["bs"], 80) for _ in range(rng.randrange(1, 6))]
    sent_ok = []
    with PinnedUrandom(rng):
        for pl in payloads:
            try:
                s.send_message(mkmsg(pl))
            except OverflowError:      # AEAD invocation counter exhausted: nothing more is sent
                break
            sent_ok.append(pl)
    payloads = sent_ok
    wire = b"".join(cap.sent)
    if rng.random() < 0.15 and len(wire) > 1:
        wire = wire[:rng.randrange(1, len(wire))]          # truncated stream: blocks at the end
        payloads = None
    events = gen_events(rng, wire, cfg["bs"])
    nr = rng.random() < 0.7
    r = Packetizer(EventSocket(events))
    r._initial_kex_done = True
    r._Packetizer__sequence_number_in = seq0
    install_in(r, cfg)
    r._Packetizer__need_rekey = nr
    got, notices, fin = read_until_stop_rekey(r)
    out = []
    for g in got:
        out += [len(g)] + list(g)
    out += [-4, notices] + fin
    ev_desc = ["T" if e is None else e.hex() for e in events]
    desc = {"cfg": cfg, "seq0": seq0, "need_rekey": nr, "events": ev_desc,
            "sent": None if payloads is None else [p.hex() for p in payloads]}
    mname = MODE_NAMES[cfg["mode"]]
    if payloads is not None and (got != payloads or fin != [-1]):
        ctx.fail("timeout-rekey-loss-" + mname,
                 "socket timeouts in the middle of a packet (re-key pending: %s) lost or corrupted the message "
                 "stream" % nr, case=desc, expected=[p.hex() for p in payloads],
                 observed={"delivered": [g.hex() for g in got], "rekey_notices": notices, "fin": fin})
    ctx.count(("toy-timeout", repr(cfg), seq0, nr, ev_desc), kind="toy-timeout-%s-%s" % (mname, "rekey" if nr else "idle"))
    case = "(%s, true, %s, %s, %s)" % (coq(seq0), coq_cfg(cfg), coq(nr), coq_events(r_events_copy(events)))
    return case, out, desc


def r_events_copy(events):
    return [e for e in events if e is None or len(e)]


def real_timeouts(ctx, rng, suite, zlib_on):
    """Real primitives, timeouts inside packets, need_rekey raised by lowered thresholds (as in a session)."""
    from paramiko.packet import Packetizer
    from paramiko.transport import Transport
    keys = real_keys(rng, suite)
    cap = CaptureSocket()
    s = Packetizer(cap)
    s._initial_kex_done = True
    real_install(s, suite, keys, True, zlib_on)
    payloads = [bytes([rng.randrange(1, 256)]) + rng.randbytes(rng.randrange(0, 60)) for _ in range(12)]
    for pl in payloads:
        s.send_message(mkmsg(pl))
    wire = b"".join(cap.sent)
    bs = Transport._cipher_info[suite[0]]["block-size"]
    events = gen_events(rng, wire, bs)
    r = Packetizer(EventSocket(events))
    r._initial_kex_done = True
    r.REKEY_BYTES = rng.choice([1, 200, 400])       # instance attribute: decide to re-key after a few packets
    real_install(r, suite, keys, False, zlib_on)
    got, notices, fin = read_until_stop_rekey(r)
    ctx.count(("real-timeout", suite, zlib_on, [None if e is None else len(e) for e in events]),
              kind="real-timeout-" + suite_kind(suite))
    if got != payloads or fin != [-1]:
        ctx.fail("timeout-rekey-loss-real-" + suite_kind(suite),
                 "socket timeouts in the middle of a packet while a re-key is pending lost or corrupted the "
                 "message stream",
                 case={"suite": list(suite), "zlib": zlib_on, "keys": keys, "rekey_bytes": r.REKEY_BYTES,
                       "events": ["T" if e is None else e.hex() for e in events],
                       "sent": [p.hex() for p in payloads]},
                 expected={"count": len(payloads), "fin": [-1]},
                 observed={"count": len(got), "rekey_notices": notices, "fin": fin})


class ScriptedSendSocket:
    """send() follows a script: ("send", k) accepts min(k, len) bytes, "timeout" raises socket.timeout,
    "eagain" raises socket.error(EAGAIN), "error" raises socket.error(EPIPE); exhausted: accepts everything."""

    def __init__(self, events):
        self.events = list(events)
        self.wire = bytearray()

    def send(self, data):
        import errno
        import socket
        if not self.events:
            self.wire += data
            return len(data)
        e = self.events.pop(0)
        if e == "timeout":
            raise socket.timeout()
        if e == "eagain":
            raise socket.error(errno.EAGAIN, "try again")
        if e == "error":
            raise socket.error(errno.EPIPE, "broken pipe")
        k = min(e[1], len(data))
        self.wire += data[:k]
        return k

    def settimeout(self, t):
        pass

    def close(self):
        pass


def gen_send_events(rng, total):
    evs = []
    for _ in range(rng.randrange(0, 14)):
        k = rng.randrange(12)
        if k < 6:
            evs.append(("send", rng.choice([0, 1, 2, 3, 5, 8, 16, rng.randrange(0, max(1, total) + 2), total])))
        elif k < 9:
            evs.append("timeout")
        elif k < 11:
            evs.append("eagain")
        else:
            evs.append("error")
    if rng.random() < 0.1:
        evs = [("send", 0)] * 12 + evs          # the zero-return counter
    return evs


def coq_send_events(evs):
    m = {"timeout": "WTimeout", "eagain": "WEagain", "error": "WError"}
    return "[" + ";".join(m[e] if isinstance(e, str) else "(WSend %d)" % e[1] for e in evs) + "]"


def run_write_all(ctx, rng):
    """Packetizer.write_all (directly, or through send_message) over a scripted socket."""
    from paramiko.packet import Packetizer
    through_send = rng.random() < 0.4
    if through_send:
        cfg = gen_cfg(rng)
        cfg["iv"] = cfg["iv"][:4] + [0] * 8
        cap = CaptureSocket()
        ref = Packetizer(cap)
        ref._initial_kex_done = True
        install_out(ref, cfg)
        payload = gen_payload(rng, cfg["bs"], 120)
        st = rng.getstate()
        with PinnedUrandom(rng):
            ref.send_message(mkmsg(payload))
        data = b"".join(cap.sent)               # the packet write_all must put on the wire
    else:
        data = bytes(rng.randrange(256) for _ in range(rng.choice([1, 2, 7, 16, 40, rng.randrange(1, 200)])))
    evs = gen_send_events(rng, len(data))
    sock = ScriptedSendSocket(evs)
    p = Packetizer(sock)
    p._initial_kex_done = True
    ok = 0
    if through_send:
        install_out(p, cfg)
        rng.setstate(st)
        with PinnedUrandom(rng):
            try:
                p.send_message(mkmsg(payload))
            except EOFError:
                ok = 1
    else:
        try:
            p.write_all(data)
        except EOFError:
            ok = 1
    wire = bytes(sock.wire)
    desc = {"packet": data.hex(), "events": [e if isinstance(e, str) else list(e) for e in evs],
            "through_send_message": through_send}
    if (ok == 0 and wire != data) or (ok == 1 and data[:len(wire)] != wire):
        ctx.fail("write-all-loss", "write_all did not hand the socket exactly the packet bytes in order "
                 "(partial send followed by timeout/EAGAIN)", case=desc,
                 expected=data.hex() if ok == 0 else "a prefix of " + data.hex(),
                 observed={"wire": wire.hex(), "raised_eof": bool(ok)})
    ctx.count(("write", data, repr(evs)), nontrivial=len(evs) > 0, kind="write-all" + ("-send" if through_send else ""))
    return "(%s, %s)" % (coq(list(data)), coq_send_events(evs)), [len(wire)] + list(wire) + [ok], desc


def safe_mismatches(ctx, *a, **kw):
    """Model evaluation must never prevent the implementation-level oracles from running."""
    try:
        return ctx.model_mismatches(*a, **kw)
    except Exception as e:  # noqa
        ctx.corr_broken.append({"what": "model evaluation failed", "error": repr(e)[-1500:]})
        return []


class PinnedUrandom:
    """os.urandom replaced by draws from the seeded rng; logs what each call returned."""

    def __init__(self, rng):
        self.rng = rng
        self.log = []

    def __enter__(self):
        self.real = os.urandom
        os.urandom = self.urandom
        return self

    def __exit__(self, *a):
        os.urandom = self.real

    def urandom(self, n):
        b = bytes(self.rng.randrange(256) for _ in range(n))
        self.log.append(b)
        return b


def chunk_like_model(sizes, data):
    out = []
    sizes = list(sizes)
    while len(data) > 0:
        if not sizes:
            out.append(data)
            break
        n = sizes.pop(0)
        k = max(1, min(n, len(data)))
        out.append(data[:k])
        data = data[k:]
    return out


def exc_code(e):
    from paramiko.ssh_exception import SSHException
    from cryptography.exceptions import InvalidTag
    import zlib
    if isinstance(e, EOFError):
        return [-1]
    if isinstance(e, SSHException):
        return [-2, 1]
    if isinstance(e, InvalidTag):
        return [-2, 101]
    if isinstance(e, OverflowError):
        return [-2, 102]
    if isinstance(e, (ToyZError, zlib.error)):
        return [-2, 103]
    if isinstance(e, IndexError):
        return [-2, 8]
    if isinstance(e, TypeError):
        return [-2, 10]
    if isinstance(e, struct.error):
        return [-2, 12]
    return [-2, 999, type(e).__name__]


def mkmsg(payload):
    from paramiko.message import Message
    m = Message()
    m.add_bytes(payload)
    return m


def read_until_stop(p, limit=100000):
    """Returns (list of payload bytes, final code list)."""
    got = []
    for _ in range(limit):
        try:
            cmd, msg = p.read_message()
        except BaseException as e:  # noqa
            return got, exc_code(e)
        got.append(bytes([cmd]) + msg.asbytes())
    return got, [-3]


# --------------------------------------------------------------------------
# toy configurations

MODE_NAMES = {0: "plain", 1: "classic", 2: "etm", 3: "aead"}


def gen_cfg(rng, modes=(0, 1, 1, 2, 2, 3, 3)):
    mode = rng.choice(modes)
    bs = rng.choice([8, 8, 16, 16, 32])
    msz = rng.choice([4, 6, 8, 8])
    if mode == 0:
        bs, msz = 8, 0
    if mode == 3:
        msz = 16
    if mode == 1 and rng.random() < 0.08:
        msz = 0
    ckey = rng.randrange(256)
    civ = [rng.randrange(256) for _ in range(rng.choice([bs, bs, 1, 3]))]
    mk = [rng.randrange(256) for _ in range(rng.choice([8, 16, 5, 20]))]
    ak = rng.randrange(1000)
    iv = [rng.randrange(256) for _ in range(12)]
    if rng.random() < 0.3:
        iv = iv[:4] + [255] * 7 + [rng.choice([253, 254, 255])]     # counter about to overflow
    sdctr = rng.random() < 0.3
    comp = rng.randrange(600) if rng.random() < 0.35 else None
    return dict(mode=mode, bs=bs, msz=msz, ckey=ckey, civ=civ, mk=mk, ak=ak, iv=iv, sdctr=sdctr, comp=comp)


def coq_cfg(c):
    return coq(("Cfg", c["mode"], c["bs"], c["msz"], c["ckey"], list(c["civ"]), list(c["mk"]), c["ak"],
                list(c["iv"]), bool(c["sdctr"]), None if c["comp"] is None else ("Some", c["comp"])))


def install_out(p, c):
    m = c["mode"]
    if m == 0:
        p.set_outbound_cipher(None, c["bs"], None, c["msz"], bytes(), sdctr=c["sdctr"])
    elif m == 3:
        p.set_outbound_cipher(ToyAead(c["ak"]), c["bs"], None, 16, None, sdctr=c["sdctr"], aead=True,
                              iv_out=bytes(c["iv"]))
    else:
        p.set_outbound_cipher(ToyCipher(c["ckey"], c["civ"], False), c["bs"], ToyHash, c["msz"], bytes(c["mk"]),
                              sdctr=c["sdctr"], etm=(m == 2))
    p.set_outbound_compressor(None if c["comp"] is None else ToyComp(c["comp"]))


def install_in(p, c):
    m = c["mode"]
    if m == 0:
        p.set_inbound_cipher(None, c["bs"], None, c["msz"], bytes())
    elif m == 3:
        p.set_inbound_cipher(ToyAead(c["ak"]), c["bs"], None, 16, None, aead=True, iv_in=bytes(c["iv"]))
    else:
        p.set_inbound_cipher(ToyCipher(c["ckey"], c["civ"], True), c["bs"], ToyHash, c["msz"], bytes(c["mk"]),
                             etm=(m == 2))
    p.set_inbound_compressor(None if c["comp"] is None else ToyDecomp(c["comp"]))


def new_pair(seq0, kex):
    from paramiko.packet import Packetizer
    cap = CaptureSocket()
    frag = FragSocket()
    s = Packetizer(cap)
    r = Packetizer(frag)
    s._initial_kex_done = kex
    r._initial_kex_done = kex
    s._Packetizer__sequence_number_out = seq0
    r._Packetizer__sequence_number_in = seq0
    return s, cap, r, frag


def gen_payload(rng, bs, big=300):
    k = rng.randrange(10)
    if k < 5:
        n = rng.randrange(1, 4 * bs + 9)
    elif k < 8:
        n = max(1, rng.choice([bs, 2 * bs, 3 * bs]) + rng.choice([-9, -8, -5, -4, -1, 0, 1, 3, 4]))
    else:
        n = rng.randrange(1, big)
    return bytes(rng.randrange(256) for _ in range(n))


def gen_sizes(rng, total):
    style = rng.randrange(4)
    if style == 0:
        return []
    if style == 1:
        return [1] * rng.randrange(0, min(total, 60) + 1)
    out = []
    left = total
    while left > 0 and len(out) < 80:
        n = rng.choice([1, 2, 3, 4, 5, 7, 8, 9, 15, 16, 17, rng.randrange(1, 64)])
        out.append(n)
        left -= n
    return out


def random_other(rng):
    """A private generator so that the extra draws do not shift the main case stream."""
    import random
    return random.Random(rng.getrandbits(64))


def run_toy_session(ctx, rng):
    """One toy session on real Packetizers; returns (coq_case_text, expected ints, description)."""
    seq0 = rng.choice([0, 0, 1, rng.randrange(2 ** 32), 2 ** 32 - 1, 2 ** 32 - 2, 2 ** 32 - 3])
    kex = rng.random() < 0.75
    s, cap, r, frag = new_pair(seq0, kex)
    expected = []
    epochs_coq = []
    desc = {"seq0": seq0, "kex": kex, "epochs": []}
    cur = dict(mode=0, bs=8, msz=0, comp=None)
    nepochs = rng.randrange(1, 4)
    for ei in range(nepochs):
        newcfg = gen_cfg(rng) if (ei == 0 and rng.random() < 0.9) or (ei > 0 and rng.random() < 0.7) else None
        rst = rng.random() < 0.15
        if newcfg is not None:
            install_out(s, newcfg)
            install_in(r, newcfg)
            cur = newcfg
            # the opposite direction of each object carries a DIFFERENT suite (never in == out)
            other = gen_cfg(random_other(rng), modes=tuple(m for m in (1, 2, 3) if m != newcfg["mode"]))
            install_in(s, other)
            install_out(r, other)
        if rst:
            s.reset_seqno_out()
            r.reset_seqno_in()
        payloads = [gen_payload(rng, cur["bs"], 160) for _ in range(rng.randrange(1, 6))]
        msgs = []
        wires = []
        senderr = None
        with PinnedUrandom(rng) as ur:
            for pl in payloads:
                n0 = len(cap.sent)
                ur.log.clear()
                try:
                    s.send_message(mkmsg(pl))
                except BaseException as e:  # noqa
                    senderr = exc_code(e)
                    msgs.append((pl, b"".join(ur.log)))
                    break
                msgs.append((pl, b"".join(ur.log)))
                wires.append(b"".join(cap.sent[n0:]))
        wire = b"".join(wires)
        sizes = gen_sizes(rng, len(wire))
        frag.feed(chunk_like_model(sizes, wire))
        got, fin = read_until_stop(r)
        out = [-10]
        for w in wires:
            out += [len(w)] + list(w)
        if senderr is not None:
            out += [-12] + senderr[1:]
        out += [-11]
        for g in got:
            out += [len(g)] + list(g)
        out += fin
        expected += out
        epochs_coq.append("(%s, %s, [%s], %s)" % (
            "None" if newcfg is None else "Some " + coq_cfg(newcfg), coq(rst),
            ";".join("(%s, %s)" % (coq(list(a)), coq(list(b))) for a, b in msgs), coq(sizes)))
        desc["epochs"].append({"cfg": newcfg, "reset": rst, "payload_lens": [len(x) for x in payloads],
                               "nchunks": len(sizes), "fin": fin, "senderr": senderr})
        mname = MODE_NAMES[cur["mode"]]
        # implementation-level oracle on the toy run
        sent_ok = payloads[:len(wires)]
        if got != sent_ok or fin != [-1]:
            ctx.fail("toy-roundtrip-" + mname, "receiver keyed like the sender did not return the sent messages",
                     case=desc, expected=[p.hex() for p in sent_ok], observed=[[g.hex() for g in got], fin])
        if senderr is None and s._Packetizer__sequence_number_out != r._Packetizer__sequence_number_in:
            ctx.fail("seqno-desync", "sender and receiver sequence numbers differ after a delivered sequence",
                     case=desc, expected=s._Packetizer__sequence_number_out,
                     observed=r._Packetizer__sequence_number_in)
        ctx.count(("toy", seq0, kex, ei, repr(newcfg), [p.hex() for p in payloads], sizes), kind="toy-" + mname)
        if senderr is not None or fin != [-1]:
            break
    case = "(%s, %s, [%s])" % (coq(seq0), coq(kex), ";".join(epochs_coq))
    return case, expected, desc


# --------------------------------------------------------------------------
# real primitives


def real_suites():
    from paramiko.transport import Transport
    out = []
    for cname, info in Transport._cipher_info.items():
        if info.get("is_aead"):
            out.append((cname, None))
        else:
            for mname in Transport._mac_info:
                out.append((cname, mname))
    return out


def real_keys(rng, suite):
    from paramiko.transport import Transport
    cname, mname = suite
    info = Transport._cipher_info[cname]
    key = bytes(rng.randrange(256) for _ in range(info["key-size"]))
    iv = bytes(rng.randrange(256) for _ in range(info.get("iv-size", info["block-size"])))
    mkey = b""
    if mname is not None:
        mkey = bytes(rng.randrange(256) for _ in range(Transport._mac_info[mname]["class"]().digest_size))
    return {"key": key, "iv": iv, "mkey": mkey}


def real_install(p, suite, keys, outbound, zlib_on):
    """Install engines as Transport._activate_outbound / _activate_inbound do."""
    from paramiko.transport import Transport
    from cryptography.hazmat.primitives.ciphers import Cipher
    from cryptography.hazmat.backends import default_backend
    from paramiko.compress import ZlibCompressor, ZlibDecompressor
    cname, mname = suite
    info = Transport._cipher_info[cname]
    aead = info.get("is_aead", False)
    bs = info["block-size"]
    if aead:
        engine = info["class"](keys["key"])
        if outbound:
            p.set_outbound_cipher(engine, bs, None, 16, None, sdctr=False, etm=False, aead=True,
                                  iv_out=keys["iv"])
        else:
            p.set_inbound_cipher(engine, bs, None, 16, None, etm=False, aead=True, iv_in=keys["iv"])
    else:
        c = Cipher(algorithm=info["class"](keys["key"]), mode=info["mode"](keys["iv"]), backend=default_backend())
        minfo = Transport._mac_info[mname]
        etm = "etm@openssh.com" in mname
        if outbound:
            p.set_outbound_cipher(c.encryptor(), bs, minfo["class"], minfo["size"], keys["mkey"],
                                  sdctr=cname.endswith("-ctr"), etm=etm)
        else:
            p.set_inbound_cipher(c.decryptor(), bs, minfo["class"], minfo["size"], keys["mkey"], etm=etm)
    if outbound:
        p.set_outbound_compressor(ZlibCompressor() if zlib_on else None)
    else:
        p.set_inbound_compressor(ZlibDecompressor() if zlib_on else None)


def suite_kind(suite):
    from paramiko.transport import Transport
    if suite[1] is None:
        return "aead"
    return "etm" if "etm@openssh.com" in suite[1] else "classic"


def real_sequence(ctx, rng, suite, zlib_on, nmsgs, maxlen, switch_to=None):
    from paramiko.transport import Transport
    seq0 = rng.choice([0, rng.randrange(2 ** 32), 2 ** 32 - rng.randrange(1, max(2, nmsgs + 1))])
    s, cap, r, frag = new_pair(seq0, True)
    suites = [suite] + ([switch_to] if switch_to else [])
    desc = {"suites": suites, "zlib": zlib_on, "seq0": seq0, "lens": []}
    total_sent = []
    total_got = []
    fin = None
    for si, su in enumerate(suites):
        keys = real_keys(rng, su)
        real_install(s, su, keys, True, zlib_on)
        real_install(r, su, keys, False, zlib_on)
        bs = Transport._cipher_info[su[0]]["block-size"]
        payloads = []
        for i in range(nmsgs):
            k = rng.randrange(10)
            if k < 4:
                n = rng.randrange(1, 4 * bs + 9)
            elif k < 7:
                n = max(1, bs * rng.randrange(1, 5) + rng.choice([-9, -8, -5, -4, -1, 0, 1, 4]))
            elif k < 9:
                n = rng.randrange(1, 2000)
            else:
                n = rng.randrange(1, maxlen + 1)
            if rng.random() < 0.5:
                payloads.append(bytes([rng.randrange(256)]) + bytes(rng.getrandbits(8) for _ in range(min(n - 1, 64)))
                                * 1 + bytes(max(0, n - 65)))
            else:
                payloads.append(rng.randbytes(n))
        n0 = len(cap.sent)
        for pl in payloads:
            s.send_message(mkmsg(pl))
        wire = b"".join(cap.sent[n0:])
        # fragmentation: sizes drawn log-uniformly
        chunks = []
        i = 0
        while i < len(wire):
            n = rng.choice([1, 2, 3, 5, 8, 15, 16, 17, 64, 1000, 4096, 65536, rng.randrange(1, 300)])
            chunks.append(wire[i:i + n])
            i += n
        frag.feed(chunks)
        got, fin = read_until_stop(r)
        total_sent += payloads
        total_got += got
        desc["lens"].append([len(p) for p in payloads])
        ctx.count(("real", su, zlib_on, seq0, [len(p) for p in payloads], len(chunks)),
                  kind="real-" + suite_kind(su) + ("-zlib" if zlib_on else ""))
        if got != payloads or fin != [-1]:
            firstbad = next((i for i, (a, b) in enumerate(zip(got, payloads)) if a != b), min(len(got), len(payloads)))
            ctx.fail("real-roundtrip-" + suite_kind(su),
                     "receiver keyed like the sender did not return exactly the sent messages",
                     case=desc, expected={"count": len(payloads), "fin": [-1]},
                     observed={"count": len(got), "first_difference_at": firstbad, "fin": fin})
            return
        if s._Packetizer__sequence_number_out != r._Packetizer__sequence_number_in or \
                s._Packetizer__sequence_number_out != (seq0 + len(total_sent)) % 2 ** 32:
            ctx.fail("seqno-desync", "sequence numbers differ / do not count packets mod 2^32", case=desc,
                     expected=(seq0 + len(total_sent)) % 2 ** 32,
                     observed=[s._Packetizer__sequence_number_out, r._Packetizer__sequence_number_in])
        if su[1] is None:
            want = keys["iv"][:4] + ((int.from_bytes(keys["iv"][4:], "big") + len(payloads)) % 2 ** 64).to_bytes(8, "big")
            if s._Packetizer__iv_out != want or r._Packetizer__iv_in != want:
                ctx.fail("aead-iv-counter", "AES-GCM invocation counter is not advanced once per packet", case=desc,
                         expected=want, observed=[s._Packetizer__iv_out, r._Packetizer__iv_in])


def real_search(ctx):
    rng = ctx.rng
    suites = real_suites()
    reps = 20 if ctx.thorough else 1
    for suite in suites:
        for zlib_on in (False, True):
            for rep in range(reps):
                if ctx.thorough:
                    big = rep % 10 == 0
                    nm = rng.choice([3, 8, 20, 200 if rep % 15 == 1 else 12])
                    maxlen = 70000 if big else 3000
                    if big:
                        nm = min(nm, 6)
                else:
                    nm, maxlen = 8, 5000
                sw = rng.choice(suites) if rng.random() < (0.5 if not ctx.thorough else 0.3) else None
                real_sequence(ctx, rng, suite, zlib_on, nm, maxlen, sw)
    # one large payload per framing kind also in the quick tier
    for suite in [("aes128-ctr", "hmac-sha2-256"), ("aes256-cbc", "hmac-sha2-512-etm@openssh.com"),
                  ("aes128-gcm@openssh.com", None)]:
        if suite in suites:
            real_sequence(ctx, rng, suite, rng.random() < 0.5, 2, 70000)


# --------------------------------------------------------------------------
# real Transport pair over an in-memory relay with recording packetizers


class PipeSock:
    """In-memory socket endpoint; bytes sent go through `on_send` (the relay)."""

    def __init__(self):
        import threading
        self.buf = bytearray()
        self.cv = threading.Condition()
        self.timeout = None
        self.closed = False
        self.eof = False
        self.on_send = None

    def feed(self, data):
        with self.cv:
            self.buf += data
            self.cv.notify_all()

    def send(self, data):
        if self.closed:
            raise EOFError()
        self.on_send(bytes(data))
        return len(data)

    def recv(self, n):
        import socket
        with self.cv:
            if not self.buf and not self.eof and not self.closed:
                self.cv.wait(self.timeout)
            if self.buf:
                out = bytes(self.buf[:n])
                del self.buf[:n]
                return out
            if self.eof or self.closed:
                return b""
            raise socket.timeout()

    def settimeout(self, t):
        self.timeout = t

    def close(self):
        with self.cv:
            self.closed = True
            self.cv.notify_all()

    def pending(self):
        with self.cv:
            return len(self.buf)


class Relay:
    """client <-> server wire; records client->server bytes, can hold them back and inject."""

    def __init__(self):
        import threading
        self.c = PipeSock()
        self.s = PipeSock()
        self.lock = threading.Lock()
        self.c2s = bytearray()
        self.forwarded = 0
        self.hold_at = None
        self.c.on_send = self._from_client
        self.s.on_send = self.c.feed

    def _from_client(self, data):
        with self.lock:
            self.c2s += data
            self._flush()

    def _flush(self):
        end = len(self.c2s) if self.hold_at is None else min(len(self.c2s), self.hold_at)
        if end > self.forwarded:
            self.s.feed(bytes(self.c2s[self.forwarded:end]))
            self.forwarded = end

    def hold_now(self):
        with self.lock:
            self.hold_at = len(self.c2s)

    def release(self):
        with self.lock:
            self.hold_at = None
            self._flush()

    def inject_to_server(self, data):
        self.s.feed(data)


def make_rec_packetizer():
    import threading
    from paramiko.packet import Packetizer

    class RecPacketizer(Packetizer):
        """Logs payloads handed to send_message / returned by read_message and per-packet wire sizes."""

        def __init__(self, sock):
            super().__init__(sock)
            self.sent_log = []
            self.recv_log = []
            self.wire_log = []          # (payload type or None for raw writes, nbytes)
            self._rec_lock = threading.RLock()
            self._cur = None
            self.after_send = None      # hook(type, index) called while still serialised
            self.before_send = None     # hook(type) called before anything is serialised

        def send_message(self, data):
            if self.before_send is not None:
                self.before_send(data.asbytes()[0])
            with self._rec_lock:
                raw = data.asbytes()
                self.sent_log.append(raw)
                self._cur = raw[0]
                try:
                    super().send_message(data)
                finally:
                    self._cur = None
                if self.after_send is not None:
                    self.after_send(raw[0], len(self.sent_log) - 1)

        def write_all(self, out):
            self.wire_log.append((self._cur, len(out)))
            super().write_all(out)

        def read_message(self):
            cmd, msg = super().read_message()
            self.recv_log.append(bytes([cmd]) + msg.asbytes())
            return cmd, msg

    return RecPacketizer


def make_server_iface():
    import paramiko

    class Srv(paramiko.ServerInterface):
        def check_auth_password(self, username, password):
            return paramiko.AUTH_SUCCESSFUL if password == "pw" else paramiko.AUTH_FAILED

        def get_allowed_auths(self, username):
            return "password"

        def check_channel_request(self, kind, chanid):
            return paramiko.OPEN_SUCCEEDED

    return Srv()


def first_deviation(recv, sent):
    for i, m in enumerate(recv):
        if i >= len(sent) or sent[i] != m:
            return i
    return None


def make_first_kexinit_only(base):
    class FirstKexinitOnlyPeer(base):
        """A peer that advertises the strict-kex marker only in its FIRST KEXINIT (it stays strict)."""

        def _send_kex_init(self):
            if not self.initial_kex_done:
                return super()._send_kex_init()
            saved = self.advertise_strict_kex
            self.advertise_strict_kex = False
            try:
                return super()._send_kex_init()
            finally:
                self.advertise_strict_kex = saved

    return FirstKexinitOnlyPeer


def transport_session(ctx, compression, cipher=None, mac=None, rekey=False, replay_across_epochs=False,
                      variant=None):
    """One real client/server Transport session.  Returns a dict with the logs and what happened.
    variant: strict_c / strict_s (advertise strict kex), first_only ('c' / 's': that side repeats the strict marker
    only in its first KEXINIT), rekey_by ('client' / 'server' / 'threshold'), race (a user thread is parked just
    before Packetizer.send_message of a CHANNEL_DATA while another thread starts the re-key)."""
    variant = dict(variant or {})
    import logging
    import time
    import paramiko
    lg = logging.getLogger("paramiko")
    if not any(isinstance(h, logging.NullHandler) for h in lg.handlers):
        lg.addHandler(logging.NullHandler())
        lg.propagate = False
    from paramiko.common import MSG_NEWKEYS
    Rec = make_rec_packetizer()
    relay = Relay()
    TC = make_first_kexinit_only(paramiko.Transport) if variant.get("first_only") == "c" else paramiko.Transport
    TS = make_first_kexinit_only(paramiko.Transport) if variant.get("first_only") == "s" else paramiko.Transport
    tc = TC(relay.c, packetizer_class=Rec, strict_kex=variant.get("strict_c", True))
    ts = TS(relay.s, packetizer_class=Rec, strict_kex=variant.get("strict_s", True))
    res = {"compression": compression, "cipher": cipher, "mac": mac, "rekey": rekey, "error": None,
           "steps": [], "variant": variant}
    try:
        for t in (tc, ts):
            so = t.get_security_options()
            so.compression = (compression,)
            if cipher:
                so.ciphers = (cipher,)
            if mac:
                so.digests = (mac,)
        ts.add_server_key(paramiko.ECDSAKey.generate())
        newkeys_sent = []

        def after_send(mtype, idx):
            if mtype == MSG_NEWKEYS:
                newkeys_sent.append(idx)
                if replay_across_epochs and len(newkeys_sent) == 2:
                    relay.hold_now()            # nothing after the client's 2nd NEWKEYS reaches the server
        tc.packetizer.after_send = after_send

        def scenario():
            import threading
            ts.start_server(event=threading.Event(), server=make_server_iface())
            tc.connect(username="u", password="pw")
            res["steps"].append("auth")
            ch = tc.open_session(timeout=10)
            sch = ts.accept(10)
            res["steps"].append("channel")
            data = bytes(range(256)) * 8
            ch.sendall(data)
            got = b""
            while len(got) < len(data):
                x = sch.recv(65536)
                if not x:
                    break
                got += x
            sch.sendall(got[::-1])
            back = b""
            while len(back) < len(data):
                x = ch.recv(65536)
                if not x:
                    break
                back += x
            if got != data or back != data[::-1]:
                raise RuntimeError("channel data corrupted")
            res["steps"].append("data")
            if (rekey or replay_across_epochs) and variant.get("race"):
                # user thread about to hand CHANNEL_DATA to the packetizer; another thread starts the re-key
                import threading as _th
                user = _th.current_thread()
                armed = _th.Event()
                kexinit_seen = _th.Event()
                rk = {}

                def do_rekey():
                    try:
                        tc.renegotiate_keys()
                        rk["r"] = "ok"
                    except Exception as e:  # noqa
                        rk["r"] = repr(e)

                def before_send(mtype):
                    if _th.current_thread() is user and mtype == 94 and armed.is_set():
                        armed.clear()
                        rk["t"] = _th.Thread(target=do_rekey, daemon=True)
                        rk["t"].start()
                        kexinit_seen.wait(0.5)      # correct code: KEXINIT cannot be written now (gate held)
                    elif _th.current_thread() is not user and mtype == 20:
                        kexinit_seen.set()
                tc.packetizer.before_send = before_send
                armed.set()
                ch.sendall(b"A" * 700)
                if "t" in rk:
                    rk["t"].join(15)
                tc.packetizer.before_send = None
                if rk.get("r") != "ok":
                    raise RuntimeError("renegotiate_keys during a user send: %s" % rk.get("r"))
                n = 0
                while n < 700:
                    x = sch.recv(65536)
                    if not x or x.strip(b"A"):
                        raise RuntimeError("channel data lost / corrupted across the key change")
                    n += len(x)
                res["steps"].append("rekey")
            elif rekey or replay_across_epochs:
                by = variant.get("rekey_by", "client")
                if by == "server":
                    ts.renegotiate_keys()
                elif by == "threshold":
                    tc.packetizer.REKEY_BYTES = 1         # the next packet crosses the threshold
                    ch.sendall(b"trigger")
                    sch.recv(100)
                    t0 = time.time()
                    nk0 = sum(1 for m in tc.packetizer.sent_log if m[0] == MSG_NEWKEYS)
                    while time.time() - t0 < 10 and (nk0 < 2 or tc.packetizer.need_rekey()):
                        time.sleep(0.01)
                        nk0 = sum(1 for m in tc.packetizer.sent_log if m[0] == MSG_NEWKEYS)
                    tc.packetizer.REKEY_BYTES = pow(2, 29)
                else:
                    tc.renegotiate_keys()
                res["steps"].append("rekey")
                if not replay_across_epochs:
                    ch.sendall(b"after-rekey" * 20)
                    n = 0
                    while n < 220:
                        x = sch.recv(65536)
                        if not x:
                            break
                        n += len(x)
                    if n != 220:
                        raise RuntimeError("channel data sent after the key change was lost (%d of 220 bytes)" % n)
                    sch.sendall(b"reply-after-rekey")
                    back2 = b""
                    while len(back2) < 17:
                        x = ch.recv(100)
                        if not x:
                            break
                        back2 += x
                    if back2 != b"reply-after-rekey":
                        raise RuntimeError("server->client data after the key change was lost")
                    res["steps"].append("data2")
            return True

        from common import with_watchdog
        st, val = with_watchdog(scenario, 25.0)
        if st == "exc":
            res["error"] = "%s: %s" % (type(val).__name__, str(val)[:200])
        elif st == "hang":
            res["error"] = "HANG(25s)"

        if replay_across_epochs and res["error"] is None:
            # wait until the server has consumed the client's second NEWKEYS (inbound keys switched)
            t0 = time.time()
            while time.time() - t0 < 10:
                nk = sum(1 for m in ts.packetizer.recv_log if m[0] == MSG_NEWKEYS)
                if nk >= 2 and relay.s.pending() == 0:
                    break
                time.sleep(0.01)
            time.sleep(0.05)
            # the first encrypted client packets of epoch 1 (sent right after the first NEWKEYS)
            wl = tc.packetizer.wire_log
            off = 0
            idx = None
            seen = 0
            offsets = []
            for k, (typ, n) in enumerate(wl):
                offsets.append(off)
                off += n
            pk = [k for k, (typ, n) in enumerate(wl) if typ == MSG_NEWKEYS]
            if len(pk) >= 2:
                first = pk[0] + 1
                nrep = min(3, pk[1] - first)
                start = offsets[first]
                end = offsets[first + nrep]
                recorded = bytes(relay.c2s[start:end])
                before = len(ts.packetizer.recv_log)
                relay.inject_to_server(recorded)
                t0 = time.time()
                while time.time() - t0 < 3.0 and ts.is_active() and len(ts.packetizer.recv_log) < before + nrep:
                    time.sleep(0.01)
                time.sleep(0.05)
                res["replayed"] = {"packets": nrep, "bytes": recorded.hex(),
                                   "types": [wl[first + i][0] for i in range(nrep)]}
                res["server_delivered_after_replay"] = [m.hex() for m in ts.packetizer.recv_log[before:]]
                res["server_active_after_replay"] = ts.is_active()
        res["c_sent"] = list(tc.packetizer.sent_log)
        res["s_recv"] = list(ts.packetizer.recv_log)
        res["s_sent"] = list(ts.packetizer.sent_log)
        res["c_recv"] = list(tc.packetizer.recv_log)
    finally:
        relay.release()
        for t in (tc, ts):
            try:
                t.close()
            except Exception:  # noqa
                pass
    return res


def transport_roundtrip_oracle(ctx, res, key_prefix="transport"):
    """Messages read by one side must be exactly (a prefix of) the messages the other side sent."""
    desc = {k: res.get(k) for k in ("compression", "cipher", "mac", "rekey", "steps", "error", "variant")}
    bad = False
    for name, recv, sent in (("server->client", res.get("c_recv", []), res.get("s_sent", [])),
                             ("client->server", res.get("s_recv", []), res.get("c_sent", []))):
        i = first_deviation(recv, sent)
        if i is not None:
            bad = True
            ctx.fail("%s-stream-differs-%s" % (key_prefix, res["compression"].split("@")[0]),
                     "a real Transport peer decoded a message that differs from what the other side sent "
                     "(direction %s, message #%d)" % (name, i),
                     case=dict(desc, direction=name, index=i,
                               sent_types=[m[0] for m in sent[:i + 2]]),
                     expected=sent[i].hex()[:400] if i < len(sent) else "(nothing was sent at this position)",
                     observed=recv[i].hex()[:400])
    return bad


def transport_checks(ctx):
    """Full sessions (kex, auth, channel data, re-key) for every compression setting the transport offers."""
    from paramiko.transport import Transport
    rng = ctx.rng
    comps = list(Transport._compression_info.keys())
    ciphers = list(Transport._cipher_info.keys())
    plans = [(c, None, None, c != "none") for c in comps]
    extra = 6 if ctx.thorough else 1
    for _ in range(extra):
        ci = rng.choice(ciphers)
        ma = None if "gcm" in ci else rng.choice(list(Transport._mac_info.keys()))
        plans.append((rng.choice(comps), ci, ma, rng.random() < 0.5))
    # negotiation grid: every cipher x EVERY MAC name (the MAC is nominal under AEAD but still negotiated: an
    # OpenSSH peer's default order yields GCM together with an *-etm@openssh.com name); all AEAD x MAC pairs in
    # every run, the classic pairs rotating by seed in the quick tier, everything in thorough
    macs = list(Transport._mac_info.keys())
    aead_c = [c for c in ciphers if Transport._cipher_info[c].get("is_aead")]
    classic_c = [c for c in ciphers if c not in aead_c]
    grid = [(c, m) for c in aead_c for m in macs]
    pairs = [(c, m) for c in classic_c for m in macs]
    if ctx.thorough:
        grid += pairs
    else:
        grid += [pairs[(ctx.seed * 11 + 5 * k) % len(pairs)] for k in range(10)]
    for k, (ci, ma) in enumerate(grid):
        plans.append(("none" if k % 4 else rng.choice(comps), ci, ma, k % 3 == 0))
    plans = [p + (None,) for p in plans]
    # peer / configuration variety across a key change (all in thorough, rotating by seed in quick)
    variants = [{"first_only": "s"}, {"first_only": "c"}, {"race": True}, {"rekey_by": "server"},
                {"rekey_by": "threshold"}, {"strict_c": False}, {"strict_s": False, "rekey_by": "server"},
                {"strict_c": False, "strict_s": False, "race": True}, {"first_only": "s", "rekey_by": "server"},
                {"first_only": "c", "race": True}]
    if not ctx.thorough:
        k = ctx.seed % len(variants)
        variants = variants[:3] + [variants[3 + (k + j) % (len(variants) - 3)] for j in range(2)]
    for v in variants:
        plans.append((rng.choice(comps), None, None, True, v))
    for comp, ci, ma, rk, var in plans:
        res = transport_session(ctx, comp, ci, ma, rekey=rk, variant=var)
        ctx.count(("transport", comp, ci, ma, rk, repr(var)),
                  kind="transport-" + comp.split("@")[0] + ("-delayed" if "@" in comp else "")
                  + ("-" + "+".join(sorted(var)) if var else ""))
        bad = transport_roundtrip_oracle(ctx, res)
        if not bad and res["error"] is not None:
            # no decoded message deviates: retry once before believing a broken session
            res2 = transport_session(ctx, comp, ci, ma, rekey=rk, variant=var)
            if not transport_roundtrip_oracle(ctx, res2) and res2["error"] is not None:
                vk = "-".join(sorted(var)) if var else "default"
                ctx.fail("transport-session-broken-" + (vk if var else comp.split("@")[0]),
                         "a real client/server session over the packet layer did not complete (messages lost "
                         "across a key change / peer variant)",
                         case={k: res2.get(k) for k in ("compression", "cipher", "mac", "rekey", "steps", "variant")},
                         expected="auth, channel, data" + (", rekey, data2" if rk else ""), observed=res2["error"])


def concurrent_senders(ctx, real_zlib):
    """Two threads inside send_message with compression on: thread A is parked inside the compressor
    (between deflate's compress() and flush() for real zlib) while thread B tries to send.  Whatever the
    order, the peer must decode exactly the two messages, each intact (no merging / loss)."""
    import threading
    from paramiko.packet import Packetizer
    from paramiko.compress import ZlibCompressor, ZlibDecompressor
    rng = ctx.rng
    a_in = threading.Event()
    b_done = threading.Event()
    state = {"first": None}

    def hook():
        me = threading.current_thread()
        if state["first"] is None:
            state["first"] = me
            a_in.set()
            b_done.wait(0.4)            # with the write lock held (correct code) B cannot finish: time out

    class ZProxy:
        def __init__(self, z):
            self.z = z

        def compress(self, data):
            out = self.z.compress(data)
            hook()
            return out

        def flush(self, *a):
            return self.z.flush(*a)

    class HookToyComp(ToyComp):
        def __call__(self, data):
            z = self.z
            self.z += 1
            hook()
            return bytes([z % 256]) + bytes((b + z) % 256 for b in data)

    cfg = gen_cfg(rng, modes=(1, 2, 3))
    cfg["iv"] = cfg["iv"][:4] + [0] * 8
    cfg["comp"] = None
    cap = CaptureSocket()
    s = Packetizer(cap)
    s._initial_kex_done = True
    install_out(s, cfg)
    if real_zlib:
        comp = ZlibCompressor()
        comp.z = ZProxy(comp.z)
        s.set_outbound_compressor(comp)
    else:
        s.set_outbound_compressor(HookToyComp(7))
    ma = bytes([94]) + bytes(rng.randrange(256) for _ in range(40))
    mb = bytes([93]) + bytes(rng.randrange(256) for _ in range(25))
    errs = []

    def ta():
        try:
            s.send_message(mkmsg(ma))
        except BaseException as e:  # noqa
            errs.append(repr(e))

    def tb():
        a_in.wait(3.0)
        try:
            s.send_message(mkmsg(mb))
        except BaseException as e:  # noqa
            errs.append(repr(e))
        b_done.set()

    with PinnedUrandom(rng):
        t1 = threading.Thread(target=ta, daemon=True)
        t2 = threading.Thread(target=tb, daemon=True)
        t1.start()
        t2.start()
        t1.join(5.0)
        t2.join(5.0)
    wire = b"".join(cap.sent)
    r = Packetizer(FragSocket([wire]))
    r._initial_kex_done = True
    install_in(r, cfg)
    r.set_inbound_compressor(ZlibDecompressor() if real_zlib else ToyDecomp(7))
    got, fin = read_until_stop(r)
    ctx.count(("concurrent", real_zlib, repr(cfg), ma, mb), kind="concurrent-senders-" + ("zlib" if real_zlib else "toy"))
    if errs or sorted(got) != sorted([ma, mb]) or fin != [-1]:
        ctx.fail("concurrent-senders-merged", "two threads in send_message with compression on: the peer did not "
                 "decode exactly the two messages (merged / lost / corrupted)",
                 case={"cfg": cfg, "real_zlib": real_zlib, "msg_a": ma.hex(), "msg_b": mb.hex(),
                       "schedule": "A parked inside the compressor; B calls send_message; A resumes"},
                 expected=sorted([ma.hex(), mb.hex()]),
                 observed={"delivered": [g.hex() for g in got], "fin": fin, "send_errors": errs})


# --------------------------------------------------------------------------
# directional asymmetry: Transport activation glue driven directly (no threads)


class _MemPipe:
    def __init__(self):
        self.buf = b""
        self.peer = None

    def send(self, data):
        if self.peer is not None:
            self.peer.buf += bytes(data)
        return len(data)

    def recv(self, n):
        x, self.buf = self.buf[:n], self.buf[n:]
        return x

    def settimeout(self, t):
        pass

    def close(self):
        pass


def asym_activation(ctx, c2s, s2c, c2s2, s2c2):
    """An un-started client/server Transport pair; a key exchange result (K, H and a (cipher, mac, compression)
    triple PER DIRECTION, chosen independently) is installed exactly as the kex code does
    (_activate_outbound, NEWKEYS, _activate_inbound), then traffic both ways, _auth_trigger (delayed
    compression), traffic, a second key exchange with other suites, traffic."""
    import paramiko
    rng = ctx.rng
    a, b = _MemPipe(), _MemPipe()
    a.peer, b.peer = b, a
    tc, ts = paramiko.Transport(a), paramiko.Transport(b)
    ts.server_mode = True
    for t in (tc, ts):
        t._remote_ext_info = None
        t.server_sig_algs = False
    desc = {"c2s": list(c2s), "s2c": list(s2c), "rekey_c2s": list(c2s2), "rekey_s2c": list(s2c2), "phase": None}

    def negotiate(K, H, cs, sc):
        for t in (tc, ts):
            t.K, t.H = K, H
            if t.session_id is None:
                t.session_id = H
        tc.local_cipher, tc.local_mac, tc.local_compression = cs
        ts.remote_cipher, ts.remote_mac, ts.remote_compression = cs
        ts.local_cipher, ts.local_mac, ts.local_compression = sc
        tc.remote_cipher, tc.remote_mac, tc.remote_compression = sc
        tc._activate_outbound()
        ts._activate_outbound()
        for t in (ts, tc):
            ptype, m = t.packetizer.read_message()
            if ptype != 21:
                raise RuntimeError("NEWKEYS expected, got %d" % ptype)
            t._activate_inbound()
            t.initial_kex_done = t.packetizer._initial_kex_done = True

    def roundtrip(snd, rcv, what):
        payloads = [bytes([rng.randrange(90, 100)]) + (b"hello world %d " % i) * (1 + i) + rng.randbytes(rng.randrange(0, 30))
                    for i in range(5)]
        for pl in payloads:
            snd.packetizer.send_message(mkmsg(pl))
        got, fin = read_until_stop(rcv.packetizer, limit=len(payloads) + 2)
        if got != payloads or fin != [-1]:
            i = first_deviation(got, payloads)
            ctx.fail("asymmetric-directions-" + what.split(":")[0],
                     "with different cipher / MAC / compression per direction the peer did not decode exactly the "
                     "sent messages (%s)" % what, case=dict(desc, phase=what),
                     expected={"count": len(payloads)},
                     observed={"count": len(got), "first_difference_at": i, "fin": fin,
                               "got": got[i].hex()[:120] if i is not None and i < len(got) else None})
            return False
        return True

    try:
        desc["phase"] = "kex1"
        negotiate(rng.getrandbits(256) | 1, rng.randbytes(32), c2s, s2c)
        ok = roundtrip(tc, ts, "before-auth: client->server") and roundtrip(ts, tc, "before-auth: server->client")
        if ok:
            desc["phase"] = "auth-trigger"
            tc._auth_trigger()
            ts._auth_trigger()
            ok = roundtrip(tc, ts, "after-auth: client->server") and roundtrip(ts, tc, "after-auth: server->client")
        if ok:
            desc["phase"] = "kex2"
            negotiate(rng.getrandbits(256) | 1, rng.randbytes(32), c2s2, s2c2)
            roundtrip(tc, ts, "after-rekey: client->server") and roundtrip(ts, tc, "after-rekey: server->client")
    except BaseException as e:  # noqa
        ctx.fail("asymmetric-directions-crash", "installing / using per-direction suites raised",
                 case=desc, expected="messages delivered", observed="%s: %s" % (type(e).__name__, str(e)[:200]))
    ctx.count(("asym", c2s, s2c, c2s2, s2c2), kind="asym-activation")


def asym_checks(ctx):
    from paramiko.transport import Transport
    rng = ctx.rng
    ciphers = list(Transport._cipher_info.keys())
    macs = list(Transport._mac_info.keys())
    comps = list(Transport._compression_info.keys())

    def triple(i):
        return (ciphers[i % len(ciphers)], macs[(i * 3 + 1) % len(macs)], comps[i % len(comps)])

    plans = []
    # every compression pair with DIFFERENT settings per direction (incl. delayed zlib in one direction only)
    for x in comps:
        for y in comps:
            if x != y:
                k = rng.randrange(1000)
                plans.append(((ciphers[k % len(ciphers)], rng.choice(macs), x),
                              (ciphers[(k + 4) % len(ciphers)], rng.choice(macs), y)))
    # classic MAC one way, EtM the other; AEAD one way only; different block sizes per direction
    plans += [(("aes128-ctr", "hmac-sha2-256", "none"), ("aes256-cbc", "hmac-sha2-512-etm@openssh.com", "none")),
              (("aes256-ctr", "hmac-sha2-256-etm@openssh.com", "none"), ("3des-cbc", "hmac-sha1-96", "none")),
              (("aes128-gcm@openssh.com", "hmac-sha2-256-etm@openssh.com", "zlib"), ("3des-cbc", "hmac-md5", "none")),
              (("aes128-cbc", "hmac-md5-96", "none"), ("aes256-gcm@openssh.com", "hmac-sha1", "zlib@openssh.com"))]
    for j in range(20 if ctx.thorough else 3):
        k = rng.randrange(10 ** 6)
        plans.append((triple(k), triple(k // 7 + 5)))
    for c2s, s2c in plans:
        k = rng.randrange(10 ** 6)
        asym_activation(ctx, c2s, s2c, triple(k), triple(k // 3 + 2))


def rekey_counters_inflight(ctx):
    """A re-key request triggered by each of the four counters (sent / received x packets / bytes), thresholds
    scaled down keeping the default relation REKEY_* == REKEY_*_OVERFLOW_MAX: packets already in flight (fewer
    than the overflow allowance) must still be sent / delivered, and need_rekey() must be raised."""
    from paramiko.packet import Packetizer
    rng = ctx.rng
    for counter in ("recv-packets", "recv-bytes", "sent-packets", "sent-bytes"):
        cfg = gen_cfg(rng, modes=(1, 2, 3))
        cfg["iv"] = cfg["iv"][:4] + [0] * 8
        cap = CaptureSocket()
        s = Packetizer(cap)
        r = Packetizer(FragSocket())
        for p in (s, r):
            p._initial_kex_done = True
        install_out(s, cfg)
        install_in(r, cfg)
        thr = rng.randrange(5, 10)
        who = r if counter.startswith("recv") else s
        n = thr + rng.randrange(2, thr - 1)            # fewer than `thr` packets after the trigger
        # equal-sized packets, so that the byte thresholds are crossed exactly at packet `thr`
        payloads = [bytes([rng.randrange(90, 100)]) + bytes(rng.randrange(256) for _ in range(2)) for _ in range(n)]
        err = None
        with PinnedUrandom(rng):
            for i, pl in enumerate(payloads):
                try:
                    s.send_message(mkmsg(pl))
                except BaseException as e:  # noqa
                    err = "send: %r" % e
                    break
                if i == 0:
                    w = len(b"".join(cap.sent))        # wire size of one packet
                    if counter.endswith("packets"):
                        who.REKEY_PACKETS = thr
                        who.REKEY_PACKETS_OVERFLOW_MAX = thr
                    else:
                        who.REKEY_BYTES = thr * w
                        who.REKEY_BYTES_OVERFLOW_MAX = thr * w
        r._Packetizer__socket.feed([b"".join(cap.sent)])
        got, fin = read_until_stop(r)
        ctx.count(("rekey-counter", counter, repr(cfg), thr, n), kind="rekey-counter-" + counter)
        if err or got != payloads or fin != [-1] or not who.need_rekey():
            ctx.fail("rekey-inflight-lost-" + counter,
                     "after the %s threshold asked for a re-key, packets still in flight were not delivered "
                     "(or the re-key request was not raised)" % counter,
                     case={"cfg": cfg, "counter": counter, "threshold": thr, "messages": n},
                     expected={"delivered": n, "need_rekey": True},
                     observed={"delivered": len(got), "fin": fin, "send_error": err, "need_rekey": who.need_rekey()})


def cteq_cases(rng, n):
    out = []
    for _ in range(n):
        a = bytes(rng.randrange(256) for _ in range(rng.choice([0, 1, 2, 8, 12, 16, 20, 32])))
        k = rng.randrange(6)
        if k == 0 or not a:
            b = a
        elif k == 1:
            i = rng.randrange(len(a))
            b = a[:i] + bytes([a[i] ^ (1 << rng.randrange(8))]) + a[i + 1:]
        elif k == 2:
            b = a[:-1]
        elif k == 3:
            b = a + bytes([rng.randrange(256)])
        elif k == 4:
            b = bytes(rng.randrange(256) for _ in range(len(a)))
        else:
            b = a[:-1] + bytes([a[-1] ^ 0x80])
        out.append((a, b))
    return out


def run(ctx):
    from paramiko import util
    rng = ctx.rng
    ctx.rule = ("seeded generator (random.Random('C01-<seed>')): toy sessions of 1-3 key epochs x 1-5 messages "
                "(payload lengths 1..4*bs+8, block boundaries, up to 160), block sizes 8/16/32, MAC sizes 0/4/6/8, "
                "classic/ETM/AEAD/cleartext, sdctr, toy compression, seq0 near 2^32 with and without "
                "initial_kex_done, IV counters near 2^64, random read fragmentation; socket timeouts at random "
                "positions (mid-header included) with need_rekey set or not, run loop continuing on "
                "NeedRekeyException; write_all over scripted sockets (partial sends, timeouts, EAGAIN, errors, "
                "zero returns); per-direction suites (cipher / MAC / compression chosen independently for c2s and s2c, "
                "incl. delayed zlib one way only) through Transport._activate_* / _auth_trigger; re-key requests "
                "raised by each of the four counters with traffic in flight; two concurrent senders with compression (one parked inside the compressor); whole "
                "client/server Transport sessions for every compression mode incl. delayed zlib@openssh.com, every "
                "AEAD cipher x every MAC name (incl. *-etm names) and classic cipher x MAC pairs rotating by seed "
                "(kex, auth switch-over, channel data, re-key) with recording packetizers; real suites: every cipher x "
                "MAC x zlib on/off with random keys, fragmentation, key switch; a case is non-trivial when distinct")
    ctx.trusted += ["model coq/Model/C01.v is hand-written; tied to paramiko/packet.py by this differential run "
                    "(vm_compute of the model's own definitions with toy primitives, no extraction) and by the "
                    "C01_source_* theorems over coq/Gen/C01_gen.v (translator gen/c01.py, ~400 lines, fail closed)",
                    "real ciphers / HMAC / AES-GCM / zlib: laws are premises of the theorems; exercised by the "
                    "implementation-level round-trip search only",
                    "atomicity of send_message (the write lock spans compression, sequence number and write_all) and "
                    "the point where Transport switches compression on are not modelled; they are covered by the "
                    "concurrent-senders and whole-session oracles"]
    ctx.assumptions += ["prims_ok: cipher decryptor inverts the encryptor on block multiples and splits on block "
                        "boundaries; AEAD decrypt inverts encrypt, 16-byte tag; decompressor tracks compressor",
                        "block size >= 8, 0 <= MAC size, 0 <= seqno < 2^32 (Transport._activate_*)",
                        "re-key accounting (REKEY_PACKETS/BYTES) not modelled: see C10"]
    ctx.prove()

    # ---- 1. toy correspondence ------------------------------------------------
    n = 800 if ctx.thorough else 90
    cases = []
    descs = []
    for _ in range(n):
        case, expected, desc = run_toy_session(ctx, rng)
        if len(expected) > 3500:
            continue
        cases.append((case, expected))
        descs.append(desc)
    bad = safe_mismatches(ctx, "run_session", "(Z * bool * list epoch)", cases, shard=60)
    for i in bad[:3]:
        ctx.disagree("Packetizer wire bytes / delivered messages differ from the model", case=descs[i],
                     impl=cases[i][1])
    if cases:
        ctx.sample({"toy_session": descs[0], "impl_and_model_output_prefix": cases[0][1][:60]})

    # ---- 1b. timeouts inside packets, re-key pending ---------------------------------
    cases, descs = [], []
    for _ in range(400 if ctx.thorough else 60):
        case, expected, desc = run_toy_timeouts(ctx, rng)
        if len(expected) + len(case) // 3 > 6000:
            continue
        cases.append((case, expected))
        descs.append(desc)
    bad = safe_mismatches(ctx, "run_recv_t", "(Z * bool * tcfg * bool * list sev)", cases, shard=60)
    for i in bad[:3]:
        ctx.disagree("read_message under socket timeouts / pending re-key differs from the model", case=descs[i],
                     impl=cases[i][1])
    suites = real_suites()
    for suite in (suites if ctx.thorough else [suites[(ctx.seed * 5 + k * 7) % len(suites)] for k in range(6)]):
        real_timeouts(ctx, rng, suite, rng.random() < 0.3)

    # ---- 1c. send side: write_all over a scripted socket -----------------------------
    cases, descs = [], []
    for _ in range(800 if ctx.thorough else 120):
        case, expected, desc = run_write_all(ctx, rng)
        cases.append((case, expected))
        descs.append(desc)
    bad = safe_mismatches(ctx, "run_write", "(list Z * list wev)", cases)
    for i in bad[:3]:
        ctx.disagree("write_all differs from the model", case=descs[i], impl=cases[i][1])
    from paramiko.common import xffffffff
    if xffffffff != 2 ** 32 - 1:
        ctx.disagree("common.xffffffff is not 2^32 - 1 (the model's sequence-number modulus)", impl=xffffffff)

    # ---- 2. constant_time_bytes_eq ----------------------------------------------
    pairs = cteq_cases(rng, 200 if ctx.thorough else 100)
    cc = []
    for a, b in pairs:
        v = util.constant_time_bytes_eq(a, b)
        cc.append(("(%s, %s)" % (coq(list(a)), coq(list(b))), [1 if v else 0]))
        ctx.count(("cteq", a, b), nontrivial=len(a) > 0, kind="cteq")
    bad = safe_mismatches(ctx, "run_cteq", "(list Z * list Z)", cc)
    for i in bad[:3]:
        ctx.disagree("constant_time_bytes_eq differs from model", case={"a": pairs[i][0], "b": pairs[i][1]},
                     impl=cc[i][1])

    # ---- 3. real primitives: received == sent ------------------------------------
    real_search(ctx)

    # ---- 3b. concurrent senders with compression on ---------------------------------
    for rz in (True, False):
        concurrent_senders(ctx, rz)

    # ---- 3c. per-direction suites through Transport's activation glue; re-key counters with traffic in flight
    asym_checks(ctx)
    rekey_counters_inflight(ctx)

    # ---- 4. whole Transport sessions: every compression mode, auth switch-over, re-key ----
    transport_checks(ctx)


def replay(ctx, rep):
    run(ctx)
