#!/usr/bin/env python3
"""Round-5 prompt: like seedprompt.py; asks for indirect changes (shared helpers, class structure, non-default configuration)."""
import subprocess, sys
t = subprocess.check_output(["python3", "/verif/tools/seedprompt.py"] + sys.argv[1:], text=True)
t = t.replace("produce TWO different, independent, realistic code changes",
              "produce TWO different, independent, realistic code changes OF THE KINDS DESCRIBED BELOW")
t = t.replace("Prefer changes that need something specific to manifest",
              "This is the fifth round: four earlier rounds took the edits listed above, most of them inside the functions that obviously "
              "implement the property. Each change now must be one of: (a) INDIRECT - an edit to a SHARED HELPER or lower layer that the "
              "property's code merely uses (paramiko/util.py, message.py, common.py, compress.py, buffered_pipe.py, file.py, pipe.py, "
              "ssh_exception.py, packet.py helpers, Transport._send_message / _send_user_message / _log / _expect_packet, ChannelMap, "
              "decorators such as open_only, base classes such as PKey / BufferedFile / BaseSFTP / ClosingContextManager) which looks like "
              "a local clean-up there and breaks THIS property at a distance, while that helper's own unit tests stay green; "
              "(b) CLASS STRUCTURE - an attribute turned into a property or class attribute, a method moved to / overridden in a subclass or "
              "mixin, a changed default argument, __init__ ordering, a decorator added or removed, a table entry pointing to a different but "
              "similar callable; (c) NON-DEFAULT CONFIGURATION - correct with defaults, wrong only when the application uses a documented "
              "option: disabled_algorithms, custom window_size / max_packet_size / default_* values, set_keepalive, "
              "use_compression, a custom packetizer_class / server interface / policy / AuthStrategy subclass, gss_* off or on, "
              "SSHConfig options, SFTP bufsize / max_request_size / file modes, a peer WITHOUT strict-kex or ext-info support; "
              "(d) LIFETIME - something reset, released, cached or closed at the wrong moment across close / reconnect / a second "
              "Transport on the same socket class / garbage collection / fork of threads. Prefer changes that need something specific to manifest")
print(t)
