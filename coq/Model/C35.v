(* C35 — signatures verify exactly when genuine, for every key object; verification never raises.
   Model of the WRAPPERS RSAKey / ECDSAKey / Ed25519Key .sign_ssh_data / .verify_ssh_sig
   (paramiko/rsakey.py, ecdsakey.py, ed25519key.py) after the repairs fixes/C35-1..4:
   parse of the signature message with the C39 decoders, the checks, which key half is handed to
   the library, the exact bytes handed to it, and the mapping of the library's outcome to the
   return value.  The libraries (cryptography, nacl) and UTF-8 decoding are oracles.
   Definitions only; proofs are in Proofs/C35_proofs.v. *)
From PV Require Import Bytes C39 C35_gen.
Open Scope Z_scope.

(* ---- names: regenerated from the source by gen/c35.py (Gen/C35_gen.v) on every run ------------------------ *)
Definition s_ssh_rsa : list Z := gen_rsa_name.                 (* RSAKey.name *)
Definition s_cert : list Z := gen_cert_suffix.                 (* "-cert-v01@openssh.com" *)
Definition s_ed25519 : list Z := gen_ed_name.                  (* Ed25519Key.name *)
Definition s_ecdsa_pfx : list Z := gen_ecdsa_prefix.           (* "ecdsa-sha2-" *)
Definition s_nistp256 : list Z := gen_curve_name_0.
Definition s_nistp384 : list Z := gen_curve_name_1.
Definition s_nistp521 : list Z := gen_curve_name_2.

(* RSAKey.HASHES: name -> hash (1 = SHA1, 256, 512), in source order *)
Definition rsa_hashes : list (list Z * Z) := gen_rsa_hashes.

Fixpoint lookup (k : list Z) (t : list (list Z * Z)) : option Z :=
  match t with
  | [] => None
  | (k', v) :: r => if zlist_eqb k k' then Some v else lookup k r
  end.

(* ECDSA curves: index 0/1/2 = nistp256/384/521; key_format_identifier *)
Definition curve_name (c : Z) : list Z :=
  if c =? 0 then s_nistp256 else if c =? 1 then s_nistp384 else s_nistp521.
Definition ecdsa_ident (c : Z) : list Z := s_ecdsa_pfx ++ curve_name c.

(* ---- key objects ------------------------------------------------------------------------------ *)
(* Keys are abstract: a private key is a token sk : Z, its public half is pub_of sk (library).
   A key object records which halves it HOLDS, as the Python objects do. *)
Inductive keyobj :=
  | KRsa (bits : Z) (priv : option Z) (pub : Z)        (* self.key: private (public derived) or public *)
  | KEcdsa (curve : Z) (signing : option Z) (verifying : Z)   (* signing_key / verifying_key *)
  | KEd (signing : option Z) (verifying : option Z).   (* _signing_key / _verifying_key *)

(* ---- library outcomes --------------------------------------------------------------------------- *)
(* what a library verify call did: returned normally, raised its "bad signature" exception
   (InvalidSignature / BadSignatureError), raised ValueError, raised something else *)
Inductive lres := LAccept | LInvalid | LValue | LOther (k : Z).

(* what is handed to the library *)
Inductive libarg :=
  | ARsa (pub : Z) (sig : list Z) (hash : Z)
  | AEcdsa (pub : Z) (r s : Z)          (* encode_dss_signature(r, s) is a bijection on naturals *)
  | AEd (pub : Z) (sig : list Z).

Section Wrappers.
  Variable utf8_ok : list Z -> bool.                (* bytes.decode("utf-8") succeeds *)
  Variable pub_of : Z -> Z.                         (* private.public_key() / signing_key.verify_key *)
  Variable lib_verify : libarg -> list Z -> lres.   (* library verify(arg, data) *)

  (* Message.get_text = u(get_string()); repaired callers catch UnicodeDecodeError *)
  Definition get_text (buf : list Z) (pos : nat) : result (list Z) * nat :=
    let '(s, p) := get_string buf pos in
    (if utf8_ok s then Ok s else Raise UnicodeErr, p).

  (* the argument handed to the library, or the early answer *)
  Inductive step := Answer (b : bool) | Escapes (e : exn) | Call (a : libarg).

  (* ---- RSAKey.verify_ssh_sig ---- *)
  Definition rsa_step (bits : Z) (priv : option Z) (pub : Z) (msg : list Z) : step :=
    let '(name, p1) := get_text msg 0 in
    match name with
    | Raise _ => Answer false                          (* except UnicodeDecodeError: return False *)
    | Ok nm =>
        match lookup nm rsa_hashes with
        | None => Answer false                         (* sig_algorithm not in self.HASHES *)
        | Some h =>
            let key := match priv with Some sk => pub_of sk | None => pub end in
            let '(sign, _) := get_string msg p1 in     (* msg.get_binary() *)
            let diff := bits - 8 * Z.of_nat (length sign) in
            let sign' := if 0 <? diff
                         then repeat 0 (Z.to_nat ((diff + 7) / 8)) ++ sign
                         else sign in
            Call (ARsa key sign' h)
        end
    end.

  (* ---- ECDSAKey.verify_ssh_sig (uses self.verifying_key) ---- *)
  Definition ecdsa_step (curve : Z) (verifying : Z) (msg : list Z) : step :=
    let '(name, p1) := get_text msg 0 in
    match name with
    | Raise _ => Answer false
    | Ok nm =>
        if negb (zlist_eqb nm (ecdsa_ident curve)) then Answer false
        else
          let '(sig, _) := get_string msg p1 in
          (* _sigdecode: Message(sig).get_mpint() twice *)
          let '(rb, q1) := get_string sig 0 in
          let '(sb, q2) := get_string sig q1 in
          let r := inflate_long rb false in
          let s := inflate_long sb false in
          (* _sigdecode: bytes after the two mpints -> (None, None) -> return False, library not consulted *)
          if negb (match get_remainder sig q2 with [] => true | _ => false end) then Answer false
          (* encode_dss_signature raises ValueError on negative integers: return False *)
          else if (r <? 0) || (s <? 0) then Answer false
          else Call (AEcdsa verifying r s)
    end.

  (* ---- Ed25519Key.verify_ssh_sig ---- *)
  Definition ed_step (signing verifying : option Z) (msg : list Z) : step :=
    let '(name, p1) := get_text msg 0 in
    match name with
    | Raise _ => Answer false
    | Ok nm =>
        if negb (zlist_eqb nm s_ed25519) then Answer false
        else
          let '(sig, _) := get_string msg p1 in
          match signing, verifying with
          | Some sk, _ => Call (AEd (pub_of sk) sig)      (* can_sign(): _signing_key.verify_key *)
          | None, Some vk => Call (AEd vk sig)
          | None, None => Escapes AttrErr                 (* excluded by __init__: "need a key" *)
          end
    end.

  Definition verify_step (k : keyobj) (msg : list Z) : step :=
    match k with
    | KRsa bits priv pub => rsa_step bits priv pub msg
    | KEcdsa c _ v => ecdsa_step c v msg
    | KEd s v => ed_step s v msg
    end.

  (* how each wrapper maps the library's outcome *)
  Definition map_lres (k : keyobj) (l : lres) : result bool :=
    match l with
    | LAccept => Ok true
    | LInvalid => Ok false
    | LValue => match k with KEd _ _ => Ok false | _ => Raise ValueErr end
    | LOther c => Raise (LibExc c)
    end.

  Definition verify_ssh_sig (k : keyobj) (data msg : list Z) : result bool :=
    match verify_step k msg with
    | Answer b => Ok b
    | Escapes e => Raise e
    | Call a => map_lres k (lib_verify a data)
    end.

  (* ---- sign_ssh_data ---- *)
  Variable rsa_sign : Z -> list Z -> Z -> list Z.       (* key.sign(data, PKCS1v15, hash) *)
  Variable ec_sign : Z -> list Z -> Z * Z.              (* decode_dss_signature(signing_key.sign(data)) *)
  Variable ed_sign : Z -> list Z -> list Z.             (* _signing_key.sign(data).signature *)

  Fixpoint strip_suffix_at (s suf : list Z) (fuel : nat) : list Z :=
    (* algorithm.replace("-cert-v01@openssh.com", "") for names with at most one occurrence at the end *)
    match fuel with
    | O => s
    | S f => if zlist_eqb s suf then [] else
               match s with [] => [] | c :: r => c :: strip_suffix_at r suf f end
    end.
  Definition strip_cert (s : list Z) : list Z := strip_suffix_at s s_cert (length s).

  (* the signature message bytes; alg = None means the key's own name *)
  Definition sign_ssh_data (k : keyobj) (data : list Z) (alg : option (list Z)) : result (list Z) :=
    match k with
    | KRsa _ (Some sk) _ =>
        let a := match alg with Some a => a | None => s_ssh_rsa end in
        match lookup a rsa_hashes with
        | None => Raise KeyErr                                   (* self.HASHES[algorithm] *)
        | Some h => encode_all [FString (strip_cert a); FString (rsa_sign sk data h)]
        end
    | KEcdsa c (Some sk) _ =>
        let '(r, s) := ec_sign sk data in
        bind (encode_all [FMpint r; FMpint s]) (fun inner =>
        encode_all [FString (ecdsa_ident c); FString inner])
    | KEd (Some sk) _ =>
        encode_all [FString s_ed25519; FString (ed_sign sk data)]
    | _ => Raise AttrErr                                         (* no private half *)
    end.

  (* the public half a key object stands for *)
  Definition key_pub (k : keyobj) : option Z :=
    match k with
    | KRsa _ (Some sk) _ => Some (pub_of sk)
    | KRsa _ None p => Some p
    | KEcdsa _ _ v => Some v
    | KEd (Some sk) _ => Some (pub_of sk)
    | KEd None v => v
    end.

  (* object invariants established by the constructors *)
  Definition key_wf (k : keyobj) : Prop :=
    match k with
    | KRsa _ _ _ => True
    | KEcdsa _ (Some sk) v => v = pub_of sk          (* generate / _decode_key: verifying = signing.public_key() *)
    | KEcdsa _ None _ => True
    | KEd None None => False                         (* "need a key" *)
    | KEd _ _ => True
    end.

  Definition same_kind (k1 k2 : keyobj) : Prop :=
    match k1, k2 with
    | KRsa b1 _ _, KRsa b2 _ _ => b1 = b2
    | KEcdsa c1 _ _, KEcdsa c2 _ _ => c1 = c2
    | KEd _ _, KEd _ _ => True
    | _, _ => False
    end.
End Wrappers.

(* ---- correspondence run ---------------------------------------------------------------------------- *)
(* input: (class 0/1/2, bits-or-curve, has_private, utf8 oracle bit for the name, library outcome code,
          msg) ; keys are the tokens 7 (private) with public 8 := pub_of 7, or public 9 when no private.
   output: result code :: which public token was handed to the library (0 = no call) :: the bytes /
   integers handed over *)
Definition lres_of_code (c : Z) : lres :=
  if c =? 0 then LAccept else if c =? 1 then LInvalid else if c =? 2 then LValue else LOther c.

Definition canon_arg (a : libarg) : list Z :=
  match a with
  | ARsa p sg h => p :: h :: Z.of_nat (length sg) :: sg
  | AEcdsa p r s => p :: enc_z r ++ enc_z s
  | AEd p sg => p :: Z.of_nat (length sg) :: sg
  end.

Definition run_verify (c : Z * Z * bool * bool * Z * list Z) : list Z :=
  let '(cls, par, has_priv, u8, lc, msg) := c in
  let pub_of := fun _ : Z => 8 in
  let priv := if has_priv then Some 7 else None in
  let k := if cls =? 0 then KRsa par priv 9
           else if cls =? 1 then KEcdsa par priv (if has_priv then 8 else 9)
           else KEd priv (if has_priv then None else Some 9) in
  let utf8 := fun _ : list Z => u8 in
  let lib := fun (_ : libarg) (_ : list Z) => lres_of_code lc in
  let res := verify_ssh_sig utf8 pub_of lib k [] msg in
  (match res with Ok true => 1 | Ok false => 0 | Raise e => 100 + exn_code e end) ::
  match verify_step utf8 pub_of k msg with
  | Call a => canon_arg a
  | _ => [0]
  end.

(* sign: (class, par, algorithm-or-empty, library signature bytes / r, s) -> message bytes *)
Definition run_sign (c : Z * Z * list Z * list Z * Z * Z) : list Z :=
  let '(cls, par, alg, sg, r, s) := c in
  let k := if cls =? 0 then KRsa par (Some 7) 8
           else if cls =? 1 then KEcdsa par (Some 7) 8 else KEd (Some 7) None in
  canon_result (sign_ssh_data (fun _ _ _ => sg) (fun _ _ => (r, s)) (fun _ _ => sg)
                              k [] (match alg with [] => None | _ => Some alg end)).
