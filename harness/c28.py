"""C28 — prefetched and vectored SFTP reads return exactly the file's bytes.

Proof: coq/Props/C28_props.v over coq/Model/C28.v (prefetch buffers / extents / wait loop / readv of
paramiko/sftp_file.py, BufferedFile.read loop, asynchronous response dispatch of sftp_client.py).
Tie: (1) deterministic direct drive of the real SFTPFile bookkeeping (_data_in_prefetch_buffers,
_data_in_prefetch_requests, _async_response, readv planning, whole scripted sessions of
prefetch/seek/read/readv over a stub sftp client, no threads) against the model's own definitions
(vm_compute); (2) implementation-level oracle: real SFTPClient <-> real SFTPServer over an in-process
loopback whose handle returns seeded SHORT reads; bytes returned == the file's bytes, under a watchdog.
"""
import os
import shutil
import tempfile
import threading

from common import coq, Raw, with_watchdog

PID = "C28"
LEVEL_TEXT = ("Machine-checked proof (Coq, closed under the global context) over an executable model of the SFTP "
              "prefetch machinery (prefetch buffers, extents, the _read_prefetch wait loop, _async_response, readv "
              "planning, the BufferedFile.read loop, prefetch threads / wire / short-reading server as an environment "
              "of labelled steps under an arbitrary schedule) that every buffered entry always equals the file's bytes "
              "at its key, that a read returns a non-empty prefix of the file at the position or EOF exactly at the "
              "end, that read(n) and every readv chunk return exactly file[o, o+n) truncated at EOF (for any "
              "interleaving, arrival order and short-read behaviour, overlapping / unordered / beyond-EOF chunks), and "
              "that every answered request releases its extent and the reader / prefetch-thread / wire interleaving is "
              "deadlock free (C28_terminates); tied to sftp_file.py by a deterministic direct drive "
              "of the real bookkeeping against the model (vm_compute) and by a real client/server loopback oracle "
              "with seeded short reads every run.")
LEVEL_NOTE = ("Thread timing is outside the proof: the prefetch threads, the wire and the server are an environment "
              "of atomic steps (send / register extent / deliver; a reply whose extent is not registered yet is not "
              "deliverable = the real _async_response spins) chosen by a schedule oracle, any arrival order. "
              "C28_terminates proves deadlock freedom of that interleaving for every reachable state (some step is "
              "enabled while anything is outstanding, every step consumes a finite measure, an idle wire never blocks "
              "the reader). That the real threads only perform such steps is tied, not proved: the shapes of "
              "_async_response / _start_prefetch / _prefetch_thread and MAX_REQUEST_SIZE are re-derived from the "
              "source by gen/c28.py into proof obligations (C28_source_shape), _async_response is driven before and "
              "after a late registration, and loopback runs delay the registration under a watchdog. Fairness of the "
              "OS scheduler and of the prefetch lock is assumed. Server failures other than EOF (saved exception) "
              "are modelled but excluded from the theorems' premises. SFTPClient._expecting bookkeeping belongs to C30.")
TECHNIQUE = ("Coq proof (invariants over an environment LTS, induction over schedules, progress + measure) + source-"
             "derived shape obligations (gen/c28.py) + vm_compute differential correspondence (direct drive) + real "
             "loopback oracle with short reads and delayed extent registration under a watchdog")

WATCHDOG = 12.0


class Starved(Exception):
    """The stub wire has no response left while the reader still waits (= the real call would hang)."""


class StopPlan(Exception):
    pass


# ---------------------------------------------------------------------------------------------
# direct drive: SFTPFile over a stub sftp client (no threads, no network)


class FakeThread:
    def __init__(self, target=None, args=()):
        self.target, self.args = target, args
        self.daemon = True

    def start(self):
        self.target(*self.args)


class ThreadingShim:
    Thread = FakeThread
    Lock = threading.Lock


class StubSftp:
    """Stands in for SFTPClient: records requests, plays scripted / seeded responses."""

    def __init__(self, filedata, first_num, rng):
        self.file = filedata
        self.request_number = first_num
        self.inflight = []          # (num, off, len), oldest first
        self.rng = rng
        self.calls = None           # list of per-_read oracles being recorded: [deliveries, k]
        self.fileobj = None
        self.fail_rate = 0.0

    def _log(self, *a):
        pass

    def _convert_status(self, msg):
        from paramiko.sftp_client import SFTPClient
        return SFTPClient._convert_status(self, msg)

    def _async_request(self, fileobj, t, *args):
        from paramiko.sftp import CMD_READ
        num = self.request_number
        self.request_number += 1
        if t == CMD_READ:
            self.inflight.append((num, int(args[1]), int(args[2])))
        return num

    def _server(self, off, length, k, fail):
        """(t, Message) the server would send (mirror of the model's server_read)."""
        from paramiko.message import Message
        from paramiko.sftp import CMD_DATA, CMD_STATUS, SFTP_EOF, SFTP_FAILURE
        m = Message()
        if fail:
            m.add_int(SFTP_FAILURE)
            m.add_string("Failure")
            m.add_string("")
            m.rewind()
            return CMD_STATUS, m
        if off >= len(self.file):
            m.add_int(SFTP_EOF)
            m.add_string("End of file")
            m.add_string("")
            m.rewind()
            return CMD_STATUS, m
        m.add_string(self.file[off:off + min(length, k)])
        m.rewind()
        return CMD_DATA, m

    def _pick_k(self, length):
        r = self.rng.random()
        if r < 0.35:
            return length + self.rng.randrange(0, 3)
        if r < 0.6:
            return 1 + self.rng.randrange(0, 3)
        return self.rng.randrange(1, max(2, length + 1))

    def _read_response(self, waitfor=None):
        if not self.inflight:
            raise Starved()
        i = 0 if self.rng.random() < 0.6 else self.rng.randrange(len(self.inflight))
        num, off, length = self.inflight.pop(i)
        k = self._pick_k(length)
        fail = self.rng.random() < self.fail_rate
        if self.calls:
            self.calls[-1][0].append((i, k, fail))
        t, m = self._server(off, length, k, fail)
        self.fileobj._async_response(t, m, num)
        return None, None

    def _request(self, t, *args):
        from paramiko.sftp import CMD_READ, CMD_STATUS
        if t != CMD_READ:
            return None, None
        num = self.request_number
        self.request_number += 1
        off, length = int(args[1]), int(args[2])
        k = self._pick_k(length)
        if self.calls:
            self.calls[-1][1] = k
        tt, m = self._server(off, length, k, False)
        if tt == CMD_STATUS:
            self._convert_status(m)
        return tt, m


def make_file(repo_file_mod, stub, maxreq, bufsize):
    from paramiko.sftp_file import SFTPFile
    f = SFTPFile(stub, b"h", "rb", bufsize)
    f.MAX_REQUEST_SIZE = maxreq
    stub.fileobj = f
    return f


def enc_client(f):
    out = [1 if f._prefetch_done else 0, 1 if f._saved_exception is not None else 0, len(f._prefetch_data)]
    for k, v in f._prefetch_data.items():
        out += [k, len(v)] + list(v)
    out.append(len(f._prefetch_extents))
    for n, (o, l) in f._prefetch_extents.items():
        out += [n, o, l]
    return out


def enc_state(f):
    return [1 if f._prefetching else 0, f._realpos, f._pos, len(f._rbuffer)] + enc_client(f)


def coq_data(d):
    return "[" + ";".join("(%d, %s)" % (k, coq(list(v))) for k, v in d) + "]"


def coq_ext(e):
    return "[" + ";".join("(%d, (%d, %d))" % (n, o, l) for n, (o, l) in e) + "]"


def coq_chunks(c):
    return "[" + ";".join("(%d, %d)" % (o, l) for o, l in c) + "]"


def coq_orcs(orcs):
    return "[" + ";".join("([%s], %d)" % (";".join("(%d, %d, %s)" % (i, k, "true" if fl else "false")
                                                     for i, k, fl in dl), k0 if k0 is not None else 1)
                          for dl, k0 in orcs) + "]"


def gen_buffers(rng, filedata):
    """A plausible _prefetch_data: valid slices at random offsets (plus boundary shapes)."""
    d = {}
    for _ in range(rng.randrange(0, 6)):
        o = rng.randrange(0, len(filedata) + 3)
        n = rng.choice([0, 1, 2, rng.randrange(0, 20)])
        d[o] = filedata[o:o + n]
    return d


def gen_extents(rng, first, span):
    e = {}
    num = first
    for _ in range(rng.randrange(0, 6)):
        num += rng.randrange(1, 3)
        o = rng.choice([0, rng.randrange(0, span), rng.randrange(0, span)])
        if e and rng.random() < 0.4:
            po, pl = rng.choice(list(e.values()))
            o = rng.choice([po, po + pl, po + pl - 1, po + pl + 1])
        e[num] = (max(0, o), rng.randrange(1, 12))
    return e


def direct_micro(ctx, scale):
    """_data_in_prefetch_buffers / _data_in_prefetch_requests / _async_response / readv planning."""
    import paramiko.sftp_file as sf
    from paramiko.message import Message
    from paramiko.sftp import CMD_DATA, CMD_STATUS, SFTP_EOF, SFTP_FAILURE
    rng = ctx.rng
    real_threading = sf.threading
    sf.threading = ThreadingShim
    try:
        buf_cases, req_cases, asy_cases, plan_cases = [], [], [], []
        for j in range(100 * scale):
            filedata = bytes(rng.randrange(256) for _ in range(rng.randrange(0, 60)))
            stub = StubSftp(filedata, 1, rng)
            f = make_file(sf, stub, rng.choice([4, 8, 16, 32768]), 0)
            f._prefetch_data = gen_buffers(rng, filedata)
            f._prefetch_extents = gen_extents(rng, 0, 70)
            # -- buffers
            keys = list(f._prefetch_data)
            off = rng.choice(keys + [k + len(f._prefetch_data[k]) for k in keys] + [0, rng.randrange(0, 70)]) \
                + rng.choice([0, 0, -1, 1])
            off = max(0, off)
            r = f._data_in_prefetch_buffers(off)
            buf_cases.append(("(%s, %d)" % (coq_data(f._prefetch_data.items()), off), [-1 if r is None else r]))
            ctx.count(("buf", tuple(f._prefetch_data.items()), off), nontrivial=len(keys) > 0, kind="in-buffers")
            # -- requests
            size = rng.randrange(1, 40)
            try:
                rr = [1 if f._data_in_prefetch_requests(off, size) else 0]
            except RecursionError:
                rr = [99]
            req_cases.append(("(%s, %d, %d)" % (coq_ext(f._prefetch_extents.items()), off, size), rr))
            ctx.count(("req", tuple(f._prefetch_extents.items()), off, size),
                      nontrivial=len(f._prefetch_extents) > 0, kind="in-requests")
            # -- readv planning
            chunks = [(max(0, rng.choice(keys + [0, rng.randrange(0, 70)]) + rng.randrange(-1, 3)),
                       rng.choice([0, 1, rng.randrange(0, 50), rng.randrange(0, 50)]))
                      for _ in range(rng.randrange(0, 5))]
            got = []

            def capture(chs, m=None):
                got.append(list(chs))
                raise StopPlan()
            f._start_prefetch = capture
            try:
                list(f.readv(chunks))
            except StopPlan:
                pass
            except RecursionError:
                got.append(None)
            del f._start_prefetch
            exp = [99] if got[0] is None else [x for c in got[0] for x in c]
            plan_cases.append(("(%d, %s, %s, %s)" % (f.MAX_REQUEST_SIZE, coq_data(f._prefetch_data.items()),
                                                     coq_ext(f._prefetch_extents.items()), coq_chunks(chunks)), exp))
            ctx.count(("plan", f.MAX_REQUEST_SIZE, tuple(f._prefetch_data.items()),
                       tuple(f._prefetch_extents.items()), tuple(chunks)), nontrivial=len(chunks) > 0, kind="readv-plan")
            # -- _async_response (only for registered numbers: an unregistered one spins by design)
            if f._prefetch_extents:
                before_d = list(f._prefetch_data.items())
                before_e = list(f._prefetch_extents.items())
                num = rng.choice(list(f._prefetch_extents))
                f._prefetch_done = rng.random() < 0.3
                dn = f._prefetch_done
                code = rng.choice([0, 0, 1, 1, 2])
                payload = bytes(rng.randrange(256) for _ in range(rng.randrange(0, 9)))
                m = Message()
                if code == 0:
                    t = CMD_DATA
                    m.add_string(payload)
                else:
                    t = CMD_STATUS
                    m.add_int(SFTP_EOF if code == 1 else SFTP_FAILURE)
                    m.add_string("x")
                    m.add_string("")
                m.rewind()
                f._async_response(t, m, num)
                asy_cases.append(("(%s, %s, %s, false, %d, %d, %s)" % (
                    coq_data(before_d), coq_ext(before_e), "true" if dn else "false", num, code,
                    coq(list(payload))), enc_client(f)))
                ctx.count(("async", tuple(before_d), tuple(before_e), dn, num, code, payload), kind="async-response-%d" % code)
                if len(ctx.samples) < 1:
                    ctx.sample({"_async_response": {"extents": before_e, "num": num, "resp": code,
                                                    "after(done,saved,data,extents)": enc_client(f)}})
            f._closed = True
    finally:
        sf.threading = real_threading
    for fn, ty, cases, what in (
            ("run_buffers", "(dict (list Z) * Z)", buf_cases, "_data_in_prefetch_buffers"),
            ("run_requests", "(dict (Z * Z) * Z * Z)", req_cases, "_data_in_prefetch_requests"),
            ("run_plan", "(Z * dict (list Z) * dict (Z * Z) * list (Z * Z))", plan_cases, "readv chunk planning"),
            ("run_async", "(dict (list Z) * dict (Z * Z) * bool * bool * Z * Z * list Z)", asy_cases,
             "_async_response")):
        bad = ctx.model_mismatches(fn, ty, cases)
        for i in bad[:2]:
            ctx.disagree(what + " differs from the model", case=cases[i][0], impl=cases[i][1])


def direct_late_registration(ctx, scale):
    """_async_response for a request number that _prefetch_thread has not recorded yet (the schedule
    send -> deliver -> register): the real code spins until the extent is registered, then stores the
    data and releases the extent.  Model: async_response = None (not enabled) before, Some after."""
    import time
    import paramiko.sftp_file as sf
    from paramiko.message import Message
    from paramiko.sftp import CMD_DATA, CMD_STATUS, SFTP_EOF
    rng = ctx.rng
    before_cases, after_cases, meta = [], [], []
    for j in range(6 * scale):
        filedata = bytes(rng.randrange(256) for _ in range(rng.randrange(10, 60)))
        stub = StubSftp(filedata, 1, rng)
        f = make_file(sf, stub, 32768, 0)
        f._prefetch_data = gen_buffers(rng, filedata)
        f._prefetch_extents = gen_extents(rng, 0, 70)
        num = max(list(f._prefetch_extents) + [0]) + rng.randrange(1, 4)
        off, length = rng.randrange(0, 60), rng.randrange(1, 12)
        code = rng.choice([0, 0, 0, 1])
        payload = bytes(rng.randrange(256) for _ in range(rng.randrange(1, 9)))
        m = Message()
        if code == 0:
            t = CMD_DATA
            m.add_string(payload)
        else:
            t = CMD_STATUS
            m.add_int(SFTP_EOF)
            m.add_string("x")
            m.add_string("")
        m.rewind()
        d0 = list(f._prefetch_data.items())
        e0 = list(f._prefetch_extents.items())
        case = {"data": d0, "extents": e0, "num": num, "extent": [off, length], "resp": code, "payload": payload}
        th = threading.Thread(target=lambda: f._async_response(t, m, num), daemon=True)
        th.start()
        th.join(0.15)
        waiting = th.is_alive()
        before_cases.append(("(%s, %s, false, false, %d, %d, %s)" % (coq_data(d0), coq_ext(e0), num, code,
                                                                     coq(list(payload))),
                             [99] if waiting else enc_client(f)))
        ctx.count(("late-reg", tuple(d0), tuple(e0), num, off, length, code, payload), kind="async-before-registration")
        if not waiting:
            ctx.fail("async-response-not-waiting-for-registration",
                     "_async_response returned for a request number that _prefetch_thread has not recorded yet "
                     "(reply consumed, extent registered afterwards is never released): a later read of that "
                     "chunk waits forever", case=case, expected="waits until the extent is registered",
                     observed="returned; data=%r extents=%r" % (dict(f._prefetch_data), dict(f._prefetch_extents)))
        # _prefetch_thread now records the request
        deadline = time.time() + WATCHDOG
        while True:
            if f._prefetch_lock.acquire(timeout=0.5):
                f._prefetch_extents[num] = (off, length)
                f._prefetch_lock.release()
                break
            if time.time() > deadline:
                break
        th.join(WATCHDOG)
        e1 = e0 + [(num, (off, length))]
        if th.is_alive():
            ctx.fail("async-response-never-completes", "_async_response still spins after its extent was registered",
                     case=case, expected="completes", observed="spins")
            f._prefetch_extents.pop(num, None)
        else:
            ok = num not in f._prefetch_extents and (code != 0 or f._prefetch_data.get(off) == payload)
            if not ok and waiting:
                ctx.fail("async-response-late-registration-lost",
                         "after late registration the reply's data is not buffered at the extent's offset or the "
                         "extent is not released", case=case, expected={"data_at": off, "extent_released": True},
                         observed={"data": dict(f._prefetch_data), "extents": dict(f._prefetch_extents)})
            if waiting:
                after_cases.append(("(%s, %s, false, false, %d, %d, %s)" % (coq_data(d0), coq_ext(e1), num, code,
                                                                            coq(list(payload))), enc_client(f)))
        f._closed = True
    ty = "(dict (list Z) * dict (Z * Z) * bool * bool * Z * Z * list Z)"
    cases = before_cases + after_cases
    try:
        bad = ctx.model_mismatches("run_async", ty, cases)
    except Exception as e:   # the oracle above does not depend on the model
        ctx.disagree("model evaluation failed: %s" % e)
        bad = []
    for i in bad[:3]:
        what = ("_async_response before the extent is registered (model: not enabled, the real code spins)"
                if i < len(before_cases) else "_async_response once the extent is registered late")
        ctx.disagree(what + " differs from the model", case=cases[i][0], impl=cases[i][1])


def gen_session(rng):
    n = rng.choice([0, 1, 5, rng.randrange(0, 120), rng.randrange(20, 120)])
    filedata = bytes(rng.randrange(1, 256) for _ in range(n))
    maxreq = rng.choice([4, 7, 16, 32])
    bufsize = rng.choice([0, 0, 3, 10, -1])
    ops = []
    for _ in range(rng.randrange(1, 7)):
        r = rng.random()
        span = n + 12
        if r < 0.25:
            ops.append(("prefetch", rng.choice([n, n, n + rng.randrange(0, 40), max(0, n - rng.randrange(0, 10)),
                                                rng.randrange(0, n + 1), rng.randrange(0, n + 1)])))
        elif r < 0.36:
            ops.append(("seekcur", rng.randrange(-15, 16)))
        elif r < 0.45:
            ops.append(("seek", rng.randrange(0, span)))
        elif r < 0.7:
            ops.append(("read", rng.choice([0, 1, rng.randrange(0, 30), rng.randrange(0, span)])))
        else:
            chunks = []
            for _ in range(rng.randrange(0, 5)):
                o = rng.randrange(0, span)
                if chunks and rng.random() < 0.4:
                    o = max(0, chunks[-1][0] + rng.randrange(-5, 6))
                chunks.append((o, rng.choice([0, 1, rng.randrange(0, 25), rng.randrange(0, 3 * maxreq + 5)])))
            ops.append(("readv", chunks))
    return filedata, maxreq, bufsize, rng.randrange(1, 6), ops


def run_session_impl(rng, sess, fail_rate):
    """Drive a real SFTPFile over the stub; returns (canonical output, coq ops text, oracle failures)."""
    import paramiko.sftp_file as sf
    filedata, maxreq, bufsize, first, ops = sess
    stub = StubSftp(filedata, first, rng)
    stub.fail_rate = fail_rate
    f = make_file(sf, stub, maxreq, bufsize)
    eff_bufsize = f._bufsize if (f._flags & f.FLAG_BUFFERED) else 0
    orig_read = f._read
    orig_seek = f.seek
    chunk_calls = []

    def wrapped_read(size):
        stub.calls.append([[], None])
        return orig_read(size)

    def wrapped_seek(offset, whence=0):
        if chunk_calls is not None and in_readv[0]:
            stub.calls = []
            chunk_calls.append(stub.calls)
        return orig_seek(offset, whence)
    in_readv = [False]
    f._read = wrapped_read
    f.seek = wrapped_seek
    out = []
    coq_ops = []
    failures = []
    ended = False
    for op in ops:
        if op[0] == "prefetch":
            f.prefetch(op[1])
            coq_ops.append("OpPrefetch %d" % op[1])
        elif op[0] == "seek":
            f.seek(op[1])
            coq_ops.append("OpSeek %d" % op[1])
        elif op[0] == "seekcur":
            d = max(op[1], -f._pos)          # a negative position is refused (IOError), not part of this property
            want = f._pos + d
            f.seek(d, 1)
            coq_ops.append("OpSeekCur %s" % coq(d))
            if f._pos != want or f._realpos != want:
                failures.append(("seek(SEEK_CUR)", want, 0, bytes()))
        elif op[0] == "read":
            stub.calls = []
            pos = f._pos
            try:
                d = f.read(op[1])
                out += [-1, 0, len(d)] + list(d)
                if d != filedata[pos:pos + op[1]]:
                    failures.append(("read", pos, op[1], d))
            except Starved:
                out += [-1, 2, -8]
                failures.append(("blocked-read", pos, op[1], None))
                ended = True
            except IOError:
                out += [-1, 1, -8]
                ended = True
            coq_ops.append("OpRead %d %s" % (op[1], coq_orcs(stub.calls)))
        else:
            chunks = op[1]
            del chunk_calls[:]
            stub.calls = []
            in_readv[0] = True
            out.append(-2)
            got = 0
            try:
                for d in f.readv(chunks):
                    out += [0, len(d)] + list(d)
                    o, n = chunks[got]
                    if d != filedata[o:o + n]:
                        failures.append(("readv", o, n, d))
                    got += 1
            except Starved:
                out += [2, -8]
                failures.append(("blocked-readv", chunks[got][0], chunks[got][1], None))
                ended = True
            except IOError:
                out += [1, -8]
                ended = True
            except RecursionError:
                out = None
                ended = True
            in_readv[0] = False
            coq_ops.append("OpReadv %s [%s]" % (coq_chunks(chunks), ";".join(coq_orcs(c) for c in chunk_calls)))
        if ended:
            break
    if out is not None and not ended:
        out += [-9] + enc_state(f)
    f._closed = True
    text = "(%s, %d, %d, %d, [%s])" % (coq(list(filedata)), maxreq, eff_bufsize, first, ";".join(coq_ops))
    return out, text, failures


def direct_sessions(ctx, scale):
    import paramiko.sftp_file as sf
    rng = ctx.rng
    real_threading = sf.threading
    sf.threading = ThreadingShim
    cases = []
    try:
        fixed = [
            # prefetch(file_size) smaller than the file, then read through and past the prefetched range
            (bytes(range(1, 61)), 16, 0, 1, [("prefetch", 30), ("read", 60), ("read", 5)]),
            (bytes(range(1, 61)), 16, 3, 2, [("prefetch", 17), ("seek", 10), ("read", 20), ("read", 40)]),
            (bytes(range(1, 41)), 8, 0, 1, [("prefetch", 0), ("read", 40)]),
            (bytes(range(1, 41)), 8, 0, 1, [("prefetch", 16), ("readv", [(10, 25), (0, 40)]), ("read", 3)]),
            # relative seeks while the read buffer holds look-ahead data (bufsize > 1)
            (bytes(range(1, 101)), 16, 10, 1, [("prefetch", 100), ("read", 3), ("seekcur", 5), ("read", 4),
                                               ("seekcur", -2), ("read", 30)]),
            (bytes(range(1, 101)), 32, -1, 1, [("read", 3), ("seekcur", 7), ("read", 4), ("prefetch", 100),
                                               ("seekcur", 0), ("read", 50)]),
        ]
        for j in range(150 * scale):
            sess = fixed[j] if j < len(fixed) else gen_session(rng)
            fail_rate = 0.04 if rng.random() < 0.15 and j >= len(fixed) else 0.0
            out, text, failures = run_session_impl(rng, sess, fail_rate)
            if out is None or len(text) > 40000:
                continue
            cases.append((text, out, sess))
            ctx.count(("session", sess), nontrivial=len(sess[4]) > 0 and len(sess[0]) > 0,
                      kind="session-%s" % "+".join(sorted({o[0] for o in sess[4]})))
            for kind, o, n, d in failures[:1]:
                filedata = sess[0]
                if kind.startswith("blocked"):
                    ctx.fail("direct-wait-forever",
                             "the reader waits for a prefetch response although none is outstanding (no threads, "
                             "stub wire): the real call would block forever",
                             case={"file_len": len(filedata), "maxreq": sess[1], "bufsize": sess[2], "ops": sess[4],
                                   "at": [o, n]}, expected="returns file[o:o+n]", observed="blocks")
                else:
                    ctx.fail("direct-wrong-bytes",
                             "%s returned bytes that differ from the file at the requested offset" % kind,
                             case={"file": filedata, "maxreq": sess[1], "bufsize": sess[2], "ops": sess[4],
                                   "at": [o, n]}, expected=filedata[o:o + n], observed=d)
            if j == 3:
                ctx.sample({"session": {"file_len": len(sess[0]), "maxreq": sess[1], "ops": sess[4], "impl": out[:60]}})
    finally:
        sf.threading = real_threading
    bad = ctx.model_mismatches("run_session", "(list Z * Z * Z * Z * list op)", [(t, o) for t, o, _ in cases], shard=40)
    for i in bad[:3]:
        s = cases[i][2]
        ctx.disagree("scripted prefetch/seek/read/readv session differs from the model",
                     case={"file_len": len(s[0]), "maxreq": s[1], "bufsize": s[2], "ops": s[4]}, impl=cases[i][1][:200])


# ---------------------------------------------------------------------------------------------
# real client / server over a loopback, server handle returns short reads


class Rig:
    def __init__(self, repo, root):
        import paramiko
        from _loop import LoopSocket
        from _stub_sftp import StubServer, StubSFTPServer
        StubSFTPServer.ROOT = root
        a, b = LoopSocket(), LoopSocket()
        a.link(b)
        self.tc = paramiko.Transport(a)
        self.ts = paramiko.Transport(b)
        self.ts.add_server_key(paramiko.RSAKey.from_private_key_file(
            os.path.join(repo, "tests", "_support", "rsa.key")))
        self.ts.set_subsystem_handler("sftp", paramiko.SFTPServer, StubSFTPServer)
        self.ts.start_server(threading.Event(), StubServer())
        self.tc.connect(username="slowdive", password="pygmalion")
        self.sftp = paramiko.SFTPClient.from_transport(self.tc)

    def close(self):
        for x in (self.sftp, self.tc, self.ts):
            try:
                x.close()
            except Exception:
                pass


SHORT = {"mode": "full", "seed": 0, "maxlen": 0}


class PausingLock:
    """Wraps a file's _prefetch_lock: threads other than the reader pause right after releasing it, so the
    reader gets to run at that switch point (between a critical section of _prefetch_thread and its next
    statement)."""

    def __init__(self, inner, reader, pause):
        self.inner, self.reader, self.pause = inner, reader, pause

    def _after(self):
        if threading.current_thread() is not self.reader:
            import time
            time.sleep(self.pause)

    def __enter__(self):
        return self.inner.__enter__()

    def __exit__(self, *exc):
        r = self.inner.__exit__(*exc)
        self._after()
        return r

    def acquire(self, *a, **k):
        return self.inner.acquire(*a, **k)

    def release(self):
        self.inner.release()
        self._after()


def short_len(offset, length):
    mode = SHORT["mode"]
    if mode == "full" or length <= 1:
        return length
    h = (offset * 2654435761 + length * 40503 + SHORT["seed"] * 97) & 0xFFFFFFFF
    h ^= h >> 13
    if mode == "tiny":
        return 1 + h % min(length, 97)
    if mode == "half":
        return max(1, length // 2 + (h % 3) - 1)
    return 1 + h % length          # "random": any non-empty prefix


class ShortFile:
    """Backing file object of a served handle that returns fewer bytes than asked (pipe / raw-device like),
    decided by the seeded SHORT mode.  The real SFTPHandle.read runs on top of it, unmodified."""

    def __init__(self, inner):
        self._inner = inner

    def read(self, n=-1):
        if n is None or n < 0:
            return self._inner.read(n)
        SHORT["maxlen"] = max(SHORT["maxlen"], n)
        return self._inner.read(short_len(self._inner.tell(), n))

    def __getattr__(self, name):
        return getattr(self._inner, name)


def install_short_reads():
    """Make every handle the stub server opens read from a short-reading backing file.  Returns the
    (untouched) SFTPHandle.read so that callers' restore code stays a no-op."""
    from paramiko.sftp_handle import SFTPHandle
    from _stub_sftp import StubSFTPServer
    if not getattr(StubSFTPServer.open, "_c28_short", False):
        orig_open = StubSFTPServer.open

        def open_(self, path, flags, attr):
            fobj = orig_open(self, path, flags, attr)
            rf = getattr(fobj, "readfile", None)
            if rf is not None and not isinstance(rf, ShortFile):
                fobj.readfile = ShortFile(rf)
            return fobj
        open_._c28_short = True
        StubSFTPServer.open = open_
    return SFTPHandle.read


def gen_real_case(rng, thorough):
    sizes = [0, 1, 100, 32767, 32768, 32769, 65536, 40000, rng.randrange(0, 307201), rng.randrange(0, 100000),
             rng.randrange(0, 307201)]
    size = rng.choice(sizes)
    mode = rng.choice(["full", "random", "random", "half", "tiny"])
    if mode == "tiny":
        size = min(size, rng.choice([100, 3000, 9000]))
    elif mode in ("random", "half") and size > 150000 and not thorough:
        size = rng.randrange(0, 150000)
    ops = []
    span = size + 70000
    for _ in range(rng.randrange(1, 6)):
        r = rng.random()
        cap = rng.choice([None, None, 1, 2, 3, 5, 8])
        if r < 0.3:
            ops.append(["prefetch", cap, rng.choice([None, None, size + rng.randrange(0, 80000),
                                                     rng.randrange(0, size + 1), max(0, size - rng.randrange(1, 5000))])])
        elif r < 0.34:
            ops.append(["grow", rng.choice([1, 100, rng.randrange(1, 70000)])])
        elif r < 0.38:
            ops.append(["seek", rng.choice([0, 1, -1, rng.randrange(-9000, 9000), rng.randrange(-70000, 70000)]),
                        rng.choice([1, 1, 2])])
        elif r < 0.45:
            ops.append(["seek", rng.choice([0, rng.randrange(0, size + 10), rng.randrange(0, span)])])
        elif r < 0.7:
            lim = 4000 if mode == "tiny" else 120000
            ops.append(["read", rng.choice([0, 1, 10, rng.randrange(0, lim), rng.randrange(0, lim)])])
        else:
            chunks = []
            lim = 3000 if mode == "tiny" else 100000
            for _ in range(rng.randrange(0, 6)):
                o = rng.choice([0, rng.randrange(0, size + 1), rng.randrange(0, size + 1), rng.randrange(0, span)])
                if chunks and rng.random() < 0.4:
                    o = max(0, chunks[-1][0] + rng.randrange(-3000, 3000))
                chunks.append([o, rng.choice([0, 1, 10, rng.randrange(0, lim), rng.randrange(0, 40000) % (lim + 1)])])
            ops.append(["readv", chunks, cap])
    case = {"size": size, "mode": mode, "seed": rng.randrange(1 << 30), "ops": ops,
            "bufsize": rng.choice([-1, -1, 0, 2, 100, 8192, 40000])}
    if rng.random() < 0.15:
        osize = rng.choice([1, 6000, rng.randrange(1, 120000)])
        k = rng.randrange(0, len(ops) + 1)
        case["second"] = osize
        case["ops"] = ops[:k] + [["other", rng.randrange(0, osize), rng.randrange(0, 40000), True]] + ops[k:]
        return case
    if rng.random() < 0.15 and size <= 70000:
        # switch point after every critical section of the prefetch thread; the application pauses between ops
        case["pause"] = rng.choice([0.02, 0.05])
        case["ops"] = [x for op in ops for x in (op, ["wait", 3 * case["pause"]])]
    elif rng.random() < 0.3 and size <= 200000:
        case["delay"] = rng.choice([0.01, 0.03, 0.06])      # open the send -> register race window
    return case


def file_bytes(size, seed):
    import random
    r = random.Random(seed)
    block = bytes(r.randrange(256) for _ in range(251))
    reps = size // 251 + 1
    out = bytearray()
    for i in range(reps):
        out += block[i % 251:] + block[:i % 251]
    return bytes(out[:size])


def execute_real(rig, root, case, name):
    """Returns None if the property held, else (key, what, detail, expected, observed)."""
    data = file_bytes(case["size"], case["seed"])
    with open(os.path.join(root, name), "wb") as fh:
        fh.write(data)
    SHORT["mode"], SHORT["seed"], SHORT["maxlen"] = case["mode"], case["seed"], 0
    res = {}
    delay = case.get("delay") or 0
    orig_async = rig.sftp._async_request
    reader = {}

    def slow_async_request(fileobj, t, *args):
        # the request is on the wire, but _prefetch_thread gets its number (and records the extent) late:
        # the reader sees the reply first and _async_response has to wait for the registration
        num = orig_async(fileobj, t, *args)
        if threading.current_thread() is not reader.get("t"):
            import time
            time.sleep(delay)
        return num

    chan = rig.sftp.sock
    orig_send = chan.send

    def partial_send(bts):
        # a socket may accept only part of a buffer (Channel.send does so for > max-packet buffers and short
        # windows); the sender comes back for the rest -- another thread's packet must not get in between
        import time
        n = orig_send(bts[:max(1, len(bts) // 2)])
        time.sleep(0.001)
        return n

    def body():
        reader["t"] = threading.current_thread()
        if delay:
            rig.sftp._async_request = slow_async_request
        if case.get("partial_send"):
            chan.send = partial_send
        nonlocal data
        import paramiko
        sftp, other, g, odata = rig.sftp, None, None, b""
        if case.get("second"):
            # two live sftp sessions (two SFTPServer objects in the server process), both fresh so that they hand
            # out the same handle names; the second opens ANOTHER file after the first
            sftp = paramiko.SFTPClient.from_transport(rig.tc)
            other = paramiko.SFTPClient.from_transport(rig.tc)
        f = sftp.open("/" + name, "rb", case.get("bufsize", -1))
        if other is not None:
            odata = file_bytes(case["second"], case["seed"] + 99)
            with open(os.path.join(root, "o" + name), "wb") as fh:
                fh.write(odata)
            g = other.open("/o" + name, "rb")
            g.prefetch()
            d = g.read(5000)
            if d != odata[:5000]:
                res["bad"] = ("wrong-bytes-other-session", "a second sftp session read other bytes than its file holds",
                              -1, odata[:5000], d)
                return
        if case.get("pause"):
            f._prefetch_lock = PausingLock(f._prefetch_lock, reader["t"], case["pause"])
        pos = 0
        for idx, op in enumerate(case["ops"]):
            if op[0] == "prefetch":
                f.prefetch(op[2], op[1])
            elif op[0] == "grow":
                # the file is appended to after the client learnt its size (stat lags behind the file)
                extra = file_bytes(op[1], case["seed"] + idx + 1)
                with open(os.path.join(root, name), "ab") as fh:
                    fh.write(extra)
                data = data + extra
            elif op[0] == "wait":
                import time
                time.sleep(op[1])
            elif op[0] == "write":
                # another request stream on the same SFTPClient while the prefetch thread is still sending
                payload = file_bytes(op[1], case["seed"] + idx + 7)
                with rig.sftp.open("/w" + name, "wb") as fb:
                    fb.write(payload)
                with open(os.path.join(root, "w" + name), "rb") as fh:
                    disk = fh.read()
                os.unlink(os.path.join(root, "w" + name))
                if disk != payload:
                    res["bad"] = ("wrong-bytes-written", "a write issued while a prefetch was in progress stored other "
                                  "bytes", idx, len(payload), len(disk))
                    return
            elif op[0] == "seek":
                whence = op[2] if len(op) > 2 else 0
                base = 0 if whence == 0 else (pos if whence == 1 else len(data))
                off = max(op[1], -base)          # negative positions are refused; not part of this property
                f.seek(off, whence)
                pos = base + off
                if f.tell() != pos:
                    res["bad"] = ("wrong-position-after-seek", "seek(%d, %d) left tell() at %d, expected %d"
                                  % (off, whence, f.tell(), pos), idx, pos, f.tell())
                    return
            elif op[0] == "other":
                # the second session goes on with its own file in between, then closes it
                g.seek(op[1])
                d = g.read(op[2])
                if d != odata[op[1]:op[1] + op[2]]:
                    res["bad"] = ("wrong-bytes-other-session", "the second sftp session read other bytes than its "
                                  "file holds", idx, odata[op[1]:op[1] + op[2]], d)
                    return
                if op[3]:
                    g.close()
                    other.close()
            elif op[0] == "read":
                d = f.read(op[1])
                exp = data[pos:pos + op[1]]
                if d != exp:
                    res["bad"] = ("wrong-bytes-read", "read(%d) at %d after prefetch/seeks returned other bytes "
                                  "than the file holds there" % (op[1], pos), idx, exp, d)
                    return
                pos += len(d)
            else:
                outs = list(f.readv([tuple(c) for c in op[1]], op[2]))
                for (o, n), d in zip(op[1], outs):
                    exp = data[o:o + n]
                    if d != exp:
                        res["bad"] = ("wrong-bytes-readv", "readv chunk (%d, %d) returned other bytes than "
                                      "file[%d:%d]" % (o, n, o, o + n), idx, exp, d)
                        return
                if len(outs) != len(op[1]):
                    res["bad"] = ("wrong-bytes-readv", "readv returned %d blocks for %d chunks" % (len(outs), len(op[1])),
                                  idx, len(op[1]), len(outs))
                    return
                if op[1]:
                    pos = op[1][-1][0] + len(outs[-1])
        f.close()
        if case.get("second"):
            for c in (other, sftp):
                try:
                    c.close()
                except Exception:
                    pass
            try:
                os.unlink(os.path.join(root, "o" + name))
            except OSError:
                pass

    try:
        st, v = with_watchdog(body, case.get("watchdog", WATCHDOG))
    finally:
        for obj, attr in ((rig.sftp, "_async_request"), (chan, "send")):
            try:
                delattr(obj, attr)
            except AttributeError:
                pass
    if st == "hang":
        return ("hang", "a prefetched read / readv did not return within %.0f s (reader waits for a response that is "
                "not outstanding)" % WATCHDOG, None, "returns", "blocks")
    if st == "exc":
        return ("exception", "prefetched read / readv raised %s: %s" % (type(v).__name__, v), None, "bytes",
                type(v).__name__)
    if "bad" in res:
        return res["bad"]
    from paramiko.sftp_file import SFTPFile
    if SHORT["maxlen"] > SFTPFile.MAX_REQUEST_SIZE:
        return ("request-exceeds-max", "the client sent a READ request for %d bytes, more than MAX_REQUEST_SIZE"
                % SHORT["maxlen"], None, SFTPFile.MAX_REQUEST_SIZE, SHORT["maxlen"])
    return None


REGRESSIONS = [
    # (key, what, case) — the three defects of the unrepaired _async_response / _start_prefetch
    ("readv-stale-eof-status",
     "an EOF status of a beyond-EOF prefetch request is saved and raised at the next read of another offset: "
     "readv([(0, 100000), (0, 10)]) on a 40000-byte file returns b'' for the second chunk",
     {"size": 40000, "mode": "full", "seed": 11, "ops": [["readv", [[0, 100000], [0, 10]], None]]}),
    ("readv-past-eof-then-read-hangs",
     "a STATUS response never releases its extent, so _prefetch_done is never set: readv past EOF followed by "
     "seek(0); read(10) blocks forever",
     {"size": 40000, "mode": "full", "seed": 12, "ops": [["readv", [[40005, 10]], None], ["seek", 0], ["read", 10]]}),
    ("readv-empty-plan-hangs",
     "_start_prefetch([]) clears _prefetch_done although nothing is requested: after prefetch + partial reads, "
     "readv of a range whose start is buffered blocks forever",
     {"size": 40000, "mode": "full", "seed": 13,
      "ops": [["prefetch", None, None], ["read", 10], ["seek", 32768], ["read", 7232], ["readv", [[20, 39000]], None]]}),
    ("readv-past-eof-capped-hangs",
     "with max_concurrent_prefetch_requests=1 an EOF status keeps its extent, the prefetch thread never sends the "
     "next request and the reader blocks",
     {"size": 500, "mode": "full", "seed": 14, "ops": [["readv", [[600, 10], [0, 10]], 1]]}),
    ("prefetch-underestimated-size",
     "prefetch(file_size=N) with N smaller than the file: reads through and past N must still return the file's bytes "
     "(not stop at N)",
     {"size": 100000, "mode": "full", "seed": 17,
      "ops": [["prefetch", None, 40000], ["read", 100000], ["read", 10]]}),
    ("prefetch-file-grew-after-stat",
     "the file is appended to after prefetch() learnt its size: reads past the old end must return the new bytes",
     {"size": 50000, "mode": "random", "seed": 18,
      "ops": [["prefetch", None, None], ["read", 20000], ["grow", 30000], ["read", 100000], ["seek", 79990], ["read", 50]]}),
    ("prefetch-done-flag-lost-at-thread-switch",
     "the reader consumes the last reply right after _prefetch_thread left its critical section (switch point forced "
     "by a pausing lock); a later read that runs off the buffers must not wait for a reply that is not outstanding",
     {"size": 100, "mode": "full", "seed": 19, "pause": 0.3,
      "ops": [["prefetch", None, None], ["read", 50], ["wait", 0.9], ["read", 100]]}),
    ("prefetch-done-flag-lost-at-thread-switch-capped",
     "same switch point with max_concurrent_requests=1 and two chunks",
     {"size": 40000, "mode": "full", "seed": 20, "pause": 0.15,
      "ops": [["prefetch", 1, None], ["read", 39000], ["wait", 0.8], ["read", 5000]]}),
    ("server-short-read-then-adjacent-read",
     "the served file object returns short reads; after prefetch() a forward seek into a later chunk must still "
     "return the file's bytes (the server has to serve every READ from its own offset)",
     {"size": 100000, "mode": "half", "seed": 22,
      "ops": [["prefetch", None, None], ["seek", 32768], ["read", 1000], ["seek", 65541], ["read", 100]]}),
    ("server-short-read-then-adjacent-read-readv",
     "same through readv of adjacent large ranges followed by a second readv that re-uses the buffers",
     {"size": 120000, "mode": "random", "seed": 23,
      "ops": [["readv", [[0, 70000]], None], ["readv", [[32768, 500], [65536, 500], [40000, 30000]], None],
              ["seek", 98304], ["read", 2000]]}),
    ("relative-seek-with-read-buffer",
     "a file opened with bufsize > 1 holds look-ahead data in its read buffer: seek(d, SEEK_CUR) / seek(d, SEEK_END) "
     "must move relative to the position the application sees, and the following reads return the file's bytes there",
     {"size": 90000, "mode": "full", "seed": 24, "bufsize": 100,
      "ops": [["prefetch", None, None], ["read", 10], ["seek", 5, 1], ["read", 20], ["seek", -3, 1], ["read", 4],
              ["seek", 40000, 1], ["read", 5000], ["seek", -10, 2], ["read", 20]]}),
    ("relative-seek-with-read-buffer-default-bufsize",
     "same with the default buffering of SFTPClient.open and readv in between",
     {"size": 70000, "mode": "random", "seed": 25,
      "ops": [["read", 7], ["seek", 1, 1], ["read", 3], ["readv", [[100, 50], [65000, 9000]], None], ["seek", -20, 1],
              ["read", 40], ["prefetch", 2, None], ["seek", 32768, 1], ["read", 100]]}),
    ("two-sessions-same-handle-name",
     "two sftp sessions are alive in the server process and the second opens another file after the first (both get "
     "the handle name of a fresh session): prefetch / readv / reads of the first must still return ITS file's bytes, "
     "also after the second session closed",
     {"size": 50000, "mode": "full", "seed": 26, "second": 30000,
      "ops": [["prefetch", None, None], ["read", 100], ["seek", 40000], ["read", 5000], ["other", 100, 2000, False],
              ["readv", [[10, 50], [20000, 40000]], None], ["other", 29000, 5000, True], ["seek", 5], ["read", 45000]]}),
    ("concurrent-send-interleaves",
     "BaseSFTP._send_packet is not a critical section: while a prefetch thread is still sending READ requests, another "
     "request of the same SFTPClient that needs more than one sock.send (partial sends) gets the thread's bytes in "
     "between; the server reads garbage and the session wedges or is dropped",
     {"size": 1000, "mode": "full", "seed": 21, "partial_send": True, "watchdog": 6.0,
      "ops": [["prefetch", None, 4194304], ["write", 300000], ["seek", 0], ["read", 1000]]}),
    ("reply-before-extent-registered",
     "the reader receives a prefetch reply before _prefetch_thread has recorded the request (registration delayed "
     "0.15 s): the reply must wait for the registration; otherwise the extent is never released and read() after "
     "prefetch() never returns",
     {"size": 50000, "mode": "full", "seed": 15, "delay": 0.15,
      "ops": [["prefetch", None, None], ["read", 50000], ["seek", 100], ["read", 50]]}),
    ("reply-before-extent-registered-capped",
     "the same race with max_concurrent_requests=1 and a following readv",
     {"size": 70000, "mode": "random", "seed": 16, "delay": 0.1,
      "ops": [["prefetch", 1, None], ["read", 40000], ["readv", [[100, 50], [60000, 20000], [5, 5]], None]]}),
]


def real_oracle(ctx, scale):
    rng = ctx.rng
    root = tempfile.mkdtemp(prefix="verif-c28-")
    orig = install_short_reads()
    rig = None
    hangs = 0
    try:
        rig = Rig(ctx.repo, root)
        n = 0
        todo = [(k, w, c) for k, w, c in REGRESSIONS] + [(None, None, None)] * (38 * scale)
        for key, what, case in todo:
            if hangs >= 4:
                ctx.notes.append("real-server oracle stopped early after %d hangs" % hangs)
                break
            if case is None:
                case = gen_real_case(rng, ctx.thorough)
            n += 1
            import time
            t0 = time.time()
            r = execute_real(rig, root, case, "f%d" % n)
            if time.time() - t0 > 3:
                ctx.log("slow real case %.1fs: %s -> %s" % (time.time() - t0, str(case)[:300], r and r[0]))
            ctx.count(("real", repr(case)), nontrivial=case["size"] > 0 and len(case["ops"]) > 0,
                      kind="real-%s%s-%s" % (case["mode"], "-latereg" if case.get("delay") else
                                             ("-switch" if case.get("pause") else ""),
                                             "+".join(sorted({o[0] for o in case["ops"]}))))
            if r is not None and r[0] in ("hang", "exception") and key is None:
                # retry once on a fresh connection before believing a timing-dependent failure
                rig.close()
                rig = Rig(ctx.repo, root)
                r = execute_real(rig, root, case, "f%dr" % n)
            if r is not None:
                k = key or ("real-" + r[0])
                ctx.fail(k, what or r[1], case=case, expected=r[3], observed=r[4])
                if r[0] in ("hang", "exception"):
                    hangs += 1
                    rig.close()
                    rig = Rig(ctx.repo, root)
            if n == len(REGRESSIONS) + 1:
                ctx.sample({"real-server case": {k2: case[k2] for k2 in ("size", "mode", "ops")}, "held": r is None})
            try:
                os.unlink(os.path.join(root, "f%d" % n))
            except OSError:
                pass
    finally:
        from paramiko.sftp_handle import SFTPHandle
        SFTPHandle.read = orig
        SHORT["mode"] = "full"
        if rig is not None:
            rig.close()
        shutil.rmtree(root, ignore_errors=True)


def run(ctx):
    scale = 4 if ctx.thorough else 1
    ctx.rule = ("seeded (random.Random('C28-<seed>')). Direct drive: random prefetch-buffer / extent dictionaries with "
                "offsets at and around buffer and extent boundaries; scripted sessions (files 0..120 bytes, "
                "MAX_REQUEST_SIZE 4..32, bufsize 0/3/10/default, prefetch with right / too large / too small size, "
                "seeks, reads, readv with overlapping / unordered / beyond-EOF chunks, responses delivered in random "
                "order with random short reads, occasional failure status). Real server: files 0..300 KiB (boundaries "
                "32767/32768/32769/65536), the served backing file object returns full / random / half / tiny prefixes under the real SFTPHandle.read, files opened with "
                "bufsize -1/0/2/100/8192/40000, prefetch with cap None or 1..8, absolute / SEEK_CUR / SEEK_END seeks, a "
                "second live sftp session with another file open at the same time, readv lists overlapping / unordered / beyond EOF. A case is non-trivial "
                "when distinct and its file and op list are non-empty.")
    ctx.trusted += ["model coq/Model/C28.v is hand-written; tied to paramiko/sftp_file.py (and the read loop of "
                    "file.py) by the direct-drive differential run (vm_compute of the model's own definitions)",
                    "the stub wire's server (StubSftp._server) mirrors the model's server_read; that the real "
                    "SFTPServer behaves so (non-empty prefix or EOF status) is exercised by the loopback oracle",
                    "thread steps of _prefetch_thread are atomic send / register actions in the model; the real "
                    "threads are exercised only by the loopback oracle under a watchdog"]
    ctx.assumptions += ["the file does not change while it is read", "requests are answered by data (a non-empty "
                        "prefix) or an EOF status; other error statuses are outside the theorems' premises",
                        "max_concurrent_requests is None or >= 1"]
    ctx.prove()
    import time
    for fn in (direct_micro, direct_late_registration, direct_sessions, real_oracle):
        t0 = time.time()
        fn(ctx, scale)
        ctx.log("%s: %.1fs" % (fn.__name__, time.time() - t0))


def _unhex(v):
    if isinstance(v, dict) and "hex" in v:
        return bytes.fromhex(v["hex"])
    return v


def replay(ctx, rep):
    case = rep["case"]
    if isinstance(case, dict) and "mode" in case and "size" in case:
        root = tempfile.mkdtemp(prefix="verif-c28-")
        orig = install_short_reads()
        rig = None
        try:
            rig = Rig(ctx.repo, root)
            r = execute_real(rig, root, case, "replay")
            ctx.count(("replay", repr(case)))
            ctx.count(("replay2", repr(case)))
            if r is not None:
                ctx.fail(rep["key"], rep["what"], case=case, expected=r[3], observed=r[4])
        finally:
            from paramiko.sftp_handle import SFTPHandle
            SFTPHandle.read = orig
            if rig is not None:
                rig.close()
            shutil.rmtree(root, ignore_errors=True)
    else:
        run(ctx)
