"""C39 translator: constants and statement shapes of paramiko/message.py (Message add_*/get_*) and
util.deflate_long / util.inflate_long.

generate(repo) -> {"C39_gen.v": text}.  Fail-closed: every modelled function's body (docstrings and
comments dropped, `ast.unparse` normal form) must match the template below statement by statement; the
numeric / string literals in the holes `{name}` are captured and emitted, everything else must be
literally what the hand-written model in coq/Model/C39.v mirrors.  A body that no longer matches raises
(the check then reports a broken obligation and the oracle searches for the concrete input).

Emitted: one `Definition c39_<name> : Z` per captured literal; Proofs/C39_proofs.v proves them equal to the
values the model uses (theorem C39_source_constants).
"""
import ast
import os
import re

HOLE = re.compile(r"\{(\w+)\}")


def _body(fn):
    return [s for s in fn.body
            if not (isinstance(s, ast.Expr) and isinstance(s.value, ast.Constant) and isinstance(s.value.value, str))]


def _norm(fn):
    return "\n".join(ast.unparse(s) for s in _body(fn))


def _match(name, got, template, out):
    parts = HOLE.split(template)
    rx = ""
    for i, p in enumerate(parts):
        if i % 2 == 0:
            rx += re.escape(p)
        elif p in rx:                       # repeated hole: back-reference
            rx += "(?P=%s)" % p
        else:
            rx += r"(?P<%s>-?\d+|'[^'\\]*')" % p
    m = re.fullmatch(rx, got)
    if m is None:
        raise RuntimeError("%s: body no longer has the modelled shape:\n%s\n--- expected shape ---\n%s" % (name, got, template))
    for k, v in m.groupdict().items():
        key = k
        if key in out and out[key] != v:
            raise RuntimeError("%s: literal %s = %s differs from its other occurrence %s" % (name, k, v, out[key]))
        out[key] = v


UTIL = {
    "inflate_long": ("s, always_positive=False", """out = 0
negative = 0
if not always_positive and len(s) > 0 and (byte_ord(s[0]) >= {inf_sign}):
    negative = 1
if len(s) % {inf_word}:
    filler = zero_byte
    if negative:
        filler = max_byte
    s = filler * ({inf_word} - len(s) % {inf_word}) + s
for i in range(0, len(s), {inf_word}):
    out = (out << {inf_shift}) + struct.unpack({fmt_u32}, s[i:i + {inf_word}])[0]
if negative:
    out -= 1 << {inf_bits} * len(s)
return out"""),
    "deflate_long": ("n, add_sign_padding=True", """s = bytes()
n = int(n)
while n != 0 and n != -1:
    s = struct.pack({fmt_u32}, n & xffffffff) + s
    n >>= {def_shift}
for i in enumerate(s):
    if n == 0 and i[1] != 0:
        break
    if n == -1 and i[1] != {def_ff}:
        break
else:
    i = (0,)
    if n == 0:
        s = zero_byte
    else:
        s = max_byte
s = s[i[0]:]
if add_sign_padding:
    if n == 0 and byte_ord(s[0]) >= {def_sign}:
        s = zero_byte + s
    if n == -1 and byte_ord(s[0]) < {def_sign}:
        s = max_byte + s
return s"""),
}

MSG = {
    "__init__": ("self, content=None", """if content is not None:
    self.packet = BytesIO(content)
else:
    self.packet = BytesIO()"""),
    "asbytes": ("self", "return self.packet.getvalue()"),
    "rewind": ("self", "self.packet.seek(0)"),
    "get_remainder": ("self", """position = self.packet.tell()
remainder = self.packet.read()
self.packet.seek(position)
return remainder"""),
    "get_so_far": ("self", """position = self.packet.tell()
self.rewind()
return self.packet.read(position)"""),
    "get_bytes": ("self, n", """b = self.packet.read(n)
max_pad_size = 1 << {pad_shift}
if len(b) < n < max_pad_size:
    return b + zero_byte * (n - len(b))
return b"""),
    "get_byte": ("self", "return self.get_bytes({n_byte})"),
    "get_boolean": ("self", """b = self.get_bytes({n_byte})
return b != zero_byte"""),
    "get_adaptive_int": ("self", """byte = self.get_bytes({n_byte})
if byte == max_byte:
    return util.inflate_long(self.get_binary())
byte += self.get_bytes({n_adaptive_rest})
return struct.unpack({fmt_u32}, byte)[0]"""),
    "get_int": ("self", "return struct.unpack({fmt_u32}, self.get_bytes({n_u32}))[0]"),
    "get_int64": ("self", "return struct.unpack({fmt_u64}, self.get_bytes({n_u64}))[0]"),
    "get_mpint": ("self", "return util.inflate_long(self.get_binary())"),
    "get_string": ("self", "return self.get_bytes(self.get_int())"),
    "get_text": ("self", "return u(self.get_string())"),
    "get_binary": ("self", "return self.get_bytes(self.get_int())"),
    "get_list": ("self", "return self.get_text().split({sep})"),
    "add_bytes": ("self, b", "self.packet.write(b)\nreturn self"),
    "add_byte": ("self, b", "self.packet.write(b)\nreturn self"),
    "add_boolean": ("self, b", """if b:
    self.packet.write(one_byte)
else:
    self.packet.write(zero_byte)
return self"""),
    "add_int": ("self, n", "self.packet.write(struct.pack({fmt_u32}, n))\nreturn self"),
    "add_adaptive_int": ("self, n", """if n >= Message.big_int:
    self.packet.write(max_byte)
    self.add_string(util.deflate_long(n))
else:
    self.packet.write(struct.pack({fmt_u32}, n))
return self"""),
    "add_int64": ("self, n", "self.packet.write(struct.pack({fmt_u64}, n))\nreturn self"),
    "add_mpint": ("self, z", "self.add_string(util.deflate_long(z) if z != 0 else bytes())\nreturn self"),
    "add_string": ("self, s", """s = util.asbytes(s)
self.add_int(len(s))
self.packet.write(s)
return self"""),
    "add_list": ("self, l", "self.add_string({sep}.join(l))\nreturn self"),
    "_add": ("self, i", """if type(i) is bool:
    return self.add_boolean(i)
elif isinstance(i, int):
    return self.add_adaptive_int(i)
elif type(i) is list:
    return self.add_list(i)
else:
    return self.add_string(i)"""),
    "add": ("self, *seq", "for item in seq:\n    self._add(item)"),
}

FMT = {"'>I'": (4, 32), "'>Q'": (8, 64)}      # struct format -> (bytes, bits), big-endian unsigned only


def _common(tree):
    """zero_byte / one_byte / max_byte / xffffffff as defined in paramiko/common.py (top-level assignments)."""
    vals = {}
    for st in tree.body:
        if isinstance(st, ast.Assign) and len(st.targets) == 1 and isinstance(st.targets[0], ast.Name):
            n = st.targets[0].id
            if n in ("zero_byte", "one_byte", "max_byte", "xffffffff"):
                if n in vals:
                    raise RuntimeError("common.%s assigned twice" % n)
                src = ast.unparse(st.value)
                if n == "xffffffff":
                    if not (isinstance(st.value, ast.Constant) and isinstance(st.value.value, int)):
                        raise RuntimeError("common.xffffffff is not an integer literal: %s" % src)
                    vals[n] = st.value.value
                else:
                    m = re.fullmatch(r"byte_chr\((\d+)\)", src)
                    if m is None:
                        raise RuntimeError("common.%s is not byte_chr(<literal>): %s" % (n, src))
                    vals[n] = int(m.group(1))
    if sorted(vals) != ["max_byte", "one_byte", "xffffffff", "zero_byte"]:
        raise RuntimeError("common.py: missing byte constants, found %r" % sorted(vals))
    return vals


def _imports_ok(tree, wanted, where):
    got = set()
    for st in tree.body:
        if isinstance(st, ast.ImportFrom) and st.module == "paramiko.common":
            got |= {a.name for a in st.names if a.asname is None}
    miss = [w for w in wanted if w not in got]
    if miss:
        raise RuntimeError("%s does not import %s from paramiko.common (the model reads those names there)" % (where, miss))


def generate(repo):
    src = lambda f: open(os.path.join(repo, "paramiko", f)).read()
    mtree, utree, ctree = ast.parse(src("message.py")), ast.parse(src("util.py")), ast.parse(src("common.py"))
    lit = {}
    # ---- util ------------------------------------------------------------
    ufn = {f.name: f for f in utree.body if isinstance(f, ast.FunctionDef)}
    for name, (args, tpl) in UTIL.items():
        if name not in ufn:
            raise RuntimeError("util.%s is gone" % name)
        if ast.unparse(ufn[name].args) != args or ufn[name].decorator_list:
            raise RuntimeError("util.%s signature is %s" % (name, ast.unparse(ufn[name].args)))
        _match("util." + name, _norm(ufn[name]), tpl, lit)
    if len([f for f in ast.walk(utree) if isinstance(f, ast.FunctionDef) and f.name in UTIL]) != len(UTIL):
        raise RuntimeError("util.py defines deflate_long / inflate_long more than once")
    _imports_ok(utree, ["zero_byte", "max_byte", "xffffffff", "byte_ord"], "util.py")
    # ---- Message -----------------------------------------------------------
    cls = [c for c in mtree.body if isinstance(c, ast.ClassDef) and c.name == "Message"]
    if len(cls) != 1 or cls[0].bases or cls[0].decorator_list:
        raise RuntimeError("message.py: class Message not found / has bases or decorators")
    big = None
    seen = set()
    for st in _body(cls[0]):
        if isinstance(st, ast.Assign):
            if ast.unparse(st.targets[0]) != "big_int" or not isinstance(st.value, ast.Constant):
                raise RuntimeError("Message: unexpected class attribute %s" % ast.unparse(st))
            big = st.value.value
        elif isinstance(st, ast.FunctionDef):
            if st.name in ("__bytes__", "__repr__"):
                continue
            if st.name not in MSG:
                raise RuntimeError("Message.%s is not modelled" % st.name)
            if st.name in seen:
                raise RuntimeError("Message.%s defined twice" % st.name)
            seen.add(st.name)
            args, tpl = MSG[st.name]
            if ast.unparse(st.args) != args or st.decorator_list:
                raise RuntimeError("Message.%s signature is (%s)" % (st.name, ast.unparse(st.args)))
            _match("Message." + st.name, _norm(st), tpl, lit)
        else:
            raise RuntimeError("Message: unexpected class-level statement %s" % ast.unparse(st)[:80])
    if seen != set(MSG):
        raise RuntimeError("Message: missing methods %r" % sorted(set(MSG) - seen))
    if not isinstance(big, int):
        raise RuntimeError("Message.big_int is not an integer literal")
    _imports_ok(mtree, ["zero_byte", "one_byte", "max_byte"], "message.py")
    # nothing at module level may rebind a method after the class body
    for st in mtree.body:
        if isinstance(st, (ast.Assign, ast.AugAssign, ast.Delete)) or (isinstance(st, ast.Expr) and "setattr" in ast.unparse(st)):
            raise RuntimeError("message.py: module-level statement after imports: %s" % ast.unparse(st)[:80])
    com = _common(ctree)
    # ---- derived values ------------------------------------------------------
    for f in ("fmt_u32", "fmt_u64"):
        if lit[f] not in FMT:
            raise RuntimeError("struct format %s is not a big-endian unsigned one the model knows" % lit[f])
    if not re.fullmatch(r"'.'", lit["sep"]):
        raise RuntimeError("list separator is %s" % lit["sep"])
    vals = {
        "big_int": big,
        "pad_shift": int(lit["pad_shift"]),
        "n_byte": int(lit["n_byte"]), "n_adaptive_rest": int(lit["n_adaptive_rest"]),
        "n_u32": int(lit["n_u32"]), "n_u64": int(lit["n_u64"]),
        "fmt_u32_bytes": FMT[lit["fmt_u32"]][0], "fmt_u64_bytes": FMT[lit["fmt_u64"]][0],
        "sep": ord(lit["sep"][1]),
        "inf_sign": int(lit["inf_sign"]), "inf_word": int(lit["inf_word"]), "inf_shift": int(lit["inf_shift"]),
        "inf_bits": int(lit["inf_bits"]),
        "def_shift": int(lit["def_shift"]), "def_ff": int(lit["def_ff"]), "def_sign": int(lit["def_sign"]),
        "zero_byte": com["zero_byte"], "one_byte": com["one_byte"], "max_byte": com["max_byte"],
        "mask32": com["xffffffff"],
    }
    out = ["(* GENERATED by gen/c39.py from paramiko/message.py, util.py, common.py - do not edit *)",
           "From Coq Require Import ZArith.", "Open Scope Z_scope.", ""]
    for k, v in sorted(vals.items()):
        out.append("Definition c39_%s : Z := %d." % (k, v))
    out.append("")
    return {"C39_gen.v": "\n".join(out)}


if __name__ == "__main__":
    import sys
    print(generate(sys.argv[1] if len(sys.argv) > 1 else "/repo")["C39_gen.v"])
