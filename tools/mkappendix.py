#!/usr/bin/env python3
"""Regenerate the machine-written appendices of DESIGN.md (between the AUTO markers):
   fixes / known findings (from known_findings.json) and seeded changes (from seeded/*/meta.json)."""
import json, os, re, glob
V = "/verif"
kf = json.load(open(V + "/known_findings.json"))
out = []
out.append("### E.1 Genuine defects repaired in /repo (one `fix:` commit each)\n")
out.append("| Property | Commit | What failed |\n|---|---|---|")
for line in kf["fixed"]:
    m = re.match(r"fixed: property=(\S+) (\S+) (.*)", line)
    out.append("| %s | `%s` | %s |" % (m.group(1), m.group(2), m.group(3).replace("|", "\\|")))
out.append("\n### E.2 Known findings (genuine, not repaired; the check prints `KNOWN-FINDING` and exits 0)\n")
out.append("| Property | Key | What fails |\n|---|---|---|")
for f in kf["findings"]:
    out.append("| %s | `%s` | %s |" % (f["property"], f["key"], f["what"].replace("|", "\\|")))
out.append("\n### E.3 Seeded changes (written by independent sub-agents from the property text only) and which check catches them\n")
out.append("Each directory under `/verif/seeded/` holds `patch.diff`, `demo.py` (exits 1 with the patch, 0 without — confirmed) and `meta.json`. "
           "`CAUGHT` = `VERIF_REPO=<worktree with the patch> ./check <id>` printed a VIOLATION with a concrete replay; "
           "`CAUGHT-NO-INPUT` = a proof obligation / translator / correspondence broke but no concrete input was found (`no-failing-input-found`); "
           "`MISSED` = exit 0 (the check was then strengthened; the `after` column gives the result of the re-run).\n")
def _round(name):
    tag = name.split("-", 1)[1]
    if tag.startswith("r3"): return 3
    if tag.startswith("r4"): return 4
    if tag.startswith("r5"): return 5
    if tag.startswith("r6"): return 6
    if tag.startswith("r7"): return 7
    t = re.sub(r"\d+$", "", tag)
    return 1 if (len(t) == 1 and t <= "o") else 2
_rounds = {}
for d in sorted(glob.glob(V + "/seeded/*/")):
    try:
        m = json.load(open(d + "meta.json"))
    except Exception:
        continue
    r = _rounds.setdefault(_round(os.path.basename(d.rstrip("/"))), {"n": 0, "CAUGHT": 0, "CAUGHT-NO-INPUT": 0, "MISSED": 0, "after": 0, "open": []})
    first = (m.get("check_result", "") or "").split(":")[0]
    after = (m.get("check_result_after", "") or "").split(":")[0]
    r["n"] += 1
    r[first] = r.get(first, 0) + 1
    if (after or first) == "CAUGHT":
        r["after"] += 1
    else:
        r["open"].append(os.path.basename(d.rstrip("/")))
out.append("Seven rounds were run; each round's authors were shown the summaries of the changes already taken and asked for different ones. "
           "Round 1: any small plausible edit. Round 2: another function / mechanism than round 1. Round 3: cooperating sites, interleavings and faults, "
           "glue (defaults, coercions, alternative entry points), second call on the same object. Round 4: rarely exercised variants and boundary values, "
           "partial reverts of the `fix:` commits, state leaks between two uses, error paths. Round 5: indirect edits (shared helpers and lower layers such as util / message / "
           "buffered_pipe / packet / SFTPHandle / ChannelMap), class structure (instance state made class-level, attribute turned property, method moved to a base class), "
           "behaviour that is wrong only under a documented non-default option or table entry, lifetime (reset / cached / closed at the wrong moment). "
           "Round 6: the authors split each statement and its quantifier into clauses and aimed the subtlest edit they could find at the clauses the earlier 444 changes covered least. "
           "Round 7: minimal single-point mutations (one token or one line: comparison operators, and/or, off-by-one, constants, swapped arguments, similarly named attributes, deleted statements), three per property.\n")
out.append("| Round | Changes kept | First run: caught with replay | caught, no input | missed | Caught with a concrete replay after strengthening | Not caught (judged outside the property as stated; see the seed's meta.json) |\n|---|---|---|---|---|---|---|")
for k in sorted(_rounds):
    r = _rounds[k]
    out.append("| %d | %d | %d | %d | %d | %d | %s |" % (k, r["n"], r["CAUGHT"], r["CAUGHT-NO-INPUT"], r["MISSED"], r["after"], ", ".join(r["open"]) or "—"))
out.append("")
out.append("| Seed | Property | Change | First run | After strengthening | Violation keys |\n|---|---|---|---|---|---|")
for d in sorted(glob.glob(V + "/seeded/*/")):
    try:
        m = json.load(open(d + "meta.json"))
    except Exception:
        continue
    first = (m.get("check_result", "") or "").split(":")[0]
    after = (m.get("check_result_after", "") or "").split(":")[0] or "—"
    summ = (m.get("summary", "") or "").replace("|", "\\|").replace("\n", " ")
    if len(summ) > 230:
        summ = summ[:227] + "..."
    keys = ", ".join("`%s`" % k for k in (m.get("violation_keys_after") or m.get("violation_keys") or []) if k)
    out.append("| %s | %s | %s | %s | %s | %s |" % (os.path.basename(d.rstrip("/")), m.get("property", ""), summ, first, after, keys))
# ---- per-property as-built summary
import ast
def consts(path):
    tree = ast.parse(open(path).read()); o = {}
    for node in tree.body:
        if isinstance(node, ast.Assign) and len(node.targets) == 1 and isinstance(node.targets[0], ast.Name):
            try: o[node.targets[0].id] = ast.literal_eval(node.value)
            except Exception: pass
    return o
out.append("\n### E.4 Per-property summary as built (theorem names from `coq/Props/*_props.v`; counts from the last evidence file)\n")
out.append("| Property | Theorems (all closed by `exact`, `Print Assumptions` beneath each) | Translator | Last quick run: evaluations / distinct non-trivial | Known findings |\n|---|---|---|---|---|")
for l in open(V + "/properties.jsonl"):
    pid = json.loads(l)["id"]
    pf = V + "/coq/Props/%s_props.v" % pid
    if not os.path.exists(pf):
        continue
    src = re.sub(r"\(\*.*?\*\)", "", open(pf).read(), flags=re.S)
    ths = re.findall(r"^\s*(?:Theorem|Lemma|Corollary)\s+([\w']+)", src, re.M)
    gen = "gen/%s.py" % pid.lower() if os.path.exists(V + "/gen/%s.py" % pid.lower()) else "—"
    ev = V + "/evidence/%s.json" % pid
    evs = "—"
    if os.path.exists(ev):
        try:
            e = json.load(open(ev))["coverage"]; evs = "%s / %s" % (e.get("evaluations"), e.get("distinct_nontrivial"))
        except Exception: pass
    nk = len([f for f in kf["findings"] if f["property"] == pid])
    out.append("| %s | %s | %s | %s | %s |" % (pid, ", ".join("`%s`" % t for t in ths), gen, evs, nk or "—"))
text = "\n".join(out) + "\n"
p = V + "/DESIGN.md"
s = open(p).read()
a, b = "<!-- AUTO-APPENDIX-BEGIN -->", "<!-- AUTO-APPENDIX-END -->"
if a not in s:
    s += "\n---------------------------------------------------------------------------\n\n## Appendix E — outcome: fixes, known findings, seeded changes (generated by tools/mkappendix.py)\n\n" + a + "\n" + b + "\n"
s = s[:s.index(a) + len(a)] + "\n" + text + s[s.index(b):]
open(p, "w").write(s)
print("appendix written:", len(kf["fixed"]), "fixes,", len(kf["findings"]), "findings")
