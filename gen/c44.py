"""Translator for C44: reads the shape of AuthStrategy.authenticate, of the AuthSource classes'
authenticate methods, of AuthResult / SourceResult / AuthFailure (paramiko/auth_strategy.py) and of
the SSHClient.connect(auth_strategy=...) glue (paramiko/client.py) from the AST, and emits
coq/Gen/C44_gen.v.  Fail-closed: any shape it does not recognise raises."""
import ast
import os


class Shape(Exception):
    pass


def _z(s):
    return "[" + ";".join("%d" % b for b in s.encode("utf-8")) + "]"


def _b(v):
    return "true" if v else "false"


def _is_name(n, name):
    return isinstance(n, ast.Name) and n.id == name


def _is_self_attr(n, attr):
    return isinstance(n, ast.Attribute) and _is_name(n.value, "self") and n.attr == attr


def _is_logging(st):
    """self.log.<level>(...) expression statements carry no control flow of interest"""
    return (isinstance(st, ast.Expr) and isinstance(st.value, ast.Call)
            and isinstance(st.value.func, ast.Attribute) and _is_self_attr(st.value.func.value, "log"))


def _strip(stmts):
    out = []
    for i, st in enumerate(stmts):
        if i == 0 and isinstance(st, ast.Expr) and isinstance(st.value, ast.Constant) and isinstance(st.value.value, str):
            continue
        if _is_logging(st):
            continue
        out.append(st)
    return out


def _find_class(tree, name):
    for n in tree.body:
        if isinstance(n, ast.ClassDef) and n.name == name:
            return n
    raise Shape("class %s not found" % name)


def _find_method(cls, name):
    for n in cls.body:
        if isinstance(n, ast.FunctionDef) and n.name == name:
            return n
    return None


def _is_source_auth_call(n):
    return (isinstance(n, ast.Call) and isinstance(n.func, ast.Attribute) and n.func.attr == "authenticate"
            and _is_name(n.func.value, "source"))


def _assign_to(st, name):
    return (isinstance(st, ast.Assign) and len(st.targets) == 1 and _is_name(st.targets[0], name))


def _is_append(st):
    """overall_result.append(X) -> X"""
    if (isinstance(st, ast.Expr) and isinstance(st.value, ast.Call) and isinstance(st.value.func, ast.Attribute)
            and st.value.func.attr == "append" and _is_name(st.value.func.value, "overall_result")
            and len(st.value.args) == 1 and not st.value.keywords):
        return st.value.args[0]
    return None


def _is_source_result(x):
    return (isinstance(x, ast.Call) and _is_name(x.func, "SourceResult") and len(x.args) == 2 and not x.keywords
            and _is_name(x.args[0], "source") and _is_name(x.args[1], "result"))


def loop_shape(tree):
    cls = _find_class(tree, "AuthStrategy")
    fn = _find_method(cls, "authenticate")
    if fn is None:
        raise Shape("AuthStrategy.authenticate not found")
    args = [a.arg for a in fn.args.args]
    if args != ["self", "transport"] or fn.args.vararg or fn.args.kwarg or fn.args.kwonlyargs:
        raise Shape("authenticate signature is not (self, transport)")
    body = _strip(fn.body)
    loops = [n for n in ast.walk(fn) if isinstance(n, (ast.For, ast.While, ast.AsyncFor, ast.ListComp, ast.GeneratorExp,
                                                     ast.SetComp, ast.DictComp))]
    calls = [n for n in ast.walk(fn) if _is_source_auth_call(n)]
    for c in calls:
        if not (len(c.args) == 1 and _is_name(c.args[0], "transport") and not c.keywords):
            raise Shape("source.authenticate is not called as source.authenticate(transport)")
    # prologue
    if len(body) < 4:
        raise Shape("authenticate body too short")
    st0, st1 = body[0], body[1]
    if not (_assign_to(st0, "succeeded") and isinstance(st0.value, ast.Constant) and st0.value.value is False):
        raise Shape("expected `succeeded = False` first")
    if not _assign_to(st1, "overall_result"):
        raise Shape("expected `overall_result = ...` second")
    v = st1.value
    overall_ok = (isinstance(v, ast.Call) and _is_name(v.func, "AuthResult") and not v.args and len(v.keywords) == 1
                  and v.keywords[0].arg == "strategy" and _is_name(v.keywords[0].value, "self"))
    loop = body[2]
    if not isinstance(loop, ast.For):
        raise Shape("expected the for loop third")
    single = (len(loops) == 1 and _is_name(loop.target, "source") and isinstance(loop.iter, ast.Call)
              and _is_self_attr(loop.iter.func, "get_sources") and not loop.iter.args and not loop.iter.keywords
              and not loop.orelse)
    if not single:
        raise Shape("the loop is not a single `for source in self.get_sources():` without else")
    # epilogue
    rest = body[3:]
    raise_when_none = False
    carries = False
    if len(rest) == 2:
        iff = rest[0]
        if not (isinstance(iff, ast.If) and isinstance(iff.test, ast.UnaryOp) and isinstance(iff.test.op, ast.Not)
                and _is_name(iff.test.operand, "succeeded") and not iff.orelse):
            raise Shape("expected `if not succeeded:` after the loop")
        ib = _strip(iff.body)
        if not (len(ib) == 1 and isinstance(ib[0], ast.Raise) and isinstance(ib[0].exc, ast.Call)
                and _is_name(ib[0].exc.func, "AuthFailure") and ib[0].cause is None):
            raise Shape("expected `raise AuthFailure(...)` under `if not succeeded:`")
        raise_when_none = True
        c = ib[0].exc
        carries = ((len(c.keywords) == 1 and not c.args and c.keywords[0].arg == "result"
                    and _is_name(c.keywords[0].value, "overall_result"))
                   or (len(c.args) == 1 and not c.keywords and _is_name(c.args[0], "overall_result")))
        rest = rest[1:]
    if len(rest) != 1 or not isinstance(rest[0], ast.Return):
        raise Shape("expected a final return statement")
    returns_overall = _is_name(rest[0].value, "overall_result")
    # loop body
    lb = _strip(loop.body)
    if not lb or not isinstance(lb[0], ast.Try):
        raise Shape("the loop body does not start with try")
    tr = lb[0]
    if tr.orelse or tr.finalbody:
        raise Shape("try has else/finally")
    tb = _strip(tr.body)
    in_try = sum(1 for st in tr.body for n in ast.walk(st) if _is_source_auth_call(n))
    elsewhere = len(calls) - in_try
    app_succ = app_fail = False
    app_is_sr = True
    success_sets = (len(tb) >= 2 and _assign_to(tb[0], "result") and _is_source_auth_call(tb[0].value)
                    and _assign_to(tb[1], "succeeded") and isinstance(tb[1].value, ast.Constant)
                    and tb[1].value.value is True)
    for st in tb[2:] if success_sets else tb:
        x = _is_append(st)
        if x is None:
            if success_sets:
                raise Shape("unexpected statement in the try body: %s" % ast.dump(st)[:120])
            continue
        app_succ = True
        app_is_sr = app_is_sr and _is_source_result(x)
    if not success_sets:
        raise Shape("try body is not `result = source.authenticate(transport); succeeded = True`")
    if len(tr.handlers) == 0:
        raise Shape("try without except")
    if len(tr.handlers) > 1:
        raise Shape("more than one except clause")
    h = tr.handlers[0]
    if h.type is None:
        catch = "CatchBaseException"
    elif isinstance(h.type, ast.Name):
        catch = {"Exception": "CatchException", "BaseException": "CatchBaseException"}.get(
            h.type.id, "(CatchNamed [%s])" % _z(h.type.id))
    elif isinstance(h.type, ast.Tuple) and all(isinstance(e, ast.Name) for e in h.type.elts):
        catch = "(CatchNamed [%s])" % ";".join(_z(e.id) for e in h.type.elts)
    else:
        raise Shape("unrecognised except clause")
    hb = _strip(h.body)
    records = False
    for st in hb:
        if _assign_to(st, "result") and h.name and _is_name(st.value, h.name):
            records = True
        elif _assign_to(st, "source_class"):
            pass
        elif _is_append(st) is not None:
            app_fail = True
            app_is_sr = app_is_sr and _is_source_result(_is_append(st))
        else:
            raise Shape("unexpected statement in the except body: %s" % ast.dump(st)[:120])
    # after the try
    brk = False
    app_before_break = True
    seen_break = False
    for st in lb[1:]:
        x = _is_append(st)
        if x is not None:
            app_succ = app_fail = True
            app_is_sr = app_is_sr and _is_source_result(x)
            if seen_break:
                app_before_break = False
            continue
        if isinstance(st, ast.If) and not st.orelse:
            body_ = _strip(st.body)
            pos = _is_name(st.test, "succeeded")
            neg = (isinstance(st.test, ast.UnaryOp) and isinstance(st.test.op, ast.Not)
                   and _is_name(st.test.operand, "succeeded"))
            if pos and len(body_) == 1 and isinstance(body_[0], ast.Break):
                brk = True
                seen_break = True
                continue
            if (pos or neg) and len(body_) == 1 and _is_append(body_[0]) is not None:
                if pos:
                    app_succ = True
                else:
                    app_fail = True
                app_is_sr = app_is_sr and _is_source_result(_is_append(body_[0]))
                if seen_break:
                    app_before_break = False
                continue
        raise Shape("unexpected statement in the loop body: %s" % ast.dump(st)[:160])
    if not (app_succ or app_fail):
        app_is_sr = False
    fields = [("ls_single_loop", _b(single)), ("ls_calls_in_try", "%d" % in_try),
              ("ls_calls_elsewhere", "%d" % elsewhere), ("ls_catch", catch),
              ("ls_success_sets_flag", _b(success_sets)), ("ls_handler_records_exc", _b(records)),
              ("ls_append_on_success", _b(app_succ)), ("ls_append_on_failure", _b(app_fail)),
              ("ls_append_is_source_result", _b(app_is_sr)), ("ls_append_before_break", _b(app_before_break)),
              ("ls_break_on_success", _b(brk)), ("ls_raise_when_none", _b(raise_when_none)),
              ("ls_failure_carries_overall", _b(carries)), ("ls_returns_overall", _b(returns_overall)),
              ("ls_overall_is_authresult_of_self", _b(overall_ok))]
    return "{| " + ";\n     ".join("%s := %s" % kv for kv in fields) + " |}"


def source_facts(tree):
    classes = {n.name: n for n in tree.body if isinstance(n, ast.ClassDef)}
    out = []
    for name in ("NoneAuth", "Password", "PrivateKey", "InMemoryPrivateKey", "OnDiskPrivateKey"):
        if name not in classes:
            raise Shape("class %s not found" % name)
        c, fn, hops = classes[name], None, 0
        while fn is None:
            fn = _find_method(c, "authenticate")
            if fn is None:
                if len(c.bases) != 1 or not isinstance(c.bases[0], ast.Name) or c.bases[0].id not in classes:
                    raise Shape("cannot resolve authenticate for %s" % name)
                c = classes[c.bases[0].id]
                hops += 1
                if hops > 5:
                    raise Shape("inheritance chain too long for %s" % name)
        if [a.arg for a in fn.args.args] != ["self", "transport"]:
            raise Shape("%s.authenticate signature" % c.name)
        tcalls = [n for n in ast.walk(fn) if isinstance(n, ast.Call) and isinstance(n.func, ast.Attribute)
                  and _is_name(n.func.value, "transport")]
        others = [n for n in ast.walk(fn) if isinstance(n, ast.Name) and n.id == "transport"
                  and isinstance(n.ctx, ast.Load)]
        if len(others) != len(tcalls):
            raise Shape("%s.authenticate uses `transport` other than to call a method on it" % c.name)
        if any(isinstance(n, (ast.For, ast.While, ast.Try)) for n in ast.walk(fn)):
            raise Shape("%s.authenticate contains a loop or try" % c.name)
        body = _strip(fn.body)
        method = tcalls[0].func.attr if tcalls else ""
        returns = bool(tcalls) and isinstance(body[-1], ast.Return) and body[-1].value is tcalls[0]
        first_user = bool(tcalls) and len(tcalls[0].args) >= 1 and _is_self_attr(tcalls[0].args[0], "username")
        out.append("(%s, %s, %d, %s, %s)" % (_z(name), _z(method), len(tcalls), _b(returns), _b(first_user)))
    return "[" + ";\n   ".join(out) + "]"


def result_shapes(tree):
    sr = None
    for n in tree.body:
        if _assign_to(n, "SourceResult"):
            sr = n.value
    if not (isinstance(sr, ast.Call) and _is_name(sr.func, "namedtuple") and len(sr.args) == 2
            and isinstance(sr.args[0], ast.Constant) and sr.args[0].value == "SourceResult"
            and isinstance(sr.args[1], ast.List) and all(isinstance(e, ast.Constant) and isinstance(e.value, str)
                                                           for e in sr.args[1].elts)):
        raise Shape("SourceResult is not namedtuple('SourceResult', [<str>, ...])")
    fields = [e.value for e in sr.args[1].elts]

    def keeps(clsname, param, attr):
        c = _find_class(tree, clsname)
        init = _find_method(c, "__init__")
        if init is None:
            return False
        names = [a.arg for a in init.args.args]
        if len(names) < 2 or names[1] != param:
            return False
        return any(isinstance(st, ast.Assign) and len(st.targets) == 1 and _is_self_attr(st.targets[0], attr)
                   and _is_name(st.value, param) for st in init.body)

    def bases(clsname):
        c = _find_class(tree, clsname)
        if not all(isinstance(b, ast.Name) for b in c.bases):
            raise Shape("%s has a non-name base" % clsname)
        return "[" + ";".join(_z(b.id) for b in c.bases) + "]"

    return [("source_result_fields", "list (list Z)", "[" + ";".join(_z(f) for f in fields) + "]"),
            ("auth_result_bases", "list (list Z)", bases("AuthResult")),
            ("auth_result_keeps_strategy", "bool", _b(keeps("AuthResult", "strategy", "strategy"))),
            ("auth_failure_bases", "list (list Z)", bases("AuthFailure")),
            ("auth_failure_keeps_result", "bool", _b(keeps("AuthFailure", "result", "result")))]


def client_glue(ctree):
    cls = _find_class(ctree, "SSHClient")
    fn = _find_method(cls, "connect")
    if fn is None:
        raise Shape("SSHClient.connect not found")
    allargs = [a.arg for a in fn.args.args + fn.args.kwonlyargs]
    if "auth_strategy" not in allargs:
        raise Shape("connect has no auth_strategy parameter")

    def is_call(n):
        return (isinstance(n, ast.Call) and isinstance(n.func, ast.Attribute) and n.func.attr == "authenticate"
                and _is_name(n.func.value, "auth_strategy"))

    calls = [n for n in ast.walk(fn) if is_call(n)]
    idx = guard = returns = passes = None
    start_idx = old_idx = tname = None
    for i, st in enumerate(fn.body):
        for n in ast.walk(st):
            if (isinstance(n, ast.Assign) and isinstance(n.value, ast.Call) and _is_name(n.value.func, "transport_factory")):
                for t in n.targets:
                    if isinstance(t, ast.Name):
                        tname = t.id
            if (isinstance(n, ast.Call) and isinstance(n.func, ast.Attribute) and n.func.attr == "start_client"
                    and tname and _is_name(n.func.value, tname) and start_idx is None):
                start_idx = i
            if (isinstance(n, ast.Call) and _is_self_attr(n.func, "_auth") and old_idx is None):
                old_idx = i
        if any(is_call(n) for n in ast.walk(st)) and idx is None:
            idx = i
            t = st.test if isinstance(st, ast.If) else None
            guard = (isinstance(st, ast.If) and not st.orelse and isinstance(t, ast.Compare)
                     and _is_name(t.left, "auth_strategy") and len(t.ops) == 1 and isinstance(t.ops[0], ast.IsNot)
                     and isinstance(t.comparators[0], ast.Constant) and t.comparators[0].value is None)
            b = st.body if isinstance(st, ast.If) else []
            returns = len(b) == 1 and isinstance(b[0], ast.Return) and is_call(b[0].value)
            c = b[0].value if returns else None
            passes = bool(c is not None and tname and (
                (len(c.keywords) == 1 and not c.args and c.keywords[0].arg == "transport"
                 and _is_name(c.keywords[0].value, tname))
                or (len(c.args) == 1 and not c.keywords and _is_name(c.args[0], tname))))
    if tname is None or start_idx is None or old_idx is None:
        raise Shape("connect: transport creation / start_client / self._auth not found")
    if idx is None:
        guard = returns = passes = False
    fields = [("cg_calls", "%d" % len(calls)), ("cg_guard_is_not_none", _b(guard)), ("cg_returns_result", _b(returns)),
              ("cg_passes_transport", _b(passes)), ("cg_after_start_client", _b(idx is not None and start_idx < idx)),
              ("cg_before_old_flow", _b(idx is not None and idx < old_idx))]
    return "{| " + "; ".join("%s := %s" % kv for kv in fields) + " |}"


def generate(repo):
    tree = ast.parse(open(os.path.join(repo, "paramiko", "auth_strategy.py")).read())
    ctree = ast.parse(open(os.path.join(repo, "paramiko", "client.py")).read())
    text = ["(* GENERATED by gen/c44.py from paramiko/auth_strategy.py and paramiko/client.py -- do not edit *)",
            "From PV Require Import Bytes AuthShape.", "Open Scope Z_scope.",
            "(* AuthStrategy.authenticate *)",
            "Definition src_loop_shape : loop_shape :=\n  %s." % loop_shape(tree),
            "(* AuthSource classes: (class, transport method, transport calls, returns it, first arg self.username) *)",
            "Definition src_source_facts : list source_fact :=\n  %s." % source_facts(tree)]
    for name, ty, val in result_shapes(tree):
        text.append("Definition src_%s : %s := %s." % (name, ty, val))
    text += ["(* SSHClient.connect(auth_strategy=...) *)",
             "Definition src_client_glue : client_glue :=\n  %s." % client_glue(ctree), ""]
    return {"C44_gen.v": "\n".join(text)}
