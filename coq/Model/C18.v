(* C18 - model of the three places where a paramiko transport decides about actions initiated by
   the peer: Transport._parse_global_request, Transport._parse_channel_open (transport.py) and
   Channel._handle_request (channel.py), and of the operations that install / remove the client's
   forwarding handlers (Channel.request_x11, Channel.request_forward_agent,
   Transport.request_port_forward, Transport.cancel_port_forward).
   The branch tables (request names, channel kinds and the handler each kind needs) are regenerated
   from the source AST into Gen/C18_gen.v on every run.  Definitions only.
   Strings are their UTF-8 bytes (list Z). *)
From PV Require Import Bytes C18_gen.
Open Scope Z_scope.

(* ---- global requests -------------------------------------------------------------- *)
(* srv_ok: what the server object would answer (only consulted in server mode).
   Result: (was the server object consulted, reply message type if a reply is sent) *)
Definition s_cancel_tcpip_forward : list Z :=
  [99; 97; 110; 99; 101; 108; 45; 116; 99; 112; 105; 112; 45; 102; 111; 114; 119; 97; 114; 100].

Definition global_request (server_mode : bool) (kind : list Z) (want_reply : bool) (srv_ok : bool)
  : bool * option Z :=
  let '(consulted, ok) :=
    if negb server_mode then (false, false)
    else (true, if zlist_eqb kind s_cancel_tcpip_forward then true else srv_ok) in
  (consulted,
   if want_reply then Some (if ok then MSG_REQUEST_SUCCESS else MSG_REQUEST_FAILURE) else None).

(* ---- handler state ---------------------------------------------------------------- *)
Record handlers := mkH { h_agent : bool; h_x11 : bool; h_tcp : bool }.   (* "is not None" *)
Definition no_handlers : handlers := mkH false false false.              (* Transport.__init__ *)

Definition handler_set (h : handlers) (id : Z) : bool :=
  if id =? 0 then h_agent h else if id =? 1 then h_x11 h else if id =? 2 then h_tcp h else false.

Inductive event :=
  | EvX11 (granted : bool)            (* Channel.request_x11; the server answered SUCCESS / FAILURE *)
  | EvAgent                           (* Channel.request_forward_agent (no reply is awaited) *)
  | EvForward (active granted : bool) (* Transport.request_port_forward *)
  | EvCancel (active : bool)          (* Transport.cancel_port_forward *)
  | EvOther (granted : bool).         (* any other Transport.global_request(kind, wait=True): leaves a
                                         granted / denied response behind, installs nothing *)

Definition step (h : handlers) (e : event) : handlers :=
  match e with
  | EvX11 true => mkH (h_agent h) true (h_tcp h)      (* _wait_for_event returned: _set_x11_handler *)
  | EvX11 false => h                                  (* _wait_for_event raised *)
  | EvAgent => mkH true (h_x11 h) (h_tcp h)
  | EvForward true true => mkH (h_agent h) (h_x11 h) true
  | EvForward _ _ => h                                (* SSHException before the assignment *)
  | EvCancel true => mkH (h_agent h) (h_x11 h) false
  | EvCancel false => h                               (* `if not self.active: return` *)
  | EvOther _ => h
  end.

Definition handlers_after (hist : list event) : handlers := fold_left step hist no_handlers.

(* ---- channel open ----------------------------------------------------------------- *)
Inductive open_decision :=
  | Accept (route : Z)     (* handler id the new channel is given to; -1 = the accept() queue *)
  | Reject (reason : Z).

Fixpoint open_chain (br : list (list Z * Z)) (h : handlers) (kind : list Z) : option Z :=
  match br with
  | [] => None
  | (k, id) :: r => if zlist_eqb kind k && handler_set h id then Some id else open_chain r h kind
  end.

(* srv_reason: what server_object.check_channel_*request would return (server mode only) *)
Definition channel_open (server_mode : bool) (h : handlers) (kind : list Z) (srv_reason : Z)
  : open_decision :=
  match open_chain open_branches h kind with
  | Some id => Accept id
  | None =>
      if negb server_mode then Reject OPEN_FAILED_ADMINISTRATIVELY_PROHIBITED
      else if srv_reason =? OPEN_SUCCEEDED then Accept (-1) else Reject srv_reason
  end.

(* ---- channel requests ------------------------------------------------------------- *)
Fixpoint request_lookup (br : list (list Z * bool)) (key : list Z) : option bool :=
  match br with
  | [] => None
  | (k, needs_server) :: r => if zlist_eqb key k then Some needs_server else request_lookup r key
  end.

Definition channel_request_ok (has_server : bool) (key : list Z) (srv_ok : bool) : bool :=
  match request_lookup request_branches key with
  | Some true => if has_server then srv_ok else false
  | Some false => true
  | None => false
  end.

(* the reply: (message type, remote channel id), only when want_reply *)
Definition channel_request_reply (has_server : bool) (key : list Z) (want_reply srv_ok : bool)
  (remote_chanid : Z) : option (Z * Z) :=
  if want_reply then
    Some (if channel_request_ok has_server key srv_ok then MSG_CHANNEL_SUCCESS else MSG_CHANNEL_FAILURE,
          remote_chanid)
  else None.

(* ---- the names the statements talk about ------------------------------------------ *)
Definition s_x11 : list Z := [120; 49; 49].
Definition s_agent : list Z :=
  [97; 117; 116; 104; 45; 97; 103; 101; 110; 116; 64; 111; 112; 101; 110; 115; 115; 104; 46; 99; 111; 109].
Definition s_forwarded_tcpip : list Z := [102; 111; 114; 119; 97; 114; 100; 101; 100; 45; 116; 99; 112; 105; 112].
Definition s_exit_status : list Z := [101; 120; 105; 116; 45; 115; 116; 97; 116; 117; 115].
Definition s_xon_xoff : list Z := [120; 111; 110; 45; 120; 111; 102; 102].
Definition s_pty_req : list Z := [112; 116; 121; 45; 114; 101; 113].
Definition s_shell : list Z := [115; 104; 101; 108; 108].
Definition s_exec : list Z := [101; 120; 101; 99].
Definition s_subsystem : list Z := [115; 117; 98; 115; 121; 115; 116; 101; 109].
Definition s_env : list Z := [101; 110; 118].
Definition s_window_change : list Z := [119; 105; 110; 100; 111; 119; 45; 99; 104; 97; 110; 103; 101].
Definition s_x11_req : list Z := [120; 49; 49; 45; 114; 101; 113].
Definition s_agent_req : list Z :=
  [97; 117; 116; 104; 45; 97; 103; 101; 110; 116; 45; 114; 101; 113; 64; 111; 112; 101; 110; 115; 115; 104; 46; 99; 111; 109].

Definition command_requests : list (list Z) :=
  [s_pty_req; s_shell; s_exec; s_subsystem; s_env; s_window_change; s_x11_req; s_agent_req].

(* history-level meaning of "the client enabled that kind itself" *)
Definition is_effective_cancel (e : event) : bool :=
  match e with EvCancel true => true | _ => false end.

Definition forward_active (hist : list event) : Prop :=
  exists pre post, hist = pre ++ EvForward true true :: post /\ forallb (fun e => negb (is_effective_cancel e)) post = true.

(* ---- canonical encodings for the correspondence run ------------------------------- *)
Definition event_of_code (c : Z) : event :=
  if c =? 0 then EvX11 true else if c =? 1 then EvX11 false else if c =? 2 then EvAgent
  else if c =? 3 then EvForward true true else if c =? 4 then EvForward true false
  else if c =? 5 then EvForward false true else if c =? 6 then EvForward false false
  else if c =? 7 then EvCancel true else if c =? 8 then EvCancel false
  else if c =? 9 then EvOther true else if c =? 10 then EvOther false
  (* 11 / 12: request_port_forward granted / denied with a re-key completing (NEWKEYS processed) while the
     request is pending: the re-key is not an event of its own - it must not change the handler state *)
  else if c =? 11 then EvForward true true else if c =? 12 then EvForward true false
  (* 13 / 14: another channel request (get_pty) granted / refused: installs nothing, like EvOther;
     15: cancel_port_forward answered with REQUEST_FAILURE: the handler is dropped all the same *)
  else if c =? 13 then EvOther true else if c =? 14 then EvOther false else EvCancel true.

(* (server_mode, kind, want_reply, srv_ok) -> [consulted; reply type or -1] *)
Definition run_global (c : bool * list Z * bool * bool) : list Z :=
  let '(sm, kind, want, srv) := c in
  let '(consulted, rep) := global_request sm kind want srv in
  [if consulted then 1 else 0; match rep with Some t => t | None => -1 end].

(* (server_mode, history codes, kind, srv_reason) -> [91; route] | [92; reason], then the handler
   state [agent; x11; tcp] *)
Definition run_open (c : bool * list Z * list Z * Z) : list Z :=
  let '(sm, hist, kind, reason) := c in
  let h := handlers_after (map event_of_code hist) in
  (match channel_open sm h kind reason with
   | Accept r => [MSG_CHANNEL_OPEN_SUCCESS; r]
   | Reject r => [MSG_CHANNEL_OPEN_FAILURE; r]
   end) ++ map (fun b : bool => if b then 1 else 0) [h_agent h; h_x11 h; h_tcp h].

(* (has_server, key, want_reply, srv_ok, remote_chanid) -> [] | [type; chanid] *)
Definition run_request (c : bool * list Z * bool * bool * Z) : list Z :=
  let '(hs, key, want, srv, cid) := c in
  match channel_request_reply hs key want srv cid with
  | Some (t, i) => [t; i]
  | None => []
  end.
