"""C29 — SFTP bulk transfers are exact or fail loudly.

Proof: coq/Props/C29_props.v over coq/Model/C29.v (upload path) and coq/Model/C30.v (request bookkeeping).
Tie: (1) the real SFTPClient.putfo over a byte-level scripted socket whose server accepts / rejects each
write as scripted (and reports recv_ready() as scripted), with SFTPFile.MAX_REQUEST_SIZE patched small in
the harness process, against run_putfo (vm_compute in Coq); (2) real client against a real in-process
server whose SFTPHandle fails chosen writes / reads with each SFTP error code (or shortens reads) at
every chunk position: put / putfo / get / getfo, confirm / callback / prefetch on and off.
Oracle: a transfer that returns normally has made destination bytes == source bytes.
"""
import io
import os
import struct

from common import coq, with_watchdog
import c30

PID = "C29"
LEVEL_TEXT = ("Machine-checked proof (Coq, closed under the global context) over the model of putfo / "
              "_transfer_with_callback / BufferedFile.write / _write_all / SFTPFile._write / _close: a normal return "
              "implies destination = source whenever the server accepted every write; with confirm=True a normal "
              "return implies the remote size equals the bytes sent; non-pipelined writes raise from the very "
              "write() the server rejected.  The desired unconditional theorems are REFUTED on the code as it is "
              "(witnesses by vm_compute, replayed on the real code every run, registered known finding): rejected "
              "pipelined writes are discarded.  Download path (get/getfo, prefetch) is covered by the implementation-"
              "level oracle only (its buffer logic is C28's).")
LEVEL_NOTE = ("Trusted: Coq kernel + vm_compute; hand-written models coq/Model/C29.v and C30.v validated by the "
              "correspondence runs; the remote file system is a byte list that stores exactly the writes answered "
              "SFTP_OK; get/getfo not modelled here (C27/C28 model the read path); an SFTP_EOF status on a read is "
              "taken as the server's end of file, not as a failure.")
TECHNIQUE = "Coq proof (invariants over the upload loop) + refutation witnesses + vm_compute differential correspondence + fault-injection runs"
GENS = ["c30"]
KF = "pipelined-write-status-discarded:_write-registers-NoneType"


# --------------------------------------------------------------------------------------------
# 1. putfo over a scripted socket vs the model


class ChunkReader:
    def __init__(self, chunks):
        self.chunks = list(chunks)

    def read(self, n):
        if not self.chunks:
            return b""
        c = self.chunks.pop(0)
        assert 0 < len(c) <= n
        return c


def apply_write(dest, off, data):
    if len(dest) < off:
        dest.extend(b"\0" * (off - len(dest)))
    dest[off:off + len(data)] = data


def putfo_impl(mrs, chunks, confirm, env, open_rp, close_rp, stat, callback):
    """Run the real putfo; returns (outcome, dest bytes)."""
    from paramiko.sftp_file import SFTPFile
    env = list(env)
    dest = bytearray()
    box = {}

    def server(t, payload):
        num = struct.unpack(">I", payload[:4])[0]
        if t == 3:
            del dest[:]
            return [c30.reply_packet(open_rp[0], num, open_rp[1])]
        if t == 6:
            n = struct.unpack(">I", payload[4:8])[0]
            off = struct.unpack(">Q", payload[8 + n:16 + n])[0]
            m = struct.unpack(">I", payload[16 + n:20 + n])[0]
            data = payload[20 + n:20 + n + m]
            ready, code = env.pop(0) if env else (False, 0)
            box["sock"].ready = ready
            if code == 0:
                apply_write(dest, off, data)
            return [c30.reply_packet(101, num, code)]
        if t == 4:
            return [c30.reply_packet(close_rp[0], num, close_rp[1])]
        if t == 17:
            if stat is None:
                return [c30.reply_packet(105, num, len(dest))]
            return [c30.reply_packet(stat[0], num, stat[1])]
        return [c30.reply_packet(101, num, 8)]

    c, sock = c30.new_client(server)
    box["sock"] = sock
    old = SFTPFile.MAX_REQUEST_SIZE
    SFTPFile.MAX_REQUEST_SIZE = mrs
    calls = []
    try:
        try:
            c.putfo(ChunkReader(chunks), "/remote", 0, (lambda a, b: calls.append(a)) if callback else None, confirm)
            out = 0
        except c30.WouldBlock:
            out = 98
        except Exception:  # noqa
            out = 1
    finally:
        SFTPFile.MAX_REQUEST_SIZE = old
    return out, bytes(dest), calls


def gen_putfo_case(rng):
    mrs = rng.choice([1, 2, 3, 4, 5, 8])
    mode = rng.random()
    if mode < 0.15:
        nchunks = rng.randrange(60, 130)           # enough requests to cross the drain threshold
        chunks = [bytes(rng.randrange(256) for _ in range(rng.choice([1, 1, 2]))) for _ in range(nchunks)]
        mrs = 1
    else:
        chunks = [bytes(rng.randrange(256) for _ in range(rng.randrange(1, 13))) for _ in range(rng.randrange(0, 6))]
    nwrites = sum((len(c) + mrs - 1) // mrs for c in chunks)
    fault = rng.random()
    env = []
    for i in range(nwrites):
        code = 0
        if fault < 0.6 and rng.random() < (0.35 if nwrites < 20 else 0.02):
            code = rng.choice([1, 2, 3, 4, 5, 6, 7, 8, 9])
        env.append((rng.random() < 0.6, code))
    if fault > 0.9 and env:
        env = env[:rng.randrange(len(env))]     # exhausted script: the rest is accepted
    open_rp = (102, 0) if rng.random() < 0.9 else rng.choice([(101, 2), (101, 3), (101, 0), (105, 0)])
    close_rp = (101, 0) if rng.random() < 0.8 else rng.choice([(101, 4), (101, 1), (102, 0)])
    stat = None
    if rng.random() < 0.15:
        stat = rng.choice([(101, 2), (101, 3), (105, 0), (105, sum(map(len, chunks)) + 1), (104, 0)])
    return dict(mrs=mrs, chunks=chunks, confirm=rng.random() < 0.5, env=env, open_rp=open_rp, close_rp=close_rp,
                stat=stat, callback=rng.random() < 0.5)


def coq_putfo_case(k):
    st = [] if k["stat"] is None else list(k["stat"])
    return "((%s, %s), %s, %s, %s, %s)" % (
        coq(k["mrs"]), coq(k["confirm"]), coq([list(c) for c in k["chunks"]]), coq(list(k["env"])),
        coq((k["open_rp"][0], k["open_rp"][1], k["close_rp"][0], k["close_rp"][1])), coq(st))


def judge_put(ctx, what, case, returned, src, dst, rejected, confirm, size_differs=None):
    """The implementation-level oracle for uploads."""
    if not returned or dst == src:
        return
    if rejected:
        if confirm and len(dst) != len(src):
            ctx.fail("putfo-confirm-size-mismatch-not-raised",
                     what + " (confirm=True) returned normally although the remote size differs from the bytes sent",
                     case=case, expected="raise", observed={"dest_len": len(dst), "src_len": len(src)})
        else:
            ctx.fail(KF, what + " returned normally after the server rejected a write; destination != source",
                     case=case, expected="raise or exact copy",
                     observed={"dest_len": len(dst), "src_len": len(src), "first_diff": first_diff(src, dst)})
    else:
        ctx.fail("upload-inexact-without-fault", what + " returned normally with destination != source although "
                 "the server accepted every write", case=case, expected="exact copy",
                 observed={"dest_len": len(dst), "src_len": len(src), "first_diff": first_diff(src, dst)})


def first_diff(a, b):
    for i, (x, y) in enumerate(zip(a, b)):
        if x != y:
            return i
    return min(len(a), len(b))


def scripted_part(ctx, n):
    rng = ctx.rng
    ks = [
        # the two refutation witnesses of Props/C29_props.v (MAX_REQUEST_SIZE as shipped)
        dict(mrs=32768, chunks=[b"\x01"], confirm=False, env=[(False, 3)], open_rp=(102, 0), close_rp=(101, 0),
             stat=None, callback=False),
        dict(mrs=32768, chunks=[b"\x01", b"\x02"], confirm=True, env=[(False, 4), (False, 0)], open_rp=(102, 0),
             close_rp=(101, 0), stat=None, callback=False),
    ] + [gen_putfo_case(rng) for _ in range(n)]
    cases = []
    for j, k in enumerate(ks):
        out, dst, calls = putfo_impl(k["mrs"], k["chunks"], k["confirm"], k["env"], k["open_rp"], k["close_rp"],
                                     k["stat"], k["callback"])
        src = b"".join(k["chunks"])
        rejected = any(code != 0 for _, code in k["env"])
        ctx.count(("putfo", repr(k)), nontrivial=len(k["chunks"]) > 0,
                  kind="scripted-putfo:" + ("witness" if j < 2 else "rejecting" if rejected else "accepting") +
                  (":confirm" if k["confirm"] else ""))
        case = {k2: (v if k2 != "chunks" else [bytes(c) for c in v]) for k2, v in k.items()}
        honest = k["stat"] is None
        if out == 98:
            ctx.fail("putfo-blocks", "putfo waits for a packet although the server has answered every request",
                     case=case)
        if honest:
            judge_put(ctx, "putfo", case, out == 0, src, dst, rejected, k["confirm"])
        if out == 0 and k["callback"] and calls and calls[-1] != len(src):
            ctx.fail("putfo-callback-total", "the last callback does not report the total bytes sent", case=case,
                     expected=len(src), observed=calls[-1])
        cases.append((coq_putfo_case(k), [out, len(dst)] + list(dst)))
        if j == 2:
            ctx.sample({"putfo_case": case, "outcome": out, "dest": dst})
    bad = ctx.model_mismatches("run_putfo", "((Z * bool) * list (list Z) * list (bool * Z) * (Z * Z * Z * Z) * list Z)",
                               cases, imports="From PV Require Import C30 C29.", shard=60)
    for i in bad[:3]:
        ctx.disagree("putfo outcome / destination differ from the model", case=ks[i], impl=cases[i][1][:40])


# --------------------------------------------------------------------------------------------
# 2. real client, real server, faults at every chunk position


class Faults:
    """Installed over SFTPHandle.read / write of the in-process server."""

    def __init__(self):
        self.reset()

    def reset(self):
        self.wn = self.rn = 0
        self.fail_write = None      # (index, code)
        self.fail_read = None       # (index, code | ("short", n))
        self.hit = None


def install(faults):
    from paramiko import SFTPHandle
    ow, orr = SFTPHandle.write, SFTPHandle.read

    def write(self, offset, data):
        i = faults.wn
        faults.wn += 1
        if faults.fail_write and faults.fail_write[0] == i:
            faults.hit = ("write", i, offset)
            return faults.fail_write[1]
        return ow(self, offset, data)

    def read(self, offset, length):
        i = faults.rn
        faults.rn += 1
        if faults.fail_read and faults.fail_read[0] == i:
            what = faults.fail_read[1]
            if isinstance(what, tuple):
                data = orr(self, offset, length)
                if isinstance(data, bytes) and len(data) > what[1]:
                    faults.hit = ("short", i, offset)
                    return data[:what[1]]
                return data
            faults.hit = ("read", i, offset)
            return what
        return orr(self, offset, length)

    SFTPHandle.write, SFTPHandle.read = write, read
    return ow, orr


def live_part(ctx, sizes, codes, wd):
    from paramiko import SFTPHandle
    rng = ctx.rng
    faults = Faults()
    ow, orr = install(faults)
    sess = c30.Session(ctx.repo)
    local = sess.root + "-local"
    os.makedirs(local, exist_ok=True)
    try:
        for size in sizes:
            src = bytes(rng.getrandbits(8) for _ in range(min(size, 4096))) * (size // 4096 + 1)
            src = src[:size]
            nchunks = max(1, (size + 32767) // 32768)
            # ---- uploads: every write position (incl. none), codes round-robin
            positions = [None] + list(range(nchunks)) if size else [None]
            for pi, pos in enumerate(positions):
                code = codes[(pi + size) % len(codes)]
                for confirm in (True, False):
                    use_put = rng.random() < 0.5
                    cb = rng.random() < 0.5
                    faults.reset()
                    faults.fail_write = None if pos is None else (pos, code)
                    rpath = "/up.bin"
                    lsrc = os.path.join(local, "src.bin")
                    calls = []
                    cbf = (lambda a, b: calls.append(a)) if cb else None

                    def go():
                        if use_put:
                            with open(lsrc, "wb") as fh:
                                fh.write(src)
                            return sess.sftp.put(lsrc, rpath, cbf, confirm)
                        return sess.sftp.putfo(io.BytesIO(src), rpath, len(src), cbf, confirm)

                    st, v = with_watchdog(go, wd)
                    case = {"op": "put" if use_put else "putfo", "size": size, "fail_write_index": pos,
                            "code": code if pos is not None else None, "confirm": confirm, "callback": cb}
                    ctx.count(("up", repr(case)), nontrivial=True,
                              kind="live-upload:" + ("fault" if pos is not None else "clean"))
                    if st == "hang":
                        ctx.fail("upload-hangs", "an upload did not complete under the watchdog", case=case)
                        sess.close()
                        sess = c30.Session(ctx.repo)
                        continue
                    try:
                        with open(os.path.join(sess.root, "up.bin"), "rb") as fh:
                            dst = fh.read()
                    except OSError:
                        dst = b""
                    rejected = faults.hit is not None
                    if pos is None and st == "exc":
                        ctx.fail("upload-raises-without-fault", "a fault-free upload raised %r" % (v,), case=case)
                    judge_put(ctx, case["op"], case, st == "ok", src, dst, rejected, confirm)
                    try:
                        os.unlink(os.path.join(sess.root, "up.bin"))
                    except OSError:
                        pass
            # ---- downloads: every read position, error codes and short reads, prefetch on/off
            with open(os.path.join(sess.root, "down.bin"), "wb") as fh:
                fh.write(src)
            rpos = [None] + list(range(nchunks + 1))
            for pi, pos in enumerate(rpos):
                for prefetch in (True, False):
                    what = codes[(pi + size + 1) % len(codes)] if rng.random() < 0.7 else ("short", rng.choice([1, 100, 5000]))
                    use_get = rng.random() < 0.5
                    cb = rng.random() < 0.5
                    faults.reset()
                    faults.fail_read = None if pos is None else (pos, what)
                    ldst = os.path.join(local, "dst.bin")
                    buf = io.BytesIO()
                    calls = []
                    cbf = (lambda a, b: calls.append(a)) if cb else None
                    mc = rng.choice([None, None, 1, 3])

                    def go():
                        if use_get:
                            return sess.sftp.get("/down.bin", ldst, cbf, prefetch, mc)
                        return sess.sftp.getfo("/down.bin", buf, cbf, prefetch, mc)

                    st, v = with_watchdog(go, wd)
                    case = {"op": "get" if use_get else "getfo", "size": size, "fail_read_index": pos,
                            "fault": what if pos is not None else None, "prefetch": prefetch, "callback": cb,
                            "max_concurrent": mc}
                    ctx.count(("down", repr(case)), nontrivial=True,
                              kind="live-download:" + ("fault" if pos is not None else "clean"))
                    if st == "hang":
                        ctx.fail("download-hangs", "a download did not complete under the watchdog", case=case)
                        sess.close()
                        sess = c30.Session(ctx.repo)
                        with open(os.path.join(sess.root, "down.bin"), "wb") as fh:
                            fh.write(src)
                        continue
                    if pos is None and st == "exc":
                        ctx.fail("download-raises-without-fault", "a fault-free download raised %r" % (v,), case=case)
                    if st == "ok":
                        if use_get:
                            with open(ldst, "rb") as fh:
                                got = fh.read()
                        else:
                            got = buf.getvalue()
                        expected = src
                        if faults.hit and faults.hit[0] == "read" and what == 1 and got != src:
                            # the server said "end of file" there once: either the transfer ends there, or the
                            # client asks again (a prefetch EOF is re-checked by a plain read) and gets it all
                            expected = src[:faults.hit[2]]
                        if got != expected:
                            ctx.fail("download-inexact:" + ("prefetch" if prefetch else "plain") +
                                     (":" + faults.hit[0] if faults.hit else ":clean"),
                                     "%s returned normally but the local bytes differ from the remote file" % case["op"],
                                     case=case, expected={"len": len(expected)},
                                     observed={"len": len(got), "first_diff": first_diff(expected, got)})
            try:
                os.unlink(os.path.join(sess.root, "down.bin"))
            except OSError:
                pass
    finally:
        SFTPHandle.write, SFTPHandle.read = ow, orr
        sess.close()
        import shutil
        shutil.rmtree(local, ignore_errors=True)


def run(ctx):
    ctx.rule = ("seeded generator (random.Random('C29-<seed>')): scripted putfo cases = source chunkings (0..5 reads "
                "of 1..12 bytes, or 60..130 reads to cross the 100-request drain threshold), MAX_REQUEST_SIZE 1..8, "
                "per-write status codes 0..9 and recv_ready() answers, open / close / stat replies incl. errors and "
                "wrong sizes, confirm and callback on/off; live cases = file sizes 0..1 MiB (thorough) / 0..100 KiB "
                "(quick) with one failing write or read at EVERY chunk position, each SFTP error code in turn, short "
                "reads, put/putfo/get/getfo, confirm/callback/prefetch on/off.  Non-trivial = distinct and non-empty.")
    ctx.trusted += ["models coq/Model/C29.v and C30.v are hand-written; tied to sftp_client.py / sftp_file.py / file.py "
                    "by this differential run (vm_compute of the model's own definitions)",
                    "download path covered by the implementation-level oracle only"]
    ctx.assumptions += ["the remote file stores exactly the writes the server answers with SFTP_OK",
                        "an SFTP_EOF status on a read means end of file (the transfer then ends normally)"]
    ctx.prove(GENS)
    scripted_part(ctx, 900 if ctx.thorough else 150)
    codes = [2, 3, 4, 5, 6, 7, 8, 1]
    if ctx.thorough:
        sizes = [0, 1, 32767, 32768, 32769, 65536, 100000, 300000, 1048576, 1048577 - 2,
                 ctx.rng.randrange(1, 1048576), ctx.rng.randrange(1, 200000)]
    else:
        sizes = [0, 1, 32768, 32769, 70000, ctx.rng.randrange(1, 100000)]
    live_part(ctx, sizes, codes, 30.0)


def replay(ctx, rep):
    run(ctx)
