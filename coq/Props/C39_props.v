(* C39 — SSH wire encoding round-trips and integers are encoded canonically.
   Property statements only; every proof is `exact <lemma from Proofs/C39.v>`. *)
From PV Require Import Bytes C39 C39_gen C39_proofs.
Open Scope Z_scope.

(* every value written is read back unchanged, in order, consuming exactly its encoding,
   whatever follows it in the buffer *)
Theorem C39_roundtrip :
  forall (fs : list field) (bs rest : list Z),
    forallb field_wf fs = true ->
    encode_all fs = Ok bs ->
    decode_all (map kind_of fs) (bs ++ rest) 0 = (fs, length bs).
Proof. exact roundtrip. Qed.
Print Assumptions C39_roundtrip.

(* already-read bytes plus the unread remainder equal the whole message, after any
   sequence of reads (including reads that run past the end and are zero padded) *)
Theorem C39_so_far_remainder :
  forall (ks : list kind) (buf : list Z) (pos : nat),
    get_so_far buf (snd (decode_all ks buf pos)) ++ get_remainder buf (snd (decode_all ks buf pos)) = buf.
Proof. exact so_far_remainder. Qed.
Print Assumptions C39_so_far_remainder.

(* the integer codec is a bijection onto its image *)
Theorem C39_inflate_deflate : forall n : Z, inflate_long (deflate_long n true) false = n.
Proof. exact inflate_deflate. Qed.
Print Assumptions C39_inflate_deflate.

(* deflate_long yields the minimal two's complement big-endian form of n *)
Theorem C39_minimal :
  forall n : Z,
    let s := deflate_long n true in
    bytes_ok s = true /\ (1 <= length s)%nat /\ sval s = n /\ minimal s = true.
Proof. exact deflate_minimal. Qed.
Print Assumptions C39_minimal.

(* RFC 4251: zero is the empty string; any other mpint is its minimal form *)
Theorem C39_zero_empty : add_mpint 0 = Ok [0; 0; 0; 0].
Proof. exact mpint_zero. Qed.
Print Assumptions C39_zero_empty.

Theorem C39_mpint_canonical :
  forall n bs, n <> 0 -> add_mpint n = Ok bs ->
    exists s, bs = be_encode 4 (Z.of_nat (length s)) ++ s /\ s <> [] /\
              sval s = n /\ minimal s = true.
Proof. exact mpint_canonical. Qed.
Print Assumptions C39_mpint_canonical.

(* used by C06 / C14: the encoding of a typed field list determines the fields *)
Theorem C39_injective :
  forall fs1 fs2 bs,
    forallb field_wf fs1 = true -> forallb field_wf fs2 = true ->
    map kind_of fs1 = map kind_of fs2 ->
    encode_all fs1 = Ok bs -> encode_all fs2 = Ok bs -> fs1 = fs2.
Proof. exact encode_injective. Qed.
Print Assumptions C39_injective.

(* the literals gen/c39.py extracts from message.py / util.py / common.py on every run (after checking
   every modelled function body against its statement-by-statement template) are the model's *)
Theorem C39_source_constants :
  c39_big_int = big_int /\
  (* get_bytes pads short reads only below 1 << 20 *)
  (forall buf n, snd (get_bytes buf 0 n) = length (fst (get_bytes buf 0 n)) \/ n < 2 ^ c39_pad_shift) /\
  2 ^ c39_pad_shift = 2 ^ 20 /\
  (* struct formats and the byte counts read for them *)
  c39_fmt_u32_bytes = 4 /\ c39_n_u32 = c39_fmt_u32_bytes /\
  c39_fmt_u64_bytes = 8 /\ c39_n_u64 = c39_fmt_u64_bytes /\
  c39_n_byte = 1 /\ c39_n_byte + c39_n_adaptive_rest = c39_fmt_u32_bytes /\
  (* name-list separator *)
  join_comma [[1]; [2]] = [1; c39_sep; 2] /\ split_comma [1; c39_sep; 2] = [[1]; [2]] /\
  (* deflate_long: 32-bit limbs masked with 0xffffffff, FF / sign-bit tests *)
  c39_mask32 = 2 ^ c39_def_shift - 1 /\ c39_def_shift = 32 /\ c39_def_ff = 255 /\ c39_def_sign = 128 /\
  deflate_long (c39_def_sign - 1) true = [c39_def_sign - 1] /\
  deflate_long c39_def_sign true = [c39_zero_byte; c39_def_sign] /\
  deflate_long (- c39_def_sign) true = [c39_def_sign] /\
  deflate_long (- c39_def_sign - 1) true = [c39_max_byte; c39_def_sign - 1] /\
  (* inflate_long: words of 4 bytes shifted by 32, sign bit 0x80, 8 bits per byte *)
  c39_inf_word = 4 /\ c39_inf_shift = c39_inf_bits * c39_inf_word /\ c39_inf_bits = 8 /\ c39_inf_sign = 128 /\
  inflate_long [c39_inf_sign - 1] false = c39_inf_sign - 1 /\
  inflate_long [c39_inf_sign] false = - c39_inf_sign /\
  (* the three byte constants of paramiko.common *)
  c39_zero_byte = 0 /\ c39_one_byte = 1 /\ c39_max_byte = 255 /\
  encode_field (FBool true) = Ok [c39_one_byte] /\ encode_field (FBool false) = Ok [c39_zero_byte] /\
  encode_field (FAdaptive c39_big_int) = Ok (c39_max_byte :: be_encode 4 5 ++ [0; 255; 0; 0; 0]) /\
  encode_field (FAdaptive (c39_big_int - 1)) = Ok (be_encode 4 (c39_big_int - 1)).
Proof. exact source_constants. Qed.
Print Assumptions C39_source_constants.

(* non-vacuity: a concrete non-trivial field list meets the hypotheses *)
Example C39_example :
  forallb field_wf [FMpint (-129); FList [[97]; [98; 99]]; FAdaptive (2 ^ 40); FBool true] = true /\
  exists bs, encode_all [FMpint (-129); FList [[97]; [98; 99]]; FAdaptive (2 ^ 40); FBool true] = Ok bs.
Proof. split; [reflexivity | eexists; vm_compute; reflexivity]. Qed.
