(* C03 -- outgoing packets are framed and padded as RFC 4253 section 6 requires.
   Model of paramiko/packet.py Packetizer._build_packet / send_message (outbound framing only) and of
   the arguments Transport._activate_outbound passes to set_outbound_cipher.  Every arithmetic
   expression, branch condition, slice offset and table used here is a definition of Gen/C03_gen.v,
   which gen/c03.py re-translates from the source of the working tree on every run.
   Definitions only; proofs are in Proofs/C03_proofs.v. *)
From Coq Require Import String.
From PV Require Import Bytes C03_gen.
Open Scope Z_scope.

(* ---- the outbound framing state of a Packetizer ------------------------------------------- *)
(* m_enc = (self.__block_engine_out is not None); the other fields are the name-mangled attributes
   __etm_out, __aead_out, __sdctr_out, __block_size_out, __mac_size_out *)
Record mode := mk_mode {
  m_enc : bool; m_etm : bool; m_aead : bool; m_sdctr : bool; m_bs : Z; m_mac : Z }.

(* Packetizer.__init__: before the first NEWKEYS *)
Definition initial_mode : mode :=
  mk_mode false c03_default_etm c03_default_aead c03_default_sdctr c03_default_bs c03_default_mac_size.

(* Transport._activate_outbound for cipher c and MAC m of the tables *)
Definition negotiated (c : c03_cipher) (m : c03_mac) : mode :=
  mk_mode true (c03_etm_of (ci_aead c) (ma_etm m)) (ci_aead c) (ci_sdctr c) (ci_bs c)
          (c03_mac_size_arg (ci_aead c) (ma_size m)).

(* ---- _build_packet: numbers ---------------------------------------------------------------- *)
Definition padding (md : mode) (len : Z) : Z :=
  c03_padding (m_bs md) (c03_addlen (m_etm md) (m_aead md)) len.
Definition length_field (md : mode) (len : Z) : Z := c03_length_field len (padding md len).
Definition pad_byte (md : mode) (len : Z) : Z := c03_pad_byte len (padding md len).
Definition zero_pad (md : mode) : bool := c03_zero_padding (m_sdctr md) (m_enc md).
(* number of bytes actually appended after the payload *)
Definition pad_count (md : mode) (len : Z) : Z :=
  if zero_pad md then c03_padcount_zero (padding md len) else c03_padcount_random (padding md len).
(* len(packet): 4 (length) + 1 (pad byte) + payload + padding bytes *)
Definition packet_len (md : mode) (len : Z) : Z := 4 + 1 + len + pad_count md len.

(* ---- send_message: which branch, what is encrypted, what is appended ------------------------- *)
Inductive branch := BClear | BEtm | BAead | BClassic.
Definition branch_of (md : mode) : branch :=
  if negb (m_enc md) then BClear
  else if m_etm md then BEtm
  else if m_aead md then BAead
  else BClassic.

(* offset of the first byte covered by the block alignment requirement: the length field is excluded
   exactly when send_message leaves it in the clear *)
Definition align_offset (md : mode) : Z := c03_enc_offset (m_etm md) (m_aead md).
(* number of packet bytes in the aligned (= encrypted, when a cipher is active) portion *)
Definition aligned_len (md : mode) (len : Z) : Z := packet_len md len - align_offset md.
(* what the cipher engine is handed: (offset, length); nothing without an engine *)
Definition enc_off (md : mode) : Z := if m_enc md then align_offset md else 0.
Definition enc_len (md : mode) (len : Z) : Z := if m_enc md then aligned_len md len else 0.

(* compute_hmac(...)[: mac_size] of a digest of `digest` bytes *)
Definition mac_len (md : mode) (digest : Z) : Z :=
  if c03_mac_appended (m_enc md) (m_aead md) then Z.min digest (c03_mac_trunc (m_mac md)) else 0.
(* bytes following the packet on the wire: the AEAD engine's tag (atag bytes, a property of the
   library's AESGCM.encrypt) or the truncated HMAC *)
Definition tag_len (md : mode) (digest atag : Z) : Z :=
  match branch_of md with
  | BAead => atag + mac_len md digest
  | _ => mac_len md digest
  end.
Definition wire_len (md : mode) (digest atag len : Z) : Z := packet_len md len + tag_len md digest atag.

(* ---- byte level ------------------------------------------------------------------------------ *)
(* library primitives paramiko does not own; the theorems state their length behaviour as premises *)
Record engines := mk_engines {
  e_cipher : list Z -> list Z;              (* block_engine.update(data) *)
  e_aead : list Z -> list Z -> list Z;      (* block_engine.encrypt(iv, data, aad): ciphertext ++ tag *)
  e_hmac : list Z -> list Z;                (* compute_hmac(key, data, engine): full digest *)
  e_rnd : Z -> list Z }.                    (* os.urandom(n) *)

Definition u32_ok (n : Z) : bool := (0 <=? n) && (n <? 2 ^ 32).
Definition u8_ok (n : Z) : bool := (0 <=? n) && (n <? 256).

(* Packetizer._build_packet(payload) *)
Definition build_packet (E : engines) (md : mode) (payload : list Z) : result (list Z) :=
  let len := Z.of_nat (length payload) in
  let p := padding md len in
  let L := c03_length_field len p in
  let pb := c03_pad_byte len p in
  if u32_ok L && u8_ok pb then          (* struct.pack(">IB", L, pb) raises struct.error otherwise *)
    Ok (be_encode 4 L ++ [pb] ++ payload ++
        (if zero_pad md then repeat 0 (Z.to_nat (c03_padcount_zero p)) else e_rnd E (c03_padcount_random p)))
  else Raise StructErr.

(* the bytes send_message hands to write_all, for sequence number seq (compression off) *)
Definition send_wire (E : engines) (md : mode) (seq : Z) (payload : list Z) : result (list Z) :=
  bind (build_packet E md payload) (fun packet =>
    let off := Z.to_nat (align_offset md) in
    let out :=
      match branch_of md with
      | BClear => packet
      | BEtm | BClassic => firstn off packet ++ e_cipher E (skipn off packet)
      | BAead => firstn off packet ++
                 e_aead E (skipn off packet) (firstn (Z.to_nat c03_aead_aad_len) packet)
      end in
    Ok (out ++
        (if c03_mac_appended (m_enc md) (m_aead md)
         then firstn (Z.to_nat (c03_mac_trunc (m_mac md)))
                     (e_hmac E (be_encode 4 seq ++
                                (if c03_mac_over_ciphertext (m_etm md) then out else packet)))
         else []))).

(* Packetizer.send_message(data): reads the message type byte of the uncompressed message
   (IndexError when there is none), compresses when a compressor is installed, then frames the result *)
Definition framed_payload (comp : option (list Z -> list Z)) (payload : list Z) : result (list Z) :=
  match comp with
  | Some f => Ok (if c03_compress_applies true then f payload else payload)
  | None => if c03_compress_applies false then Raise TypeErr (* None(data) *) else Ok payload
  end.

Definition send_message (E : engines) (comp : option (list Z -> list Z)) (md : mode) (seq : Z)
    (payload : list Z) : result (list Z) :=
  if Z.of_nat (length payload) <=? c03_type_byte_index then Raise IndexErr
  else bind (framed_payload comp payload) (send_wire E md seq).

(* ---- table facts (decided by computation over the generated tables) --------------------------- *)
(* RFC 4253 section 6: the padded length must be a multiple of max(8, block size); padding fits one byte *)
Definition cipher_ok (c : c03_cipher) : bool :=
  (8 <=? ci_bs c) && (ci_bs c <=? 252) && (ci_bs c mod 8 =? 0).
Definition mac_ok (m : c03_mac) : bool := (0 <? ma_size m) && (ma_size m <=? ma_digest m).
Definition tables_ok : bool :=
  forallb cipher_ok c03_cipher_table && forallb mac_ok c03_mac_table
  && negb (Nat.eqb (length c03_cipher_table) 0) && negb (Nat.eqb (length c03_mac_table) 0).

(* ---- what the algorithm names mean (hand-written from the RFCs, NOT generated) --------------------- *)
(* RFC 4253 6.4, RFC 6668 2, OpenSSH PROTOCOL 1.1: name -> (MAC length in bytes, encrypt-then-MAC framing) *)
Definition rfc_macs : list (string * (Z * bool)) :=
  [ ("hmac-sha1"%string, (20, false)); ("hmac-sha1-96"%string, (12, false));
    ("hmac-md5"%string, (16, false)); ("hmac-md5-96"%string, (12, false));
    ("hmac-sha2-256"%string, (32, false)); ("hmac-sha2-512"%string, (64, false));
    ("hmac-sha2-256-etm@openssh.com"%string, (32, true)); ("hmac-sha2-512-etm@openssh.com"%string, (64, true));
    ("hmac-sha1-etm@openssh.com"%string, (20, true)); ("hmac-sha1-96-etm@openssh.com"%string, (12, true));
    ("hmac-md5-etm@openssh.com"%string, (16, true)); ("hmac-md5-96-etm@openssh.com"%string, (12, true)) ].
(* RFC 4253 6.3, RFC 4344, RFC 5647 / OpenSSH PROTOCOL 1.6: name -> (cipher block size, AEAD) *)
Definition rfc_ciphers : list (string * (Z * bool)) :=
  [ ("3des-cbc"%string, (8, false));
    ("aes128-cbc"%string, (16, false)); ("aes192-cbc"%string, (16, false)); ("aes256-cbc"%string, (16, false));
    ("aes128-ctr"%string, (16, false)); ("aes192-ctr"%string, (16, false)); ("aes256-ctr"%string, (16, false));
    ("aes128-gcm@openssh.com"%string, (16, true)); ("aes256-gcm@openssh.com"%string, (16, true)) ].

Fixpoint assoc {A} (k : string) (l : list (string * A)) : option A :=
  match l with
  | [] => None
  | (k', v) :: r => if String.eqb k k' then Some v else assoc k r
  end.

(* a generated table entry agrees with the reference for its name (names without a reference: no claim) *)
Definition mac_matches_rfc (m : c03_mac) : bool :=
  match assoc (ma_name m) rfc_macs with
  | Some (sz, etm) => (ma_size m =? sz) && Bool.eqb (ma_etm m) etm
  | None => true
  end.
Definition cipher_matches_rfc (c : c03_cipher) : bool :=
  match assoc (ci_name c) rfc_ciphers with
  | Some (bs, aead) => (ci_bs c =? bs) && Bool.eqb (ci_aead c) aead
  | None => true
  end.
Definition referenced (names : list string) {A} (ref : list (string * A)) : Z :=
  Z.of_nat (length (filter (fun n => match assoc n ref with Some _ => true | None => false end) names)).

(* ---- correspondence entry points --------------------------------------------------------------- *)
Definition b2z (b : bool) : Z := if b then 1 else 0.

Definition summary (md : mode) (digest atag len : Z) : list Z :=
  [ length_field md len; pad_byte md len; pad_count md len; b2z (zero_pad md); packet_len md len;
    enc_off md; enc_len md len; tag_len md digest atag; wire_len md digest atag len ].

(* what send_message does with a message of `raw` bytes whose framed (compressed, when a compressor is
   installed) form has `flen` bytes: IndexError for a message without type byte, else the summary *)
Definition send_summary (md : mode) (digest atag raw flen : Z) : list Z :=
  if raw <=? c03_type_byte_index then [exn_code IndexErr] else summary md digest atag flen.

(* toy drive: the harness calls set_outbound_cipher / set_outbound_compressor itself
   ((enc, etm, aead, sdctr), (bs, mac_size, digest, atag), (raw, flen)) *)
Definition run_toy (c : (bool * bool * bool * bool) * (Z * Z * Z * Z) * (Z * Z)) : list Z :=
  let '((enc, etm, aead, sdctr), (bs, mac, digest, atag), (raw, flen)) := c in
  send_summary (mk_mode enc etm aead sdctr bs mac) digest atag raw flen.

(* _build_packet called directly (payload length 0 cannot go through send_message, which reads the
   message type byte): ((enc, etm, aead, sdctr), bs, len) -> [L, pad byte, pad bytes, zero?, len(packet)] *)
Definition run_build (c : (bool * bool * bool * bool) * Z * Z) : list Z :=
  let '((enc, etm, aead, sdctr), bs, len) := c in
  let md := mk_mode enc etm aead sdctr bs 0 in
  [ length_field md len; pad_byte md len; pad_count md len; b2z (zero_pad md); packet_len md len ].

Definition default_cipher : c03_cipher := mk_cipher String.EmptyString 0 false false.
Definition default_mac : c03_mac := mk_mac String.EmptyString 0 false 0.

(* table drive: the real Transport._activate_outbound configures the packetizer for table entries
   ci, mi (ci < 0: the initial state, before NEWKEYS); AES-GCM tags are 16 bytes; (raw, flen) as above *)
Definition run_table (c : Z * Z * (Z * Z)) : list Z :=
  let '(ci, mi, (raw, flen)) := c in
  if ci <? 0 then send_summary initial_mode 0 16 raw flen
  else
    let cc := nth (Z.to_nat (Z.min ci 1000)) c03_cipher_table default_cipher in
    let mm := nth (Z.to_nat (Z.min mi 1000)) c03_mac_table default_mac in
    send_summary (negotiated cc mm) (ma_digest mm) 16 raw flen.

(* executable stand-ins for the library primitives (used by the non-vacuity example) *)
Definition toy_engines : engines :=
  mk_engines (map (fun b => Z.lxor b 90)) (fun x _ => map (fun b => Z.lxor b 90) x ++ repeat 7 16)
             (fun _ => repeat 1 20) (fun n => repeat 170 (Z.to_nat n)).
