"""C19 -- channel senders never exceed the peer's window or maximum packet size; receivers never
grant more window than consumed.

Proof: coq/Props/C19_props.v over coq/Model/C19.v + coq/Gen/C19_gen.v (arithmetic regenerated from the
source by gen/c19.py on every run).
Tie: direct drive of two real paramiko.channel.Channel objects joined by a stub transport that holds every
message handed to `_send_user_message` until the case releases it (so the case controls the order of the
critical sections exactly as the model's ops do); after every op the real fields and queues are compared
with the model's (vm_compute of `run_history` inside Coq).
Oracle: the cumulative window inequality, the per-message bound and the grant <= consumed rule, stated on
the wire trace of the real objects; plus a multi-threaded blocking transfer.

This module also hosts the driver shared with harness/c20.py.
"""
import logging
import socket
import threading
import time

from common import coq, Raw, with_watchdog

PID = "C19"
LEVEL_TEXT = ("Machine-checked proof (Coq, closed under the global context) over a model of one channel direction at "
              "critical-section granularity (reserve under the lock / hand-over to the transport / delivery / recv / "
              "adjust), for every interleaving and all window and packet sizes: bytes on the wire <= bytes reserved "
              "<= initial window + adjusts received; every data message carries 1..out_max_packet_size-64 bytes "
              "(<= the peer's maximum whenever that is >= 4096); adjusts sent <= bytes consumed (+ discarded). The "
              "arithmetic is regenerated from channel.py/transport.py/util.py/common.py by an AST translator each "
              "run and the step structure is tied to the real Channel by a differential run of the model's own "
              "definitions (vm_compute) against two real Channel objects on generated histories.")
LEVEL_NOTE = ("Trusted: Coq kernel + vm_compute; gen/c19.py (fail-closed translator); the identification of the "
              "model's atomic steps with the real critical sections (validated by the held-message direct drive, "
              "not proved); half-close by shutdown_write and set_combine_stderr are steps of the model; closed / "
              "EOF-received states are outside it (C22); the set of functions that write a flow-control field or "
              "call a flow-control primitive is enumerated by the translator (any new one aborts); blocking mode is modelled as "
              "'send not enabled while the window is 0' and exercised by a real multi-threaded transfer; lock-release "
              "switch points (and reads of out_window_size / in_window_sofar made outside the channel lock, which are "
              "themselves reported) of real two-thread runs are enumerated by a deterministic scheduler; the stub transport "
              "reports any send made while the channel lock is held.")
TECHNIQUE = "Coq proof (accounting invariant over all interleavings) + AST-generated arithmetic + vm_compute differential correspondence"

U32 = 2 ** 32 - 1
LOGNAME = "verif.c19"


def _quiet():
    lg = logging.getLogger(LOGNAME)
    if not lg.handlers:
        lg.addHandler(logging.NullHandler())
    lg.propagate = False


class Stub:
    """Stands in for Transport: records what Channel hands to _send_user_message."""

    def __init__(self, dw=None, dp=None):
        from paramiko.common import DEFAULT_WINDOW_SIZE, DEFAULT_MAX_PACKET_SIZE
        self.default_window_size = DEFAULT_WINDOW_SIZE if dw is None else dw
        self.default_max_packet_size = DEFAULT_MAX_PACKET_SIZE if dp is None else dp
        self.sent = []
        self.under_lock = []
        self.server_object = None

    def get_log_channel(self):
        return LOGNAME

    # the real methods, run on the stub (they only read self.default_*)
    def _sanitize_window_size(self, w):
        from paramiko.transport import Transport
        return Transport._sanitize_window_size(self, w)

    def _sanitize_packet_size(self, p):
        from paramiko.transport import Transport
        return Transport._sanitize_packet_size(self, p)

    def _send_user_message(self, m):
        # the real Transport._send_user_message may block (re-key in progress: clear_to_send not set) while the
        # transport thread needs the channel lock for every WINDOW_ADJUST / EOF / CLOSE it dispatches: calling it
        # with the channel lock held stalls the connection.  Owner tracking comes from LockProxy.
        ch = getattr(self, "chan", None)
        if ch is not None and isinstance(ch.lock, LockProxy) and ch.lock.owner == threading.get_ident():
            self.under_lock.append(m.asbytes()[0])
        self.sent.append(m.asbytes())

    def _unlink_channel(self, chanid):
        pass

    def get_exception(self):
        return None


class LockProxy:
    """Wraps Channel.lock (the Condition built on it keeps using the underlying lock, so mutual exclusion is
    unchanged): records the owning thread, and after a release by the armed thread calls the switch-point hook --
    the deterministic two-thread scheduler of `run_schedule`."""

    def __init__(self, lock):
        self._l = lock
        self.owner = None
        self.hook = None

    def acquire(self, *a, **k):
        r = self._l.acquire(*a, **k)
        if r:
            self.owner = threading.get_ident()
        return r

    def release(self):
        self.owner = None
        self._l.release()
        h = self.hook
        if h is not None:
            h()

    def locked(self):
        return self._l.locked()

    __enter__ = acquire

    def __exit__(self, *a):
        self.release()


FLOW_FIELDS = ("out_window_size", "in_window_sofar")
_RIGGED = {}


def _flow_prop(name):
    def get(self):
        v = self.__dict__[name]
        rig = self.__dict__.get("_rig")
        if rig is not None:
            rig(self, name, "read")
        return v

    def put(self, v):
        rig = self.__dict__.get("_rig")
        if rig is not None:
            rig(self, name, "write")
        self.__dict__[name] = v
    return property(get, put)


def rig_channel(ch, pair):
    """Turn the flow-control fields of this Channel instance into observed attributes: every access made by
    paramiko/channel.py code while the accessing thread does not own the channel lock is recorded (the model's
    critical sections assume there is none), and an unlocked READ is a switch point of the two-thread scheduler."""
    import sys
    cls = ch.__class__
    if cls not in _RIGGED:
        _RIGGED[cls] = type("Rigged" + cls.__name__, (cls,), {f: _flow_prop(f) for f in FLOW_FIELDS})
    ch.__class__ = _RIGGED[cls]

    def rig(self, name, kind):
        f = sys._getframe(2)
        fn = f.f_code.co_filename
        if not fn.endswith("channel.py") or "paramiko" not in fn:
            return                      # the harness looking at the field
        if isinstance(self.lock, LockProxy) and self.lock.owner == threading.get_ident():
            return
        where = "%s (line %d)" % (f.f_code.co_name, f.f_lineno)
        pair.unlocked.append((name, kind, where))
        h = pair.read_hook
        if h is not None and kind == "read":
            h()
    ch.__dict__["_rig"] = rig


def parse(raw):
    """(type, chanid, code, payload-length, body-after-chanid)"""
    import struct
    t = raw[0]
    chanid = struct.unpack(">I", raw[1:5])[0]
    if t == 94:
        n = struct.unpack(">I", raw[5:9])[0]
        assert len(raw) == 9 + n
        return (94, chanid, 0, n, raw[5:])
    if t == 95:
        code, n = struct.unpack(">II", raw[5:13])
        assert len(raw) == 13 + n
        return (95, chanid, code, n, raw[5:])
    if t == 93:
        n = struct.unpack(">I", raw[5:9])[0]
        assert len(raw) == 9
        return (93, chanid, 0, n, raw[5:])
    return (t, chanid, 0, 0, raw[5:])


class Pair:
    """Two real Channels A (id 1) and B (id 2).  Direction d=False: data A->B; d=True: data B->A.
    cfg[d] = (W0, P, W, combine): sender's initial out window, peer's advertised max packet (raw),
    receiver's in window, receiver's combine_stderr."""

    def __init__(self, cfg_ab, cfg_ba):
        from paramiko.channel import Channel
        _quiet()
        self.cfg = {False: cfg_ab, True: cfg_ba}
        self.t = [Stub(), Stub()]
        self.ch = [Channel(1), Channel(2)]
        for i in (0, 1):
            self.ch[i]._set_transport(self.t[i])
            self.ch[i].lock = LockProxy(self.ch[i].lock)
            self.t[i].chan = self.ch[i]
        # receiver halves
        self.ch[1]._set_window(cfg_ab[2], 32768)
        self.ch[0]._set_window(cfg_ba[2], 32768)
        # sender halves
        self.ch[0]._set_remote_channel(2, cfg_ab[0], cfg_ab[1])
        self.ch[1]._set_remote_channel(1, cfg_ba[0], cfg_ba[1])
        self.ch[1].combine_stderr = cfg_ab[3]
        self.ch[0].combine_stderr = cfg_ba[3]
        for c in self.ch:
            c.settimeout(0.0)
        self.unlocked = []
        self.read_hook = None
        for c in self.ch:
            rig_channel(c, self)
        self.hand_data = {False: [], True: []}
        self.wire_data = {False: [], True: []}
        self.hand_adj = {False: [], True: []}
        self.wire_adj = {False: [], True: []}
        # wire-trace accounting for the oracles (per direction)
        self.emitted = {False: 0, True: 0}
        self.adj_delivered = {False: 0, True: 0}
        self.adj_emitted = {False: 0, True: 0}
        self.consumed = {False: 0, True: 0}
        self.discarded = {False: 0, True: 0}
        self.eof_msgs = [0, 0]
        self.fed = {False: 0, True: 0}
        self.concurrent = False
        self.problems = []

    def S(self, d):
        return self.ch[1 if d else 0]

    def R(self, d):
        return self.ch[0 if d else 1]

    def collect(self):
        """classify what the channels handed to their transports since the last call"""
        if self.unlocked:
            name, kind, where = self.unlocked[0]
            self.problems.append(("unlocked-flow-field-access",
                                  "Channel.%s %s %s without holding the channel lock (%d such accesses): a concurrent "
                                  "send / recv / WINDOW_ADJUST can run between this access and the matching update, so the "
                                  "window accounting is no longer a sequence of critical sections"
                                  % (where, "reads" if kind == "read" else "writes", name, len(self.unlocked))))
            self.unlocked = []
        for i in (0, 1):
            if self.t[i].under_lock:
                self.problems.append(("send-under-channel-lock",
                                      "transport._send_user_message was called with the channel lock held (message "
                                      "type %d): if the transport is re-keying the call blocks and the transport thread, "
                                      "which needs that lock to dispatch WINDOW_ADJUST / EOF / CLOSE, stalls with it"
                                      % self.t[i].under_lock[0]))
                self.t[i].under_lock = []
            for raw in self.t[i].sent:
                t, chanid, code, n, body = parse(raw)
                if chanid != self.ch[i].remote_chanid:
                    self.problems.append(("wrong-chanid", "message addressed to channel %d" % chanid))
                if t in (94, 95):
                    d = bool(i)                                             # i is the sender of direction d
                    self.hand_data[d].append((t, code, n, body))
                    self.check_size(d, n)
                    # oracle: bytes framed so far (on the wire or in a sender's hand) never exceed the initial
                    # window + adjusts the peer has sent
                    built = self.emitted[d] + sum(x[2] for x in self.hand_data[d])
                    if built > self.cfg[d][0] + self.adj_delivered[d]:
                        self.problems.append(("window-exceeded", "framed %d data bytes with window %d + adjusts %d" % (
                            built, self.cfg[d][0], self.adj_delivered[d])))
                elif t == 93:
                    d = not bool(i)                                         # i is the receiver of direction d
                    self.hand_adj[d].append((n, body))
                    # oracle: adjusts computed so far never exceed what the application consumed (+ discarded)
                    granted = self.adj_emitted[d] + sum(x[0] for x in self.hand_adj[d])
                    cons = self.taken(d)
                    if granted > cons + self.discarded[d]:
                        self.problems.append(("grant-exceeds-consumed",
                                              "window adjustments computed %d > consumed %d + discarded %d" % (
                                                  granted, cons, self.discarded[d])))
                elif t == 96:
                    # CHANNEL_EOF of a half-close: kept on the wire (delivering it only ends the direction
                    # in which channel i was the sender)
                    self.eof_msgs[i] += 1
                    if self.eof_msgs[i] > 1:
                        self.problems.append(("eof-twice", "channel sent EOF %d times" % self.eof_msgs[i]))
                else:
                    self.problems.append(("unexpected-message", "type %d" % t))
            self.t[i].sent = []

    def check_account(self, d):
        """the sender's window is exactly: initial window + adjusts received - bytes framed (quiescent points only)"""
        S = self.S(d)
        built = self.emitted[d] + sum(x[2] for x in self.hand_data[d])
        want = self.cfg[d][0] + self.adj_delivered[d] - built
        if S.out_window_size != want:
            self.problems.append(("window-account-mismatch",
                                  "sender's out_window_size is %d but initial window %d + adjusts received %d - bytes "
                                  "framed %d = %d" % (S.out_window_size, self.cfg[d][0], self.adj_delivered[d], built,
                                                      want)))

    def taken(self, d):
        """bytes the application has taken out of the receive buffers of direction d (also by a recv call that
        has not returned yet)"""
        R = self.R(d)
        return self.fed[d] - len(R.in_buffer) - len(R.in_stderr_buffer)

    def digest(self, d):
        S, R = self.S(d), self.R(d)
        out = [S.out_window_size, S.out_max_packet_size, R.in_window_size, R.in_window_threshold,
               R.in_window_sofar, len(R.in_buffer), len(R.in_stderr_buffer), 1 if R.combine_stderr else 0,
               1 if S.eof_sent else 0, -11]
        for (t, code, n, _) in self.hand_data[d]:
            out += [t, code, n]
        out.append(-12)
        for (t, code, n, _) in self.wire_data[d]:
            out += [t, code, n]
        out.append(-13)
        out += [n for n, _ in self.hand_adj[d]]
        out.append(-14)
        out += [n for n, _ in self.wire_adj[d]]
        return out

    def step(self, d, op):
        """run one op on the real objects; returns the observation (same encoding as the model)"""
        from paramiko.message import Message
        from paramiko.common import cMSG_CHANNEL_EXTENDED_DATA
        S, R = self.S(d), self.R(d)
        kind = op[0]
        ret = 0
        if kind == "OSend":
            k, n = op[1], op[2]
            data = bytes(n)
            before = len(self.hand_data[d])
            try:
                if k is None:
                    ret = S.send(data)
                elif k == 1:
                    ret = S.send_stderr(data)
                else:
                    m = Message()
                    m.add_byte(cMSG_CHANNEL_EXTENDED_DATA)
                    m.add_int(S.remote_chanid)
                    m.add_int(k)
                    ret = S._send(data, m)
            except socket.timeout:
                ret = -1
            self.collect()
            new = self.hand_data[d][before:]
            # oracle: the value returned to the application is what was put in the message
            if self.concurrent:
                # another thread's message may have been collected meanwhile
                if ret > 0 and ret not in [x[2] for x in new]:
                    self.problems.append(("send-return", "send returned %d but built %r" % (ret, [x[:3] for x in new])))
            else:
                if ret > 0 and (len(new) != 1 or new[0][2] != ret):
                    self.problems.append(("send-return", "send returned %d but built %r" % (ret, [x[:3] for x in new])))
                if ret <= 0 and new:
                    self.problems.append(("send-return", "send returned %d but built a message" % ret))
            if ret > n:
                self.problems.append(("send-return", "send accepted %d of %d bytes" % (ret, n)))
        elif kind == "OEmit":
            i = op[1]
            if i >= len(self.hand_data[d]):
                return -2
            msg = self.hand_data[d].pop(i)
            self.wire_data[d].append(msg)
            self.emitted[d] += msg[2]
            self.check_emit(d, msg)
        elif kind == "ODeliver":
            if not self.wire_data[d]:
                return -2
            t, code, n, body = self.wire_data[d].pop(0)
            m = Message(body)
            # accounted before the handler runs (a concurrent op may already see its effect)
            if t == 95 and code != 1:
                self.discarded[d] += n
            else:
                self.fed[d] += n
            if t == 94:
                R._feed(m)
            else:
                R._feed_extended(m)
            self.collect()
        elif kind == "ORecv":
            err, n = op[1], op[2]
            try:
                out = R.recv_stderr(n) if err else R.recv(n)
                ret = len(out)
                self.consumed[d] += ret
            except socket.timeout:
                ret = -1
            self.collect()
        elif kind == "OEmitAdj":
            i = op[1]
            if i >= len(self.hand_adj[d]):
                return -2
            a = self.hand_adj[d].pop(i)
            self.wire_adj[d].append(a)
            self.adj_emitted[d] += a[0]
            # oracle: the receiver never grants more than its application consumed (+ discarded data)
            if self.adj_emitted[d] > self.taken(d) + self.discarded[d]:
                self.problems.append(("grant-exceeds-consumed",
                                      "adjusts sent %d > consumed %d + discarded %d" % (
                                          self.adj_emitted[d], self.taken(d), self.discarded[d])))
        elif kind == "ODeliverAdj":
            if not self.wire_adj[d]:
                return -2
            n, body = self.wire_adj[d].pop(0)
            self.adj_delivered[d] += n
            S._window_adjust(Message(body))
            self.collect()
        elif kind == "OCombine":
            ret = 1 if R.set_combine_stderr(bool(op[1])) else 0
            self.collect()
        elif kind == "OShutW":
            S.shutdown_write()
            self.collect()
        else:
            raise ValueError(kind)
        return ret

    def check_emit(self, d, msg):
        W0, P = self.cfg[d][0], self.cfg[d][1]
        t, code, n, _ = msg
        # oracle: cumulative bytes on the wire never exceed initial window + adjusts the sender received
        if self.emitted[d] > W0 + self.adj_delivered[d]:
            self.problems.append(("window-exceeded", "sent %d bytes with window %d + adjusts %d" % (
                self.emitted[d], W0, self.adj_delivered[d])))

    def check_size(self, d, n):
        """oracle on every data message the sender builds (independent of translator and model)"""
        P = self.cfg[d][1]
        if n < 1:
            self.problems.append(("empty-data-message", "data message with %d bytes" % n))
        if P >= 4096 and n > P:
            self.problems.append(("packet-exceeds-peer-max", "message of %d bytes, peer maximum %d" % (n, P)))
        if n > max(4096, min(P, U32)) - 64:
            self.problems.append(("packet-headroom", "message of %d bytes exceeds max_packet-64 = %d" % (
                n, max(4096, min(P, U32)) - 64)))

    def settle(self, d, trace=None):
        """the environment of C20: transport delivers everything, application reads everything"""
        def do(op):
            r = self.step(d, op)
            if trace is not None:
                trace.append((d, op, r, self.digest(d)))
        while self.hand_data[d]:
            do(("OEmit", 0))
        while self.wire_data[d]:
            do(("ODeliver",))
        R = self.R(d)
        do(("ORecv", False, len(R.in_buffer)))
        do(("ORecv", True, len(R.in_stderr_buffer)))
        while self.hand_adj[d]:
            do(("OEmitAdj", 0))
        while self.wire_adj[d]:
            do(("ODeliverAdj",))


def coq_op(op):
    k = op[0]
    if k == "OSend":
        return "(OSend %s %d)" % ("None" if op[1] is None else "(Some %d)" % op[1], op[2])
    if k == "ORecv":
        return "(ORecv %s %d)" % ("true" if op[1] else "false", op[2])
    if k in ("OEmit", "OEmitAdj"):
        return "(%s %d%%nat)" % (k, op[1])
    if k == "OCombine":
        return "(OCombine %s)" % ("true" if op[1] else "false")
    return k


def coq_case(cfg_ab, cfg_ba, ops):
    def c(cfg):
        return "(%d, %d, %d, %s)" % (cfg[0], cfg[1], cfg[2], "true" if cfg[3] else "false")
    return "(%s, %s, [%s])" % (c(cfg_ab), c(cfg_ba), ";".join("(%s, %s)" % ("true" if d else "false", coq_op(o))
                                                                for d, o in ops))


CASE_TYPE = "((Z * Z * Z * bool) * (Z * Z * Z * bool) * list (bool * op))"


def safe_mismatches(ctx, run_fn, case_type, cases, imports=None, shard=150):
    """ctx.model_mismatches that never stops the run: when the translator failed (stale / missing Gen file)
    or coqc cannot evaluate the cases, the comparison is recorded as broken and the implementation-level
    oracles (which do not depend on the translator or the model) keep running."""
    pr = ctx.proof
    if pr is not None and pr.broken and "translator" in pr.broken:
        ctx.corr_broken.append({"what": "model comparison %s skipped: translator gen/c19.py failed (fail-closed); "
                                        "implementation-level oracles still run" % run_fn})
        return []
    try:
        return ctx.model_mismatches(run_fn, case_type, cases, imports=imports, shard=shard)
    except Exception as e:  # noqa
        ctx.corr_broken.append({"what": "model comparison %s could not be evaluated" % run_fn, "error": repr(e)[-600:]})
        return []


def pick_window(rng, stub):
    """receiver window through the real _sanitize_window_size"""
    raw = rng.choice([None, 0, 1, 32767, 32768, 32769, 2 ** 31, U32, U32 + 1, 2 ** 40,
                      rng.randrange(32768, 70000), rng.randrange(32768, 70000), rng.randrange(32768, 70000),
                      rng.randrange(32768, 40000), rng.randrange(0, U32 + 1)])
    return stub._sanitize_window_size(raw)


def pick_packet(rng):
    return rng.choice([0, 1, 1000, 4095, 4096, 4097, 4159, 4160, 4161, 8192, 32768, 35000, U32,
                       rng.randrange(4096, 9000), rng.randrange(0, U32 + 1)])


def pick_cfgs(rng, coupled_p=0.7):
    stub = Stub()
    w_a, w_b = pick_window(rng, stub), pick_window(rng, stub)

    def w0(peer_w):
        if rng.random() < coupled_p:
            return peer_w
        return rng.choice([0, 1, 100, 4031, 4032, 4033, 10000, rng.randrange(0, 70000), rng.randrange(0, U32 + 1)])
    cfg_ab = (w0(w_b), pick_packet(rng), w_b, rng.random() < 0.25)
    cfg_ba = (w0(w_a), pick_packet(rng), w_a, rng.random() < 0.25)
    return cfg_ab, cfg_ba


def gen_op(rng, pair, d, codes):
    """one op for direction d, biased toward enabled ops and boundary sizes"""
    S, R = pair.S(d), pair.R(d)
    mp = S.out_max_packet_size - 64
    r = rng.random()
    if r < 0.04:
        return ("OCombine", rng.random() < 0.7)
    if r < 0.055:
        return ("OShutW",)
    if r < 0.30:
        k = rng.choice(codes)
        n = rng.choice([0, 1, 2, mp - 1, mp, mp + 1, min(S.out_window_size, 120000), min(S.out_window_size + 1, 120000),
                        max(0, min(S.out_window_size - 1, 120000)), rng.randrange(0, 9000), rng.randrange(0, 70000)])
        return ("OSend", k, min(n, 120000))
    if r < 0.45:
        n = len(pair.hand_data[d])
        return ("OEmit", rng.randrange(0, n) if n and rng.random() < 0.93 else n + rng.randrange(0, 2))
    if r < 0.60:
        return ("ODeliver",)
    if r < 0.80:
        err = rng.random() < 0.4
        buf = len(R.in_stderr_buffer) if err else len(R.in_buffer)
        thr = R.in_window_threshold - R.in_window_sofar
        n = rng.choice([0, 1, buf, buf + 1, max(0, buf - 1), max(0, thr), max(0, thr + 1), max(0, thr - 1),
                        rng.randrange(0, 5000), 10 ** 9])
        return ("ORecv", err, n)
    if r < 0.90:
        n = len(pair.hand_adj[d])
        return ("OEmitAdj", rng.randrange(0, n) if n and rng.random() < 0.93 else n + rng.randrange(0, 2))
    return ("ODeliverAdj",)


def run_history(rng, cfg_ab, cfg_ba, nops, codes, settle_end=False):
    """Drive a pair through a generated history.  Returns (pair, ops, expected-output)."""
    pair = Pair(cfg_ab, cfg_ba)
    out = pair.digest(False) + [-20] + pair.digest(True) + [-20]
    ops = []
    for _ in range(nops):
        d = rng.random() < 0.35
        op = gen_op(rng, pair, d, codes)
        ret = pair.step(d, op)
        ops.append((d, op))
        out += [ret] + pair.digest(d) + [-20]
    if settle_end:
        for d in (False, True):
            tr = []
            pair.settle(d, tr)
            for (dd, op, ret, dig) in tr:
                ops.append((dd, op))
                out += [ret] + dig + [-20]
    for d in (False, True):
        pair.check_account(d)
    return pair, ops, out


def report_problems(ctx, pair, case):
    for key, what in pair.problems[:3]:
        ctx.fail(key, what, case=case, observed=what)


def histories(ctx, n, codes, run_fn="run_history", imports=None, settle_end=False, coupled_p=0.7, label="history",
              after=None):
    rng = ctx.rng
    cases = []
    for j in range(n):
        cfg_ab, cfg_ba = pick_cfgs(rng, coupled_p)
        nops = rng.randrange(5, 46)
        pair, ops, out = run_history(rng, cfg_ab, cfg_ba, nops, codes, settle_end)
        case = {"cfg_ab": list(cfg_ab), "cfg_ba": list(cfg_ba), "ops": [[d, list(o)] for d, o in ops]}
        report_problems(ctx, pair, case)
        if after is not None:
            after(pair, case)
        moved = pair.emitted[False] + pair.emitted[True]
        ctx.count(("hist", cfg_ab, cfg_ba, tuple(ops)), nontrivial=moved > 0, kind=label)
        if len(out) < 3900:
            cases.append((coq_case(cfg_ab, cfg_ba, ops), out, case))
        if j == 0:
            ctx.sample({label: {"case": case, "impl_output_head": out[:60]}})
    bad = safe_mismatches(ctx, run_fn, CASE_TYPE, [(c, o) for c, o, _ in cases], imports=imports, shard=90)
    for i in bad[:3]:
        ctx.disagree("Channel history differs from the model", case=cases[i][2], impl=cases[i][1][:400])
    return cases


def directed_oracle(ctx):
    """Model-independent sweep of the boundary relations between request size, remaining window and peer max
    packet (request > window > max_packet-64, request > max_packet-64 > window, ...), stdout and stderr
    alternating until the window is exhausted, one adjust, and again; plus discarded extended data crossing the
    credit threshold.  Only the wire-trace oracles of Pair judge the outcome."""
    for W0 in (50000, 100, 4031, 4032, 4033, 70000, 3968):
        for P in (4096, 1000, 4160, 8192, 32768):
            for n in (W0 + 1, 2 * W0, 100000, P - 63, max(4096, P) - 63, max(1, W0 - 1), W0):
                cfg = (W0, P, 32768, False)
                pair = Pair(cfg, cfg)
                ops = []

                def do(op):
                    ops.append((False, op))
                    return pair.step(False, op)
                for phase in (0, 1):
                    for i in range(40):
                        r = do(("OSend", None if i % 2 == 0 else 1, n))
                        if r <= 0:
                            break
                        do(("OEmit", 0))
                    while pair.wire_data[False]:
                        do(("ODeliver",))
                    do(("ORecv", False, 10 ** 9))
                    do(("ORecv", True, 10 ** 9))
                    while pair.hand_adj[False]:
                        do(("OEmitAdj", 0))
                    while pair.wire_adj[False]:
                        do(("ODeliverAdj",))
                case = {"cfg_ab": list(cfg), "cfg_ba": list(cfg), "ops": [[d, list(o)] for d, o in ops]}
                ctx.count(("directed", W0, P, n), nontrivial=pair.emitted[False] > 0, kind="directed-boundary")
                report_problems(ctx, pair, case)
    # unread stderr data, then set_combine_stderr(True), then recv: moved bytes are credited exactly once;
    # receiver half-closed (shutdown_write on the reading channel) at various points: reads keep being credited
    for W in (32768, 50000):
        for n in (1, 3000, W // 10, W // 10 + 1, 20000):
            for shut_at in (None, 0, 2, 4):
                cfg = (W, 32768, W, False)
                pair = Pair(cfg, cfg)
                ops = []
                seq = [(False, ("OSend", 1, n)), (False, ("OEmit", 0)), (False, ("ODeliver",)),
                       (False, ("OSend", None, n)), (False, ("OEmit", 0)), (False, ("ODeliver",)),
                       (False, ("OCombine", True)), (False, ("ORecv", True, 10 ** 9)), (False, ("ORecv", False, n)),
                       (False, ("ORecv", False, 10 ** 9)), (False, ("OCombine", False)), (False, ("OCombine", True))]
                if shut_at is not None:
                    seq.insert(shut_at, (True, ("OShutW",)))      # the READER of direction False half-closes
                for d, op in seq:
                    ops.append((d, op))
                    pair.step(d, op)
                tr = []
                pair.settle(False, tr)
                ops += [(d, op) for (d, op, _, _) in tr]
                case = {"cfg_ab": list(cfg), "cfg_ba": list(cfg), "ops": [[d, list(o)] for d, o in ops]}
                S, R = pair.S(False), pair.R(False)
                if S.out_window_size + R.in_window_sofar != W:
                    pair.problems.append(("credit-lost", "after everything was delivered and read, sender window %d + "
                                          "in_window_sofar %d != advertised window %d" % (
                                              S.out_window_size, R.in_window_sofar, W)))
                ctx.count(("directed-combine", W, n, shut_at), nontrivial=True, kind="directed-combine-halfclose")
                report_problems(ctx, pair, case)
    # discarded extended data around the credit threshold (threshold = W // 10)
    for W in (32768, 40000, 65536):
        thr = W // 10
        for k in (0, 2, 3):
            for n in (thr - 4, thr - 3, thr, thr + 1, 4000, 1):
                cfg = (W, 32768, W, False)
                pair = Pair(cfg, cfg)
                ops = []
                for i in range(6):
                    for op in (("OSend", k, n), ("OEmit", 0), ("ODeliver",), ("OEmitAdj", 0), ("ODeliverAdj",)):
                        ops.append((False, op))
                        pair.step(False, op)
                case = {"cfg_ab": list(cfg), "cfg_ba": list(cfg), "ops": [[d, list(o)] for d, o in ops]}
                ctx.count(("directed-discard", W, k, n), nontrivial=True, kind="directed-discard")
                report_problems(ctx, pair, case)


# ---------------------------------------------------------------------------------------------
# deterministic two-thread schedules: thread 1 is preempted right after its k-th release of a channel lock,
# thread 2 then runs a whole op, thread 1 resumes.  Every such schedule is an interleaving of critical sections,
# i.e. one of the op orders the theorems quantify over, so the wire-trace oracles must hold after it.

def run_schedule(pair, a, b, k, watchdog=5.0):
    """a, b = (direction, op).  Returns None or a (key, what) problem of the schedule itself."""
    paused, resume, done = threading.Event(), threading.Event(), threading.Event()
    count = [0]
    box = {}

    def hook():
        if threading.get_ident() != box.get("tid") or resume.is_set() or k == "read":
            return
        count[0] += 1
        if count[0] == k:
            paused.set()
            resume.wait(watchdog * 3)

    def read_hook():
        # thread 1 has just read a flow-control field without the lock: let thread 2 run before it goes on
        if threading.get_ident() != box.get("tid") or resume.is_set() or paused.is_set() or k != "read":
            return
        paused.set()
        resume.wait(watchdog * 3)

    def t1():
        box["tid"] = threading.get_ident()
        try:
            box["ra"] = pair.step(a[0], a[1])
        except Exception as e:  # noqa
            box["ea"] = repr(e)
        finally:
            done.set()
            paused.set()
    for c in pair.ch:
        c.lock.hook = hook
    pair.read_hook = read_hook
    pair.concurrent = True
    th = threading.Thread(target=t1, daemon=True)
    th.start()
    paused.wait(watchdog)
    problem = None
    if not done.is_set():
        # thread 1 sits at its switch point: run the second op to completion
        st, v = with_watchdog(lambda: pair.step(b[0], b[1]), watchdog)
        if st == "hang":
            problem = ("schedule-deadlock", "second thread's %r blocks while the first is between two critical "
                       "sections of %r" % (b[1], a[1]))
        elif st == "exc":
            problem = ("schedule-exception", repr(v))
        box["preempted"] = True
    else:
        pair.step(b[0], b[1])
    resume.set()
    th.join(watchdog)
    for c in pair.ch:
        c.lock.hook = None
    pair.read_hook = None
    pair.concurrent = False
    if th.is_alive():
        problem = ("schedule-deadlock", "first thread's %r never finishes" % (a[1],))
    if "ea" in box:
        problem = ("schedule-exception", box["ea"])
    return problem, bool(box.get("preempted"))


SCHED_SETUPS = [
    # (cfg, prefix ops (direction False), pool of concurrent ops)
    ((32768, 32768, 32768, False),
     [("OSend", None, 4000), ("OSend", 1, 4000), ("OSend", 3, 4000), ("OEmit", 0), ("OEmit", 0), ("OEmit", 0),
      ("ODeliver",), ("ODeliver",)],
     [("ORecv", False, 4000), ("ORecv", True, 4000), ("ODeliver",), ("OCombine", True), ("ORecv", False, 2000),
      ("ORecv", True, 2000)]),
    ((3000, 32768, 32768, False),
     [("OSend", None, 500), ("OEmit", 0), ("ODeliver",), ("ORecv", False, 500)],
     [("OSend", None, 3000), ("OSend", 1, 3000), ("OSend", None, 1000), ("OSend", 1, 2500), ("OEmit", 0)]),
    ((5000, 4096, 32768, False),
     [("OSend", None, 4000), ("OEmit", 0), ("ODeliver",), ("ORecv", False, 4000), ("OEmitAdj", 0)],
     [("OSend", None, 5000), ("OSend", 1, 5000), ("ODeliverAdj",), ("OSend", None, 1000)]),
]


def do_schedule(setup, ia, ib, k):
    cfg, prefix, pool = SCHED_SETUPS[setup]
    pair = Pair(cfg, cfg)
    for op in prefix:
        pair.step(False, op)
    a, b = (False, pool[ia]), (False, pool[ib])
    problem, preempted = run_schedule(pair, a, b, k)
    if problem:
        pair.problems.append(problem)
    pair.check_account(False)
    pair.settle(False)
    # the sender now uses up whatever window it believes it has (the wire oracles see an overrun if it believes wrong)
    for _ in range(12):
        if pair.step(False, ("OSend", None, 20000)) <= 0:
            break
        pair.step(False, ("OEmit", 0))
    pair.check_account(False)
    pair.settle(False)
    S, R = pair.S(False), pair.R(False)
    if cfg[0] == cfg[2] and S.out_window_size + R.in_window_sofar != cfg[2]:
        pair.problems.append(("credit-lost", "after the schedule and settling, sender window %d + in_window_sofar %d "
                              "!= advertised window %d" % (S.out_window_size, R.in_window_sofar, cfg[2])))
    if S.out_window_size < 0:
        pair.problems.append(("window-exceeded", "sender window is negative: %d" % S.out_window_size))
    return pair, preempted


def schedules(ctx, setups=None):
    """all ordered pairs of the pool ops of each setup, switch point after the 1st / 2nd / 3rd lock release"""
    for si, (cfg, prefix, pool) in enumerate(SCHED_SETUPS):
        if setups is not None and si not in setups:
            continue
        for ia in range(len(pool)):
            for ib in range(len(pool)):
                for k in ("read", 1, 2, 3):
                    pair, preempted = do_schedule(si, ia, ib, k)
                    case = {"sched": True, "setup": si, "cfg": list(cfg), "prefix": [list(o) for o in prefix],
                            "thread1": list(pool[ia]), "thread2": list(pool[ib]),
                            "switch_after_lock_release": k}
                    ctx.count(("sched", si, ia, ib, k), nontrivial=preempted, kind="two-thread-schedule")
                    for key, what in sorted(pair.problems, key=lambda kw: kw[0] == "unlocked-flow-field-access")[:3]:
                        at = ("right after its first read of a flow-control field outside the channel lock"
                              if k == "read" else "after its release #%d of the channel lock" % k)
                        ctx.fail(key, what + " [thread 1 runs %r, is preempted %s, thread 2 runs %r, thread 1 resumes]"
                                 % (pool[ia], at, pool[ib]), case=case, observed=what)
                    if k != "read" and k > 1 and not preempted:
                        break       # the op has fewer than k lock releases: larger k is the same sequential run


def blocked_senders(ctx, nthreads, adjust, watchdog=6.0):
    """>= 2 threads blocked in _wait_for_send_window on an exhausted window (stdout and stderr writers), then ONE
    window adjustment large enough for all of them: every one must wake up and send.  Deterministic: the adjust is
    delivered only once all threads are registered as waiters of out_buffer_cv."""
    from paramiko.channel import Channel
    from paramiko.message import Message
    _quiet()
    st = Stub()
    ch = Channel(1)
    ch._set_transport(st)
    ch._set_window(32768, 32768)
    ch._set_remote_channel(2, 0, 32768)          # the peer granted no window yet
    ch.settimeout(watchdog + 20.0)
    results = {}

    def sender(i):
        try:
            results[i] = (ch.send_stderr if i % 2 else ch.send)(bytes(10 + i))
        except Exception as e:  # noqa
            results[i] = repr(e)
    ths = [threading.Thread(target=sender, args=(i,), daemon=True) for i in range(nthreads)]
    for t in ths:
        t.start()
    deadline = time.time() + 10.0
    waiters = getattr(ch.out_buffer_cv, "_waiters", None)
    while time.time() < deadline:
        if waiters is not None and len(waiters) >= nthreads:
            break
        time.sleep(0.005)
    if waiters is None:
        time.sleep(0.5)
    blocked = len(waiters) if waiters is not None else nthreads
    m = Message()
    m.add_int(adjust)
    m.rewind()
    ch._window_adjust(m)
    t_end = time.time() + watchdog
    for t in ths:
        t.join(max(0.0, t_end - time.time()))
    alive = [i for i, t in enumerate(ths) if t.is_alive()]
    sent = sum(parse(raw)[3] for raw in st.sent)
    case = {"blocked": True, "threads": nthreads, "adjust": adjust}
    probs = []
    if blocked < nthreads:
        probs.append(("harness-blocked-setup", "only %d of %d senders blocked before the adjust" % (blocked, nthreads)))
    elif alive:
        probs.append(("blocked-sender-not-woken",
                      "%d sender threads were blocked on an exhausted window; one WINDOW_ADJUST of %d bytes (enough for "
                      "all, they need %d) was delivered; threads %s are still blocked %.0f s later (bytes sent: %d)" % (
                          nthreads, adjust, sum(10 + i for i in range(nthreads)), alive, watchdog, sent)))
    # let stragglers go so that no thread outlives the check
    for _ in range(nthreads):
        with ch.lock:
            ch.out_buffer_cv.notify_all()
    return probs, case


# ---------------------------------------------------------------------------------------------
# the real entry points: Transport.open_session(window_size=, max_packet_size=) over an in-memory loopback

def loopback_pair():
    import os
    import paramiko
    from _loop import LoopSocket
    lg = logging.getLogger("paramiko")
    if not lg.handlers:
        lg.addHandler(logging.NullHandler())
    lg.propagate = False

    class Srv(paramiko.ServerInterface):
        def check_auth_password(self, u, p):
            return paramiko.AUTH_SUCCESSFUL

        def check_channel_request(self, k, c):
            return paramiko.OPEN_SUCCEEDED

        def get_allowed_auths(self, u):
            return "password"
    a, b = LoopSocket(), LoopSocket()
    a.link(b)
    tc, ts = paramiko.Transport(a), paramiko.Transport(b)
    key = None
    for rel in ("tests/_support/rsa.key", "tests/test_rsa.key"):
        f = os.path.join(common_repo(), rel)
        if os.path.exists(f):
            key = paramiko.RSAKey.from_private_key_file(f)
            break
    ts.add_server_key(key)
    ts.start_server(threading.Event(), Srv())
    tc.connect(username="u", password="p")
    return tc, ts


def common_repo():
    import common
    return common.REPO


READERS = ("recv", "recv-small", "select-small", "select-stderr-mix")
HALF = (None, "before", "mid")


def loopback_open(tc, ts, W, P, watchdog=12.0):
    """open_session with explicit sizes; returns (client channel, server channel, problems)"""
    from paramiko.common import MIN_WINDOW_SIZE, MIN_PACKET_SIZE, MAX_WINDOW_SIZE
    probs = []
    ch = tc.open_session(window_size=W, max_packet_size=P, timeout=watchdog)
    sch = ts.accept(watchdog)
    if sch is None:
        return ch, None, [("loopback-open", "server never saw the channel")]
    want_w = max(MIN_WINDOW_SIZE, min(tc.default_window_size if W is None else W, MAX_WINDOW_SIZE))
    want_p = max(MIN_PACKET_SIZE, min(tc.default_max_packet_size if P is None else P, MAX_WINDOW_SIZE))
    # what the client channel accounts with is what it advertised, and the peer stored exactly that
    obs = {"client.in_window_size": ch.in_window_size, "client.in_window_threshold": ch.in_window_threshold,
           "server.out_window_size": sch.out_window_size, "server.out_max_packet_size": sch.out_max_packet_size,
           "server.in_window_size": sch.in_window_size, "server.in_window_threshold": sch.in_window_threshold,
           "client.out_window_size": ch.out_window_size}
    if ch.in_window_size != want_w or sch.out_window_size != want_w or sch.out_max_packet_size != want_p:
        probs.append(("open-window-mismatch", "open_session(window_size=%r, max_packet_size=%r): expected window %d / "
                      "packet %d on both ends, observed %r" % (W, P, want_w, want_p, obs)))
    for name, c in (("client", ch), ("server", sch)):
        # hypothesis of C20_progress: the ack threshold is below the window the peer was granted
        if not (0 <= c.in_window_threshold < c.in_window_size) or c.in_window_threshold != c.in_window_size // 10:
            probs.append(("threshold-not-below-window", "%s channel: in_window_threshold %d, in_window_size %d "
                          "(open_session(window_size=%r))" % (name, c.in_window_threshold, c.in_window_size, W)))
    if ch.out_window_size != sch.in_window_size:
        probs.append(("open-window-mismatch", "client sends against window %d, server accounts %d" % (
            ch.out_window_size, sch.in_window_size)))
    return ch, sch, probs


def loopback_transfer(ch, sch, W, P, n, to_client, reader="recv", half=None, watchdog=12.0):
    """Move n bytes over an open channel pair through the real Transport threads (server->client when to_client)
    while the receiving application keeps reading in the given style:
      recv              recv(65536) in a loop
      recv-small        recv(512) in a loop
      select-small      the documented fileno()/select() interface: select on the channel, then ONE recv(700)
      select-stderr-mix same, the sender alternating stdout / stderr chunks, the reader draining whichever is ready
    half: the RECEIVER half-closes its own sending direction (shutdown_write, the usual `stdin.close()` of an exec
    client) before the transfer / in the middle of it; its EOF really travels to the peer's Transport thread."""
    import select
    probs = []
    snd, rcv = (sch, ch) if to_client else (ch, sch)
    snd.settimeout(watchdog)
    rcv.settimeout(0.2)
    err = []
    mix = reader == "select-stderr-mix"
    if half == "before":
        rcv.shutdown_write()
        t_end = time.time() + 3.0
        while not snd.eof_received and time.time() < t_end:
            time.sleep(0.005)
        if not snd.eof_received:
            probs.append(("eof-not-delivered", "peer never saw the EOF of shutdown_write()"))

    def sender():
        try:
            if mix:
                left, flip = n, False
                while left > 0:
                    k = min(left, 3000)
                    (snd.sendall_stderr if flip else snd.sendall)(bytes(k))
                    left -= k
                    flip = not flip
            else:
                snd.sendall(bytes(n))
        except Exception as e:  # noqa
            err.append(repr(e))
    th = threading.Thread(target=sender, daemon=True)
    th.start()
    got = 0
    shut_done = half != "mid"
    blind = 0
    deadline = time.time() + watchdog
    while got < n and time.time() < deadline:
        if not shut_done and got >= n // 3:
            rcv.shutdown_write()
            shut_done = True
        try:
            if reader == "recv":
                got += len(rcv.recv(65536))
            elif reader == "recv-small":
                got += len(rcv.recv(512))
            else:
                r, _, _ = select.select([rcv], [], [], 0.1)
                if r:
                    blind = 0
                    if rcv.recv_ready():
                        got += len(rcv.recv(700))
                    if mix and rcv.recv_stderr_ready():
                        got += len(rcv.recv_stderr(700))
                elif rcv.recv_ready() or rcv.recv_stderr_ready():
                    # data is buffered but the channel's file descriptor does not say so
                    blind += 1
                    if blind >= 3:
                        probs.append(("fileno-not-readable-with-buffered-data",
                                      "select() on Channel.fileno() reports not readable three times in a row while "
                                      "recv_ready() is true (%d stdout + %d stderr bytes buffered after %d of %d bytes "
                                      "were read in pieces of 700): a select-driven reader stops consuming, no window "
                                      "is granted (sender window %d) and the transfer deadlocks" % (
                                          len(rcv.in_buffer), len(rcv.in_stderr_buffer), got, n, snd.out_window_size)))
                        break
        except socket.timeout:
            pass
    if not probs or probs[-1][0] != "fileno-not-readable-with-buffered-data":
        th.join(max(0.1, deadline - time.time()) + 1.0)
        if got != n or err or th.is_alive():
            probs.append(("transfer-stalled", "open_session(window_size=%r, max_packet_size=%r), reader %s, receiver "
                          "half-close %s: %s received %d of %d bytes while reading continuously for %.0f s (sender window "
                          "%d, receiver in_window_sofar %d, threshold %d, window %d, sender saw EOF: %s; sender error %s)"
                          % (W, P, reader, half, "client" if to_client else "server", got, n, watchdog,
                             snd.out_window_size, rcv.in_window_sofar, rcv.in_window_threshold, rcv.in_window_size,
                             bool(snd.eof_received), err[:1])))
    return probs


def loopback_case(tc, ts, W, P, n, to_client, reader="recv", half=None, watchdog=12.0, keep=False):
    ch, sch, probs = loopback_open(tc, ts, W, P, watchdog)
    if sch is None:
        return probs, None
    try:
        probs += loopback_transfer(ch, sch, W, P, n, to_client, reader, half, watchdog)
    finally:
        if not keep or probs:
            for c in (ch, sch):
                try:
                    c.close()
                except Exception:  # noqa
                    pass
    return probs, (ch, sch) if keep and not probs else None


def loopback_runs(ctx, ncases):
    """Real Transport pair, several channels with different explicit windows.  The first channel stays open and is
    used again after all the others (two live objects of the class, the first re-used after the second)."""
    rng = ctx.rng
    try:
        tc, ts = loopback_pair()
    except Exception as e:  # noqa
        ctx.notes.append("loopback transport pair could not be set up: %r" % (e,))
        return
    try:
        grid = [(32768, 4096), (40000, None), (None, None), (100, 100), (65536, 32768), (200000, 8192)]
        # reader style x receiver half-close: the fixed four always run, the rest rotate with the seed
        combos = [("select-small", None), ("recv", "before"), ("select-small", "before"), ("recv-small", "mid")]
        rest = [(r, h) for r in READERS for h in HALF if (r, h) not in combos]
        rng.shuffle(rest)
        combos += rest
        first = None
        failed = False
        for j in range(ncases):
            W, P = grid[(j + ctx.seed) % len(grid)] if j < len(grid) else (
                rng.randrange(32768, 400000), rng.choice([None, 4096, 20000, 32768]))
            reader, half = combos[j % len(combos)]
            eff = max(32768, W or 2097152)
            n = min(3 * eff + rng.randrange(0, 5000), 700000 if reader == "recv" else 150000)
            to_client = j % 4 != 3
            case = {"loopback": True, "W": W, "P": P, "n": n, "to_client": to_client, "reader": reader, "half": half}
            probs, kept = loopback_case(tc, ts, W, P, n, to_client, reader, half, keep=(j == 0))
            if kept:
                first = (kept, W, P, to_client)
            ctx.count(("loopback", W, P, n, to_client, reader, half), kind="loopback-%s-half:%s" % (reader, half))
            for key, what in probs[:2]:
                ctx.fail(key, what, case=case, observed=what)
            if probs:
                failed = True
                break       # a stalled channel may have wedged the pair
        if first is not None and not failed:
            (ch, sch), W, P, to_client = first
            n = 3 * max(32768, W or 2097152) + 17
            n = min(n, 150000)
            case = {"loopback": True, "W": W, "P": P, "n": n, "to_client": to_client, "reader": "recv-small",
                    "half": None, "reuse_first_channel_after": ncases - 1}
            probs = loopback_transfer(ch, sch, W, P, n, to_client, "recv-small", None)
            ctx.count(("loopback-reuse", W, P, n), kind="loopback-reuse-first-channel")
            for key, what in probs[:2]:
                ctx.fail(key, what, case=case, observed=what)
    finally:
        for t in (tc, ts):
            try:
                t.close()
            except Exception:  # noqa
                pass


def blocked_runs(ctx):
    for nthreads, adjust in ((2, 1000), (3, 5000), (4, 100000)):
        probs, case = blocked_senders(ctx, nthreads, adjust)
        if probs and probs[0][0] == "harness-blocked-setup":
            probs, case = blocked_senders(ctx, nthreads, adjust)
        ctx.count(("blocked", nthreads, adjust), kind="blocked-senders")
        for key, what in probs[:1]:
            if key == "harness-blocked-setup":
                ctx.notes.append(what)
            else:
                ctx.fail(key, what, case=case, observed=what)


def replay_case(ctx, case):
    """re-run a recorded history on the real objects and report what the oracles see"""
    cfg_ab, cfg_ba = tuple(case["cfg_ab"]), tuple(case["cfg_ba"])
    pair = Pair(cfg_ab, cfg_ba)
    for d, o in case["ops"]:
        op = tuple(o)
        pair.step(bool(d), op)
    return pair


def sanitize_cases(ctx, n):
    from paramiko.common import DEFAULT_WINDOW_SIZE, DEFAULT_MAX_PACKET_SIZE
    rng = ctx.rng
    vals = [None, 0, 1, 4095, 4096, 4097, 32767, 32768, 32769, U32 - 1, U32, U32 + 1, 2 ** 40, -1, -5]
    cases = []
    for _ in range(n):
        dw = rng.choice([DEFAULT_WINDOW_SIZE, 0, 100, U32 + 5, rng.randrange(0, 2 ** 33)])
        dp = rng.choice([DEFAULT_MAX_PACKET_SIZE, 0, 100, U32 + 5, rng.randrange(0, 2 ** 33)])
        w = rng.choice(vals + [rng.randrange(0, 2 ** 33)])
        p = rng.choice(vals + [rng.randrange(0, 2 ** 33)])
        st = Stub(dw, dp)
        got = [st._sanitize_window_size(w), st._sanitize_packet_size(p)]
        ctx.count(("san", dw, dp, w, p), kind="sanitize")
        if not (32768 <= got[0] <= U32 and 4096 <= got[1] <= U32):
            ctx.fail("sanitize-range", "sanitized size out of range", case={"dw": dw, "dp": dp, "w": w, "p": p},
                     observed=got)

        def o(v):
            return "None" if v is None else "(Some %s)" % coq(v)
        cases.append(("(%s, %s, %s, %s)" % (coq(dw), coq(dp), o(w), o(p)), got, (dw, dp, w, p)))
    bad = safe_mismatches(ctx, "run_sanitize", "(Z * Z * option Z * option Z)", [(c, e) for c, e, _ in cases])
    for i in bad[:3]:
        ctx.disagree("_sanitize_* differs from the generated definition", case=list(cases[i][2]), impl=cases[i][1])


# ---------------------------------------------------------------------------------------------
# real threads, blocking mode: several senders, one reader, synchronous delivery

class LiveLink:
    """Stub transport pair delivering synchronously; keeps the wire accounting under one lock."""

    def __init__(self, W, P):
        from paramiko.channel import Channel
        _quiet()
        self.lock = threading.RLock()
        self.W, self.P = W, P
        self.emitted = 0
        self.adj = 0
        self.consumed = 0
        self.maxmsg = 0
        self.problems = []
        outer = self

        class T(Stub):
            def __init__(self, who):
                Stub.__init__(self)
                self.who = who

            def _send_user_message(self, m):
                from paramiko.message import Message
                t, chanid, code, n, body = parse(m.asbytes())
                with outer.lock:
                    if self.who == 0:       # sender side: data
                        outer.emitted += n
                        outer.maxmsg = max(outer.maxmsg, n)
                        if outer.emitted > outer.W + outer.adj:
                            outer.problems.append(("window-exceeded", "sent %d > window %d + adjusts %d" % (
                                outer.emitted, outer.W, outer.adj)))
                        if n > max(4096, min(outer.P, U32)) - 64 or n < 1:
                            outer.problems.append(("packet-headroom", "message of %d bytes" % n))
                        if t == 94:
                            outer.b._feed(Message(body))
                        else:
                            outer.b._feed_extended(Message(body))
                    else:                   # receiver side: adjusts
                        if t != 93:
                            outer.problems.append(("unexpected-message", "type %d" % t))
                            return
                        outer.adj += n
                        if outer.adj > outer.consumed:
                            outer.problems.append(("grant-exceeds-consumed", "adjusts %d > consumed %d" % (
                                outer.adj, outer.consumed)))
                        outer.a._window_adjust(Message(body))

        self.a, self.b = Channel(1), Channel(2)
        self.a._set_transport(T(0))
        self.b._set_transport(T(1))
        self.b._set_window(W, 32768)
        self.a._set_window(W, 32768)
        self.a._set_remote_channel(2, W, P)
        self.b._set_remote_channel(1, W, P)


def live_transfer(ctx, W, P, sizes, timeout=12.0):
    """sizes: list of (stderr?, nbytes) one per sender thread.  Returns problems list."""
    link = LiveLink(W, P)
    total = sum(n for _, n in sizes)
    link.a.settimeout(timeout)
    link.b.settimeout(0.05)
    errors = []

    def sender(err, n):
        try:
            (link.a.sendall_stderr if err else link.a.sendall)(bytes(n))
        except Exception as e:  # noqa
            errors.append(repr(e))

    def reader():
        got = 0
        deadline = time.time() + timeout
        flip = False
        while got < total and time.time() < deadline:
            flip = not flip
            try:
                out = link.read(flip)
                got += out
            except socket.timeout:
                pass
        return got

    def read(flip):
        ch = link.b
        buf = ch.in_stderr_buffer if flip else ch.in_buffer
        if len(buf) == 0:
            time.sleep(0.001)
            raise socket.timeout()
        # count consumption before the adjust goes out: recv sends the adjust itself
        with link.lock:
            n = min(len(buf), 5000)
            link.consumed += n
            out = (ch.recv_stderr if flip else ch.recv)(5000)
            link.consumed += len(out) - n
        return len(out)
    link.read = read
    ths = [threading.Thread(target=sender, args=s, daemon=True) for s in sizes]
    box = {}
    rt = threading.Thread(target=lambda: box.setdefault("got", reader()), daemon=True)
    rt.start()
    for t in ths:
        t.start()
    for t in ths:
        t.join(timeout + 5)
    rt.join(timeout + 5)
    stuck = any(t.is_alive() for t in ths) or rt.is_alive()
    probs = list(link.problems)
    if stuck or errors or box.get("got") != total or link.emitted != total:
        probs.append(("transfer-stalled", "threads alive=%s errors=%s received=%s emitted=%d of %d" % (
            stuck, errors[:2], box.get("got"), link.emitted, total)))
    return probs, link


def live_runs(ctx, n):
    rng = ctx.rng
    for _ in range(n):
        W = rng.choice([32768, 40000, 65536, rng.randrange(32768, 100000)])
        P = rng.choice([1000, 4096, 4200, 32768, rng.randrange(4096, 40000)])
        sizes = [(rng.random() < 0.4, rng.randrange(1, 120000)) for _ in range(rng.randrange(2, 5))]
        probs, link = live_transfer(ctx, W, P, sizes)
        if probs and probs[0][0] == "transfer-stalled":
            probs2, link = live_transfer(ctx, W, P, sizes)      # timing-dependent: retry once
            probs = probs2
        case = {"live": True, "W": W, "P": P, "sizes": [list(s) for s in sizes]}
        ctx.count(("live", W, P, tuple(sizes)), kind="live-threads")
        for key, what in probs[:2]:
            ctx.fail(key, what + " (multi-threaded blocking transfer)", case=case, observed=what)


def check_constants(ctx):
    """message numbers the model's digest and this harness's parser hard-code, against the live module"""
    from paramiko import common as pc
    want = {"MSG_CHANNEL_WINDOW_ADJUST": 93, "MSG_CHANNEL_DATA": 94, "MSG_CHANNEL_EXTENDED_DATA": 95,
            "MSG_CHANNEL_EOF": 96}
    for k, v in want.items():
        ctx.count(("const", k), kind="constants")
        if getattr(pc, k, None) != v:
            ctx.disagree("message number %s differs from the one the model / harness use" % k, model=v,
                         impl=getattr(pc, k, None))


def run(ctx):
    ctx.rule = ("seeded generator (random.Random('C19-<seed>')): windows through the real _sanitize_window_size "
                "(boundaries 32768, 2^32-1, None, out-of-range) mostly 32768..70000 so that exhaustion is reached, "
                "peer packet sizes incl. < 4096 and boundaries, sender windows either the peer's advertised window or "
                "arbitrary u32; histories of 5..45 ops over both directions (send / send_stderr with boundary sizes "
                "around window and max_packet-64, out-of-order hand-over, delivery, recv / recv_stderr with sizes "
                "around the credit threshold, adjust timing, discarded extended types 0 and 3); a model-independent "
                "directed sweep of request/window/max-packet boundary relations, of discards around the credit "
                "threshold, and of set_combine_stderr / receiver half-close (shutdown_write) sequences; deterministic "
                "two-thread schedules (every ordered pair of concurrent ops, thread 1 preempted after its k-th release "
                "of the channel lock); real Transport.open_session(window_size=, max_packet_size=) loopback cases; "
                "histories "
                "also contain set_combine_stderr(b) and shutdown_write ops; >= 2 senders blocked on an exhausted window woken by one adjust; a history is non-trivial "
                "when distinct and at least one data byte reached the wire")
    ctx.trusted += ["model coq/Model/C19.v step structure is hand-written; arithmetic is generated (gen/c19.py)",
                    "stub transport in harness/c19.py stands for Transport (only _send_user_message, "
                    "_sanitize_packet_size (the real function), get_log_channel are used by the anchored code)"]
    ctx.assumptions += ["channel open and active on both ends (closed / EOF transitions are C22's)",
                        "application passes non-negative sizes to recv/recv_stderr"]
    ctx.prove()
    check_constants(ctx)
    scale = 6 if ctx.thorough else 1
    sanitize_cases(ctx, 100 * scale)
    directed_oracle(ctx)
    schedules(ctx)
    histories(ctx, 130 * scale, codes=[None, None, None, 1, 1, 0, 3], label="history")
    blocked_runs(ctx)
    loopback_runs(ctx, 4 * (3 if ctx.thorough else 1))
    live_runs(ctx, 3 * (3 if ctx.thorough else 1))


def replay(ctx, rep):
    case = rep["case"]
    if case.get("sched"):
        _, _, pool = SCHED_SETUPS[case["setup"]]
        pair, _ = do_schedule(case["setup"], pool.index(tuple(case["thread1"])), pool.index(tuple(case["thread2"])),
                              case["switch_after_lock_release"])
        ctx.count(("replay-sched",))
        ctx.count(("replay-sched2",))
        report_problems(ctx, pair, case)
        return
    if case.get("loopback"):
        tc, ts = loopback_pair()
        try:
            if case.get("reuse_first_channel_after"):
                # the first channel stays open while other channels come and go, then is used again
                ch, sch, probs = loopback_open(tc, ts, case["W"], case["P"])
                probs += loopback_transfer(ch, sch, case["W"], case["P"], case["n"], case["to_client"])
                for _ in range(case["reuse_first_channel_after"]):
                    p2, _k = loopback_case(tc, ts, 32768, 4096, 40000, True)
                    probs += p2
                probs += loopback_transfer(ch, sch, case["W"], case["P"], case["n"], case["to_client"], "recv-small")
            else:
                probs, _k = loopback_case(tc, ts, case["W"], case["P"], case["n"], case["to_client"],
                                          case.get("reader", "recv"), case.get("half"))
        finally:
            tc.close()
            ts.close()
        ctx.count(("replay-loopback",))
        ctx.count(("replay-loopback2",))
        for key, what in probs[:2]:
            ctx.fail(key, what, case=case, observed=what)
        return
    if case.get("blocked"):
        probs, _ = blocked_senders(ctx, case["threads"], case["adjust"])
        ctx.count(("replay-blocked",))
        ctx.count(("replay-blocked2",))
        for key, what in probs[:1]:
            ctx.fail(key, what, case=case, observed=what)
        return
    if case.get("live"):
        probs, _ = live_transfer(ctx, case["W"], case["P"], [tuple(s) for s in case["sizes"]])
        ctx.count(("replay-live",))
        ctx.count(("replay-live2",))
        for key, what in probs[:2]:
            ctx.fail(key, what, case=case, observed=what)
        return
    if "cfg_ab" in case:
        pair = replay_case(ctx, case)
        ctx.count(("replay", repr(case)))
        ctx.count(("replay2", repr(case)))
        report_problems(ctx, pair, case)
        return
    run(ctx)
