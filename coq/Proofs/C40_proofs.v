(* C40 — lemmas over Model/C40.v *)
From Coq Require Import ZArith List Bool Lia.
From PV Require Import Bytes Glob C40_gen C40.
Import ListNotations.
Open Scope Z_scope.

(* ---- strings ------------------------------------------------------------------------------ *)
Lemma seqb_refl a : zlist_eqb a a = true.
Proof. now apply zlist_eqb_eq. Qed.

Lemma seqb_neq a b : a <> b -> zlist_eqb a b = false.
Proof. intros H. destruct (zlist_eqb a b) eqn:E; [apply zlist_eqb_eq in E; contradiction|reflexivity]. Qed.

Lemma seqb_false a b : zlist_eqb a b = false -> a <> b.
Proof. intros H ->. rewrite seqb_refl in H. discriminate. Qed.

Lemma mem_str_iff x l : mem_str x l = true <-> In x l.
Proof.
  induction l as [|y l IH]; cbn; [split; [discriminate|tauto]|].
  rewrite orb_true_iff, zlist_eqb_eq, IH. tauto.
Qed.

Lemma mem_str_false x l : mem_str x l = false -> ~ In x l.
Proof. intros H Hin. apply mem_str_iff in Hin. congruence. Qed.

(* ---- dictionaries ------------------------------------------------------------------------- *)
Lemma dget_dset_same d k v : dget (dset d k v) k = Some v.
Proof.
  induction d as [|[k' v'] d IH]; cbn.
  - now rewrite seqb_refl.
  - destruct (zlist_eqb k' k) eqn:E; cbn; rewrite E; [reflexivity|apply IH].
Qed.

Lemma dget_dset_other d k v k2 : k2 <> k -> dget (dset d k v) k2 = dget d k2.
Proof.
  intros H. induction d as [|[k' v'] d IH]; cbn.
  - rewrite seqb_neq by congruence. reflexivity.
  - destruct (zlist_eqb k' k) eqn:E; cbn.
    + apply zlist_eqb_eq in E. subst k'. rewrite seqb_neq by congruence. reflexivity.
    + destruct (zlist_eqb k' k2); [reflexivity|apply IH].
Qed.

Lemma dget_app a b k :
  dget (a ++ b) k = match dget a k with Some v => Some v | None => dget b k end.
Proof.
  induction a as [|[k' v'] a IH]; cbn; [reflexivity|].
  destruct (zlist_eqb k' k); [reflexivity|apply IH].
Qed.

Lemma dmem_true d k : dmem d k = true -> exists v, dget d k = Some v.
Proof. unfold dmem. destruct (dget d k); [eauto|discriminate]. Qed.

Lemma dmem_false d k : dmem d k = false -> dget d k = None.
Proof. unfold dmem. destruct (dget d k); [discriminate|reflexivity]. Qed.

Lemma in_keys_dset x d k v : In x (map fst (dset d k v)) -> In x (map fst d) \/ x = k.
Proof.
  induction d as [|[k' v'] d IH]; cbn.
  - intros [H|[]]. auto.
  - destruct (zlist_eqb k' k) eqn:E; cbn; intros [H|H]; auto.
    destruct (IH H); auto.
Qed.

Lemma nodup_keys_dset d k v : NoDup (map fst d) -> NoDup (map fst (dset d k v)).
Proof.
  induction d as [|[k' v'] d IH]; cbn; intros H.
  - constructor; [tauto|constructor].
  - inversion H as [|? ? Hn Hd]; subst.
    destruct (zlist_eqb k' k) eqn:E; cbn.
    + constructor; assumption.
    + constructor; [|apply IH, Hd].
      intros Hin. apply in_keys_dset in Hin as [Hin| ->]; [contradiction|].
      rewrite seqb_refl in E. discriminate.
Qed.

Lemma dget_notin d k : ~ In k (map fst d) -> dget d k = None.
Proof.
  induction d as [|[k' v'] d IH]; cbn; intros H; [reflexivity|].
  rewrite seqb_neq by tauto. apply IH. tauto.
Qed.

(* ---- Host patterns ------------------------------------------------------------------------- *)
Lemma negated_iff p q : negated p = Some q <-> p = 33 :: q.
Proof.
  destruct p as [|c p]; cbn; [split; discriminate|].
  destruct (c =? 33) eqn:E.
  - apply Z.eqb_eq in E. subst. split; intros H; injection H as ->; reflexivity.
  - apply Z.eqb_neq in E. split; [discriminate|]. intros H. injection H as -> _. contradiction.
Qed.

Lemma neg_hit_iff p t : neg_hit p t = true <-> exists q, p = 33 :: q /\ glob q t = true.
Proof.
  unfold neg_hit. destruct (negated p) as [q|] eqn:E.
  - apply negated_iff in E. subst. split; [eauto|]. intros (q' & H & G). injection H as ->. exact G.
  - split; [discriminate|]. intros (q & -> & _). cbn in E. discriminate.
Qed.

Lemma pm_from_spec ps : forall m t,
  pm_from m ps t = true <->
  (m = true \/ exists p, In p ps /\ glob p t = true) /\
  (forall q, In (33 :: q) ps -> glob q t = false).
Proof.
  induction ps as [|p ps IH]; intros m t; cbn [pm_from].
  - split.
    + intros ->. split; [auto|]. intros q [].
    + intros [[H|(p & [] & _)] _]. exact H.
  - destruct (neg_hit p t) eqn:N.
    + split; [discriminate|]. intros [_ H]. apply neg_hit_iff in N as (q & -> & G).
      rewrite (H q (or_introl eq_refl)) in G. discriminate.
    + assert (Hn : forall q, p = 33 :: q -> glob q t = false).
      { intros q ->. destruct (glob q t) eqn:G; [|reflexivity].
        assert (neg_hit (33 :: q) t = true) by (apply neg_hit_iff; eauto). congruence. }
      destruct (glob p t) eqn:G; rewrite IH; split.
      * intros [_ H]. split; [right; exists p; cbn; auto|].
        intros q [E|Hin]; [apply Hn; auto|apply H, Hin].
      * intros [_ H]. split; [auto|]. intros q Hin. apply H. right. exact Hin.
      * intros [[H0|(p' & Hin & G')] H]; (split; [|intros q [E|Hq]; [apply Hn; auto|apply H, Hq]]).
        -- auto.
        -- right. exists p'. cbn. auto.
      * intros [[H0|(p' & [E|Hin] & G')] H]; (split; [|intros q Hq; apply H; right; exact Hq]).
        -- auto.
        -- subst p'. congruence.
        -- right. eauto.
Qed.

(* a Host pattern list applies iff some pattern matches and no negated pattern matches *)
Lemma pattern_matches_spec ps t :
  pattern_matches ps t = true <->
  (exists p, In p ps /\ glob p t = true) /\ (forall q, In (33 :: q) ps -> glob q t = false).
Proof.
  unfold pattern_matches. rewrite pm_from_spec. split.
  - intros [[H|H] N]; [discriminate|auto].
  - intros [H N]. auto.
Qed.

(* when the name looked up does not itself start with `!`, the matching pattern is a positive one *)
Lemma pattern_matches_positive ps t :
  hd 0 t <> 33 ->
  (pattern_matches ps t = true <->
   (exists p, In p ps /\ negated p = None /\ glob p t = true) /\
   (forall q, In (33 :: q) ps -> glob q t = false)).
Proof.
  intros Ht. rewrite pattern_matches_spec. split; intros [(p & Hin & G) N]; (split; [|exact N]).
  - exists p. split; [exact Hin|]. split; [|exact G].
    destruct (negated p) as [q|] eqn:E; [|reflexivity]. apply negated_iff in E. subst p.
    apply glob_first_char in G as (s' & ->); [|lia|lia]. cbn in Ht. contradiction.
  - destruct G as [_ G]. eauto.
Qed.

(* ---- static criteria do not look at the options or the pass ------------------------------- *)
Lemma dm_from_static cs : forall m e t canonical final opts final' opts',
  forallb static_crit cs = true ->
  dm_from m cs e t canonical final opts = dm_from m cs e t canonical final' opts'.
Proof.
  induction cs as [|c cs IH]; intros m e t canonical final opts final' opts' H; [reflexivity|].
  cbn in H. apply andb_true_iff in H as [Hc Hs]. cbn [dm_from].
  rewrite (IH true e t canonical final opts final' opts' Hs).
  unfold static_crit in Hc. destruct (c_type c); try discriminate; reflexivity.
Qed.

Lemma applies_static_eq e t final opts b :
  static_block b = true -> applies e t false final opts b = applies_static e t b.
Proof.
  unfold applies_static, applies, static_block. destruct (b_hdr b) as [ps|cs]; [reflexivity|].
  intros H. unfold does_match. apply dm_from_static, H.
Qed.

(* ---- one pass: non-accumulating keys ------------------------------------------------------ *)
Definition keep_or (o : option value) (alt : option value) : option value :=
  match o with Some x => Some x | None => alt end.

Lemma merge_get opts kv k :
  k <> s_identityfile ->
  dget (merge_kv opts kv) k =
  keep_or (dget opts k) (if zlist_eqb (fst kv) k then Some (snd kv) else None).
Proof.
  intros Hk. destruct kv as [k' v]. unfold merge_kv. cbn [fst snd].
  destruct (zlist_eqb k' s_identityfile) eqn:Ei.
  - apply zlist_eqb_eq in Ei. subst k'. rewrite dget_dset_other by assumption.
    rewrite seqb_neq by congruence. unfold keep_or. destruct (dget opts k); reflexivity.
  - destruct (dmem opts k') eqn:Em.
    + destruct (zlist_eqb k' k) eqn:Ek.
      * apply zlist_eqb_eq in Ek. subst k'. apply dmem_true in Em as [x Hx]. rewrite Hx. reflexivity.
      * unfold keep_or. destruct (dget opts k); reflexivity.
    + destruct (zlist_eqb k' k) eqn:Ek.
      * apply zlist_eqb_eq in Ek. subst k'. rewrite dget_dset_same. apply dmem_false in Em. rewrite Em. reflexivity.
      * rewrite dget_dset_other by (apply not_eq_sym, seqb_false, Ek).
        unfold keep_or. destruct (dget opts k); reflexivity.
Qed.

Lemma fold_merge_get l : forall opts k,
  k <> s_identityfile ->
  dget (fold_left merge_kv l opts) k = keep_or (dget opts k) (dget l k).
Proof.
  induction l as [|[k' v] l IH]; intros opts k Hk; cbn [fold_left dget].
  - unfold keep_or. destruct (dget opts k); reflexivity.
  - rewrite IH by assumption. rewrite merge_get by assumption. cbn [fst snd].
    unfold keep_or. destruct (dget opts k); [reflexivity|].
    destruct (zlist_eqb k' k); reflexivity.
Qed.

Lemma apply_block_get e t c f opts b k :
  k <> s_identityfile ->
  dget (apply_block e t c f opts b) k =
  keep_or (dget opts k) (if applies e t c f opts b then dget (block_config (b_body b)) k else None).
Proof.
  intros Hk. unfold apply_block. destruct (applies e t c f opts b).
  - apply fold_merge_get, Hk.
  - unfold keep_or. destruct (dget opts k); reflexivity.
Qed.

Lemma pass_get e t c f cfg : forall opts k,
  k <> s_identityfile ->
  dget (pass e t c f cfg opts) k = keep_or (dget opts k) (first_from e t c f cfg opts k).
Proof.
  unfold pass. induction cfg as [|b cfg IH]; intros opts k Hk; cbn [fold_left first_from].
  - unfold keep_or. destruct (dget opts k); reflexivity.
  - rewrite IH by assumption. rewrite apply_block_get by assumption.
    destruct (applies e t c f opts b) eqn:Ea.
    + unfold keep_or. destruct (dget opts k); [reflexivity|].
      destruct (dget (block_config (b_body b)) k); reflexivity.
    + assert (E : apply_block e t c f opts b = opts) by (unfold apply_block; rewrite Ea; reflexivity).
      rewrite E. unfold keep_or. destruct (dget opts k); reflexivity.
Qed.

Lemma first_from_static e t f cfg : forall opts k,
  forallb static_block cfg = true ->
  first_from e t false f cfg opts k = first_obtained e t cfg k.
Proof.
  unfold first_obtained. induction cfg as [|b cfg IH]; intros opts k H; cbn [first_from find]; [reflexivity|].
  cbn in H. apply andb_true_iff in H as [Hb Hs].
  rewrite applies_static_eq by assumption.
  destruct (applies_static e t b); cbn [andb].
  - unfold dmem. destruct (dget (block_config (b_body b)) k) eqn:E; [symmetry; exact E|apply IH, Hs].
  - apply IH, Hs.
Qed.

(* ---- both passes -------------------------------------------------------------------------- *)
Lemma first_pass_get e cfg host k :
  k <> s_identityfile ->
  dget (first_pass e cfg host) k =
  keep_or (first_from e host false false cfg [] k)
          (if zlist_eqb k s_hostname then Some (VStr host) else None).
Proof.
  intros Hk. unfold first_pass.
  pose proof (pass_get e host false false cfg [] k Hk) as P. cbn [dget keep_or] in P.
  destruct (dmem (pass e host false false cfg []) s_hostname) eqn:Em.
  - rewrite P. destruct (zlist_eqb k s_hostname) eqn:Ek.
    + apply zlist_eqb_eq in Ek. subst k. apply dmem_true in Em as [x Hx]. rewrite <- P, Hx. reflexivity.
    + unfold keep_or. destruct (first_from e host false false cfg [] k); reflexivity.
  - destruct (zlist_eqb k s_hostname) eqn:Ek.
    + apply zlist_eqb_eq in Ek. subst k. rewrite dget_dset_same. apply dmem_false in Em.
      rewrite <- P, Em. reflexivity.
    + rewrite dget_dset_other by (apply seqb_false, Ek). rewrite P.
      unfold keep_or. destruct (first_from e host false false cfg [] k); reflexivity.
Qed.

Lemma lookup_raw_two_pass e cfg host raw k :
  lookup_raw e cfg host = Some raw ->
  k <> s_identityfile ->
  dget raw k =
  keep_or (first_from e host false false cfg [] k)
          (if zlist_eqb k s_hostname then Some (VStr host)
           else first_from e host false true cfg (first_pass e cfg host) k).
Proof.
  unfold lookup_raw. destruct (in_fragment cfg); [|discriminate]. intros H Hk. injection H as <-.
  rewrite pass_get by assumption. rewrite first_pass_get by assumption.
  unfold keep_or. destruct (first_from e host false false cfg [] k); [reflexivity|].
  destruct (zlist_eqb k s_hostname); reflexivity.
Qed.

Lemma lookup_raw_first_obtained e cfg host raw k :
  forallb static_block cfg = true ->
  lookup_raw e cfg host = Some raw ->
  k <> s_identityfile ->
  dget raw k =
  keep_or (first_obtained e host cfg k)
          (if zlist_eqb k s_hostname then Some (VStr host) else None).
Proof.
  intros Hs H Hk. rewrite (lookup_raw_two_pass e cfg host raw k H Hk).
  rewrite !first_from_static by assumption.
  unfold keep_or. destruct (first_obtained e host cfg k); [reflexivity|].
  destruct (zlist_eqb k s_hostname); reflexivity.
Qed.

(* ---- IdentityFile accumulation ------------------------------------------------------------- *)
Lemma nodup_snoc (l : list str) x : NoDup l -> ~ In x l -> NoDup (l ++ [x]).
Proof.
  induction l as [|y l IH]; cbn; intros Hd Hn.
  - constructor; [tauto|constructor].
  - inversion Hd as [|? ? H1 H2]; subst. constructor.
    + rewrite in_app_iff. cbn. intros [H|[H|[]]]; [contradiction|]. subst. tauto.
    + apply IH; tauto.
Qed.

Lemma dedup_extend_nodup new : forall cur, NoDup cur -> NoDup (dedup_extend cur new).
Proof.
  induction new as [|x new IH]; intros cur H; cbn; [exact H|].
  destruct (mem_str x cur) eqn:E; [apply IH, H|].
  apply IH, nodup_snoc; [exact H|apply mem_str_false, E].
Qed.

Lemma dedup_extend_in new : forall cur x, In x (dedup_extend cur new) <-> In x cur \/ In x new.
Proof.
  induction new as [|y new IH]; intros cur x; cbn; [tauto|].
  destruct (mem_str y cur) eqn:E; rewrite IH.
  - apply mem_str_iff in E. split; [tauto|]. intros [H|[H|H]]; subst; auto.
  - rewrite in_app_iff. cbn. tauto.
Qed.

Lemma dedup_extend_app a : forall cur b, dedup_extend (dedup_extend cur a) b = dedup_extend cur (a ++ b).
Proof.
  induction a as [|x a IH]; intros cur b; cbn; [reflexivity|].
  destruct (mem_str x cur); apply IH.
Qed.

Lemma dedup_extend_subseq new : forall cur,
  exists sfx, dedup_extend cur new = cur ++ sfx /\ Subseq sfx new.
Proof.
  induction new as [|x new IH]; intros cur; cbn.
  - exists []. rewrite app_nil_r. split; [reflexivity|constructor].
  - destruct (mem_str x cur).
    + destruct (IH cur) as (sfx & E & S). exists sfx. split; [exact E|apply S_skip; exact S].
    + destruct (IH (cur ++ [x])) as (sfx & E & S). exists (x :: sfx). split.
      * rewrite E, <- app_assoc. reflexivity.
      * apply S_keep. exact S.
Qed.

(* IdentityFile entries of an association list *)
Definition idf_of (l : dict) : list str :=
  flat_map (fun kv => if zlist_eqb (fst kv) s_identityfile then as_list (snd kv) else []) l.

Lemma get_list_dset_same d k v : get_list (dset d k v) k = as_list v.
Proof. unfold get_list. now rewrite dget_dset_same. Qed.

Lemma get_list_dset_other d k v k2 : k2 <> k -> get_list (dset d k v) k2 = get_list d k2.
Proof. intros H. unfold get_list. now rewrite dget_dset_other. Qed.

Lemma merge_idf opts kv :
  get_list (merge_kv opts kv) s_identityfile =
  dedup_extend (get_list opts s_identityfile)
               (if zlist_eqb (fst kv) s_identityfile then as_list (snd kv) else []).
Proof.
  destruct kv as [k v]. unfold merge_kv. cbn [fst snd].
  destruct (zlist_eqb k s_identityfile) eqn:E.
  - apply zlist_eqb_eq in E. subst k. now rewrite get_list_dset_same.
  - cbn [dedup_extend]. destruct (dmem opts k); [reflexivity|].
    apply get_list_dset_other. apply not_eq_sym, seqb_false, E.
Qed.

Lemma fold_merge_idf l : forall opts,
  get_list (fold_left merge_kv l opts) s_identityfile =
  dedup_extend (get_list opts s_identityfile) (idf_of l).
Proof.
  induction l as [|kv l IH]; intros opts; cbn [fold_left]; [reflexivity|].
  rewrite IH, merge_idf. unfold idf_of. cbn [flat_map]. apply dedup_extend_app.
Qed.

Lemma idf_of_nodup_keys l :
  NoDup (map fst l) -> idf_of l = get_list l s_identityfile.
Proof.
  induction l as [|[k v] l IH]; intros H; [reflexivity|].
  cbn in H. inversion H as [|? ? Hn Hd]; subst.
  unfold idf_of, get_list. cbn [flat_map fst snd dget].
  destruct (zlist_eqb k s_identityfile) eqn:E.
  - apply zlist_eqb_eq in E. subst k.
    fold (idf_of l). rewrite (IH Hd). unfold get_list. rewrite dget_notin by assumption. apply app_nil_r.
  - cbn [app]. apply IH, Hd.
Qed.

Lemma parse_line_nodup d kv : NoDup (map fst d) -> NoDup (map fst (parse_line d kv)).
Proof.
  intros H. destruct kv as [k v]. unfold parse_line.
  destruct (zlist_eqb k s_proxycommand && zlist_eqb (lower v) s_none); [apply nodup_keys_dset, H|].
  destruct (list_key k).
  - destruct (dget d k) as [[| |l]|]; try assumption; apply nodup_keys_dset, H.
  - destruct (dmem d k); [assumption|apply nodup_keys_dset, H].
Qed.

Lemma block_config_nodup body : NoDup (map fst (block_config body)).
Proof.
  unfold block_config.
  assert (G : forall d, NoDup (map fst d) -> NoDup (map fst (fold_left parse_line body d))).
  { induction body as [|kv body IH]; intros d H; cbn; [exact H|]. apply IH, parse_line_nodup, H. }
  apply G. constructor.
Qed.

Lemma apply_block_idf e t c f opts b :
  get_list (apply_block e t c f opts b) s_identityfile =
  dedup_extend (get_list opts s_identityfile)
               (if applies e t c f opts b then get_list (block_config (b_body b)) s_identityfile else []).
Proof.
  unfold apply_block. destruct (applies e t c f opts b); [|reflexivity].
  rewrite fold_merge_idf. rewrite idf_of_nodup_keys by apply block_config_nodup. reflexivity.
Qed.

Lemma pass_idf e t c f cfg : forall opts,
  get_list (pass e t c f cfg opts) s_identityfile =
  dedup_extend (get_list opts s_identityfile) (collected e t c f cfg opts).
Proof.
  unfold pass. induction cfg as [|b cfg IH]; intros opts; cbn [fold_left collected]; [reflexivity|].
  rewrite IH, apply_block_idf. destruct (applies e t c f opts b) eqn:Ea.
  - apply dedup_extend_app.
  - cbn [dedup_extend].
    assert (E : apply_block e t c f opts b = opts) by (unfold apply_block; rewrite Ea; reflexivity).
    rewrite E. reflexivity.
Qed.

Lemma first_pass_idf e cfg host :
  get_list (first_pass e cfg host) s_identityfile =
  dedup_extend [] (collected e host false false cfg []).
Proof.
  unfold first_pass. destruct (dmem _ s_hostname).
  - apply pass_idf.
  - rewrite get_list_dset_other by discriminate. apply pass_idf.
Qed.

Lemma lookup_raw_idf e cfg host raw :
  lookup_raw e cfg host = Some raw ->
  get_list raw s_identityfile =
  dedup_extend [] (collected e host false false cfg [] ++
                   collected e host false true cfg (first_pass e cfg host)).
Proof.
  unfold lookup_raw. destruct (in_fragment cfg); [|discriminate]. intros H. injection H as <-.
  rewrite pass_idf, first_pass_idf. apply dedup_extend_app.
Qed.

Lemma identityfile_no_dup e cfg host raw :
  lookup_raw e cfg host = Some raw ->
  let all := collected e host false false cfg [] ++
             collected e host false true cfg (first_pass e cfg host) in
  NoDup (get_list raw s_identityfile) /\
  (forall x, In x (get_list raw s_identityfile) <-> In x all) /\
  Subseq (get_list raw s_identityfile) all.
Proof.
  intros H all. rewrite (lookup_raw_idf e cfg host raw H). fold all. split; [|split].
  - apply dedup_extend_nodup. constructor.
  - intros x. rewrite dedup_extend_in. cbn. tauto.
  - destruct (dedup_extend_subseq all []) as (sfx & E & S). rewrite E. exact S.
Qed.

(* ---- _expand_variables --------------------------------------------------------------------- *)
Lemma expand_hostname_get_hostname e t d :
  dget (expand_hostname e t d) s_hostname =
  match dget d s_hostname with Some v => Some (tok_value e d t s_hostname v) | None => None end.
Proof.
  unfold expand_hostname. generalize (tok_value e d t s_hostname) as f. intros f.
  induction d as [|[k v] d IH]; cbn [map dget fst snd]; [reflexivity|].
  destruct (zlist_eqb k s_hostname) eqn:E; cbn [dget]; rewrite E; [reflexivity|apply IH].
Qed.

Lemma expand_hostname_get_other e t d k :
  k <> s_hostname -> dget (expand_hostname e t d) k = dget d k.
Proof.
  intros Hk. unfold expand_hostname. generalize (tok_value e d t s_hostname) as f. intros f.
  induction d as [|[k' v] d IH]; cbn [map dget fst snd]; [reflexivity|].
  destruct (zlist_eqb k' s_hostname) eqn:E; cbn [dget].
  - apply zlist_eqb_eq in E. subst k'. rewrite seqb_neq by congruence. apply IH.
  - destruct (zlist_eqb k' k); [reflexivity|apply IH].
Qed.

(* keys whose value the in-place loop leaves alone: hostname (done beforehand) and keys whose
   tokenisation is the identity *)
Lemma expand_go_get_fixed e t k todo : forall done,
  (k = s_hostname \/ forall ctx v, tok_value e ctx t k v = v) ->
  dget (expand_go e t done todo) k = dget (done ++ todo) k.
Proof.
  induction todo as [|[k' v] todo IH]; intros done H; cbn [expand_go].
  - now rewrite app_nil_r.
  - rewrite IH by assumption. rewrite <- app_assoc. cbn [app].
    rewrite !dget_app. destruct (dget done k); [reflexivity|]. cbn [dget].
    destruct (zlist_eqb k' k) eqn:Ek; [|reflexivity].
    apply zlist_eqb_eq in Ek. subst k'. destruct H as [->|H].
    + rewrite seqb_refl. reflexivity.
    + destruct (zlist_eqb k s_hostname); [reflexivity|]. now rewrite H.
Qed.

Lemma expand_get_hostname e t d :
  dget (expand e t d) s_hostname =
  match dget d s_hostname with Some v => Some (tok_value e d t s_hostname v) | None => None end.
Proof.
  unfold expand. rewrite expand_go_get_fixed by auto. cbn [app]. apply expand_hostname_get_hostname.
Qed.

Lemma expand_get_fixed e t d k :
  k <> s_hostname -> (forall ctx v, tok_value e ctx t k v = v) ->
  dget (expand e t d) k = dget d k.
Proof.
  intros Hk H. unfold expand. rewrite expand_go_get_fixed by auto. cbn [app].
  apply expand_hostname_get_other, Hk.
Qed.

Lemma filter_none {A} (l : list A) : filter (fun _ => false) l = [].
Proof. induction l; cbn; auto. Qed.

Lemma tokenize_no_tokens e cfg t k v : allowed_tokens k = [] -> tokenize e cfg t k v = v.
Proof.
  intros H. unfold tokenize, replacements. rewrite H. cbn [mem_str]. rewrite filter_none. reflexivity.
Qed.

Lemma tok_value_no_tokens e cfg t k v : allowed_tokens k = [] -> tok_value e cfg t k v = v.
Proof.
  intros H. destruct v as [|s|l]; cbn [tok_value]; [reflexivity| |].
  - now rewrite tokenize_no_tokens.
  - f_equal. induction l as [|x l IH]; cbn [map]; [reflexivity|]. now rewrite tokenize_no_tokens, IH.
Qed.

Lemma hostname_has_tokens : allowed_tokens s_hostname <> [].
Proof. vm_compute. discriminate. Qed.

Lemma expand_get_no_tokens e t d k :
  allowed_tokens k = [] -> dget (expand e t d) k = dget d k.
Proof.
  intros H. apply expand_get_fixed.
  - intros ->. apply hostname_has_tokens, H.
  - intros ctx v. apply tok_value_no_tokens, H.
Qed.

(* ---- str.replace ---------------------------------------------------------------------------- *)
Lemma replace2_cons_ne a b r x s : x <> a -> replace2 a b r (x :: s) = x :: replace2 a b r s.
Proof.
  intros H. apply Z.eqb_neq in H. destruct s as [|y s]; cbn; [reflexivity|]. rewrite H. reflexivity.
Qed.

Lemma replace2_hit a b r s : replace2 a b r (a :: b :: s) = r ++ replace2 a b r s.
Proof. cbn. rewrite !Z.eqb_refl. reflexivity. Qed.

Lemma replace2_miss a b r y s : y <> b -> replace2 a b r (a :: y :: s) = a :: replace2 a b r (y :: s).
Proof. intros H. apply Z.eqb_neq in H. cbn [replace2]. rewrite H, andb_false_r. reflexivity. Qed.

Lemma replace2_absent a b r s : ~ In a s -> replace2 a b r s = s.
Proof.
  induction s as [|x s IH]; intros H; [reflexivity|].
  rewrite replace2_cons_ne by (intros ->; apply H; left; reflexivity).
  rewrite IH; [reflexivity|]. intros Hin. apply H. right. exact Hin.
Qed.

Lemma tokenize_hostname e cfg t v : tokenize e cfg t s_hostname v = replace2 37 104 t v.
Proof. reflexivity. Qed.

(* ---- tokens, segment by segment --------------------------------------------------------------- *)
Definition subst_tok (c : Z) (repl : str) (l : list seg) : list seg :=
  flat_map (fun s => match s with Tok d => if d =? c then map Ch repl else [Tok d] | o => [o] end) l.
Definition subst_tilde (repl : str) (l : list seg) : list seg :=
  flat_map (fun s => match s with Tilde => map Ch repl | o => [o] end) l.
Definition subst_rep (l : list seg) (fr : str * str) : list seg :=
  match fst fr with
  | [a] => subst_tilde (snd fr) l
  | [a; b] => subst_tok b (snd fr) l
  | _ => l
  end.
Definition tok_shape (f : str) : bool :=
  match f with
  | [a] => a =? 126
  | [a; b] => (a =? 37) && clean_char b
  | _ => false
  end.

Lemma render_app a b : render (a ++ b) = render a ++ render b.
Proof. unfold render. apply flat_map_app. Qed.

Lemma render_chs r : render (map Ch r) = r.
Proof. induction r as [|x r IH]; cbn; [reflexivity|]. unfold render in IH. now rewrite IH. Qed.

Lemma clean_char_iff c : clean_char c = true <-> c <> 37 /\ c <> 126.
Proof. unfold clean_char. rewrite andb_true_iff, !negb_true_iff, !Z.eqb_neq. tauto. Qed.

Lemma wf_chs r : clean r = true -> forallb seg_wf (map Ch r) = true.
Proof.
  induction r as [|x r IH]; cbn; [reflexivity|]. intros H. apply andb_true_iff in H as [H1 H2].
  now rewrite H1, IH.
Qed.

Lemma replace2_render c repl l :
  forallb seg_wf l = true ->
  replace2 37 c repl (render l) = render (subst_tok c repl l).
Proof.
  induction l as [|s l IH]; intros H; [reflexivity|].
  cbn in H. apply andb_true_iff in H as [Hs Hl]. specialize (IH Hl).
  unfold subst_tok. cbn [flat_map]. fold (subst_tok c repl l). rewrite render_app, <- IH.
  destruct s as [x|d|]; cbn [seg_wf] in Hs; cbn [render flat_map render_seg app].
  - apply clean_char_iff in Hs as [H1 _]. fold (render l). rewrite replace2_cons_ne by assumption. reflexivity.
  - apply clean_char_iff in Hs as [H1 _]. fold (render l). destruct (d =? c) eqn:E.
    + apply Z.eqb_eq in E. subst d. rewrite replace2_hit, render_chs. reflexivity.
    + apply Z.eqb_neq in E. rewrite replace2_miss by assumption.
      rewrite replace2_cons_ne by assumption. reflexivity.
  - fold (render l). rewrite replace2_cons_ne by lia. reflexivity.
Qed.

Lemma replace1_render repl l :
  forallb seg_wf l = true ->
  replace1 126 repl (render l) = render (subst_tilde repl l).
Proof.
  induction l as [|s l IH]; intros H; [reflexivity|].
  cbn in H. apply andb_true_iff in H as [Hs Hl]. specialize (IH Hl).
  unfold subst_tilde. cbn [flat_map]. fold (subst_tilde repl l). rewrite render_app, <- IH.
  destruct s as [x|d|]; cbn [seg_wf] in Hs; cbn [render flat_map render_seg app replace1]; fold (render l).
  - apply clean_char_iff in Hs as [_ H2]. apply Z.eqb_neq in H2. rewrite H2. reflexivity.
  - apply clean_char_iff in Hs as [_ H2]. apply Z.eqb_neq in H2. rewrite H2. reflexivity.
  - rewrite render_chs. reflexivity.
Qed.

Lemma forallb_flat_map {A B} (p : B -> bool) (f : A -> list B) l :
  (forall x, In x l -> forallb p (f x) = true) -> forallb p (flat_map f l) = true.
Proof.
  induction l as [|x l IH]; intros H; cbn; [reflexivity|].
  rewrite forallb_app, H by (left; reflexivity). cbn. apply IH. intros y Hy. apply H. right. exact Hy.
Qed.

Lemma subst_rep_wf l fr :
  clean (snd fr) = true -> forallb seg_wf l = true -> forallb seg_wf (subst_rep l fr) = true.
Proof.
  intros Hc Hl. unfold subst_rep. destruct (fst fr) as [|a [|b [|? ?]]]; try assumption.
  - unfold subst_tilde. apply forallb_flat_map. intros s Hs.
    pose proof (proj1 (forallb_forall _ _) Hl s Hs) as W.
    destruct s; cbn [seg_wf forallb] in W |- *; [now rewrite W|now rewrite W|apply wf_chs, Hc].
  - unfold subst_tok. apply forallb_flat_map. intros s Hs.
    pose proof (proj1 (forallb_forall _ _) Hl s Hs) as W.
    destruct s as [x|d|]; cbn [seg_wf forallb] in W |- *; [now rewrite W| |reflexivity].
    destruct (d =? b); [apply wf_chs, Hc|cbn [seg_wf forallb]; now rewrite W].
Qed.

Lemma apply_rep_render l fr :
  tok_shape (fst fr) = true -> forallb seg_wf l = true ->
  apply_rep (render l) fr = render (subst_rep l fr).
Proof.
  intros Hs Hl. unfold apply_rep, subst_rep. destruct (fst fr) as [|a [|b [|? ?]]]; cbn in Hs; try discriminate.
  - apply Z.eqb_eq in Hs. subst a. apply replace1_render, Hl.
  - apply andb_true_iff in Hs as [Ha _]. apply Z.eqb_eq in Ha. subst a. apply replace2_render, Hl.
Qed.

Lemma fold_apply_render reps : forall l,
  forallb (fun fr => tok_shape (fst fr) && clean (snd fr)) reps = true ->
  forallb seg_wf l = true ->
  fold_left apply_rep reps (render l) = render (fold_left subst_rep reps l).
Proof.
  induction reps as [|fr reps IH]; intros l H Hl; [reflexivity|].
  cbn in H. apply andb_true_iff in H as [H1 H2]. apply andb_true_iff in H1 as [Hs Hc].
  cbn [fold_left]. rewrite apply_rep_render by assumption. apply IH; [exact H2|].
  apply subst_rep_wf; assumption.
Qed.

Lemma subst_rep_app a b fr : subst_rep (a ++ b) fr = subst_rep a fr ++ subst_rep b fr.
Proof.
  unfold subst_rep. destruct (fst fr) as [|x [|y [|? ?]]]; try reflexivity;
    unfold subst_tilde, subst_tok; apply flat_map_app.
Qed.

Lemma fold_subst_app reps : forall a b,
  fold_left subst_rep reps (a ++ b) = fold_left subst_rep reps a ++ fold_left subst_rep reps b.
Proof.
  induction reps as [|fr reps IH]; intros a b; [reflexivity|].
  cbn [fold_left]. rewrite subst_rep_app. apply IH.
Qed.

Lemma subst_rep_chs r fr : subst_rep (map Ch r) fr = map Ch r.
Proof.
  unfold subst_rep. destruct (fst fr) as [|x [|y [|? ?]]]; try reflexivity;
    induction r as [|c r IH]; cbn; try reflexivity; unfold subst_tilde, subst_tok in IH; now rewrite IH.
Qed.

Lemma fold_subst_chs reps r : fold_left subst_rep reps (map Ch r) = map Ch r.
Proof. induction reps as [|fr reps IH]; [reflexivity|]. cbn [fold_left]. now rewrite subst_rep_chs. Qed.

Definition rep_for (reps : list (str * str)) (tok : str) : option str :=
  match find (fun fr => zlist_eqb (fst fr) tok) reps with Some fr => Some (snd fr) | None => None end.

Lemma fold_subst_tok reps d :
  forallb (fun fr => tok_shape (fst fr)) reps = true ->
  fold_left subst_rep reps [Tok d] =
  match rep_for reps [37; d] with Some r => map Ch r | None => [Tok d] end.
Proof.
  unfold rep_for. induction reps as [|[f r] reps IH]; intros H; [reflexivity|].
  cbn in H. apply andb_true_iff in H as [Hs Hr]. cbn [fold_left find fst snd].
  unfold subst_rep at 2. cbn [fst snd]. destruct f as [|a [|b [|? ?]]]; cbn in Hs; try discriminate.
  - cbn [zlist_eqb]. rewrite andb_false_r. cbn. apply IH, Hr.
  - apply andb_true_iff in Hs as [Ha _]. apply Z.eqb_eq in Ha. subst a.
    cbn [subst_tok flat_map zlist_eqb]. rewrite Z.eqb_refl, andb_true_r. cbn [andb].
    rewrite (Z.eqb_sym b d). destruct (d =? b).
    + rewrite app_nil_r. apply fold_subst_chs.
    + cbn [app]. apply IH, Hr.
Qed.

Lemma fold_subst_tilde reps :
  forallb (fun fr => tok_shape (fst fr)) reps = true ->
  fold_left subst_rep reps [Tilde] =
  match rep_for reps [126] with Some r => map Ch r | None => [Tilde] end.
Proof.
  unfold rep_for. induction reps as [|[f r] reps IH]; intros H; [reflexivity|].
  cbn in H. apply andb_true_iff in H as [Hs Hr]. cbn [fold_left find fst snd].
  unfold subst_rep at 2. cbn [fst snd]. destruct f as [|a [|b [|? ?]]]; cbn in Hs; try discriminate.
  - apply Z.eqb_eq in Hs. subst a. cbn [subst_tilde flat_map zlist_eqb]. rewrite Z.eqb_refl. cbn [andb].
    rewrite app_nil_r. apply fold_subst_chs.
  - apply andb_true_iff in Hs as [Ha _]. apply Z.eqb_eq in Ha. subst a.
    cbn [subst_tok flat_map zlist_eqb]. cbn. apply IH, Hr.
Qed.

Lemma rep_for_map (f : str -> str) l tok :
  rep_for (map (fun t => (t, f t)) l) tok = if mem_str tok l then Some (f tok) else None.
Proof.
  unfold rep_for. induction l as [|y l IH]; cbn [map find fst mem_str]; [reflexivity|].
  destruct (zlist_eqb y tok) eqn:E; cbn [orb snd].
  - apply zlist_eqb_eq in E. subst y. reflexivity.
  - apply IH.
Qed.

Lemma mem_str_filter (p : str -> bool) l tok :
  mem_str tok (filter p l) = p tok && mem_str tok l.
Proof.
  induction l as [|y l IH]; cbn [filter mem_str]; [now rewrite andb_false_r|].
  destruct (p y) eqn:Ep; cbn [mem_str]; rewrite IH; destruct (zlist_eqb y tok) eqn:E; cbn [orb].
  - apply zlist_eqb_eq in E. subst y. now rewrite Ep.
  - reflexivity.
  - apply zlist_eqb_eq in E. subst y. rewrite Ep. reflexivity.
  - reflexivity.
Qed.

Lemma order_shapes : forallb tok_shape replacement_order = true.
Proof. vm_compute. reflexivity. Qed.

Lemma allowed_have_replacements :
  forallb (fun kv => forallb (fun t => mem_str t replacement_order) (snd kv)) tokens_by_key = true.
Proof. vm_compute. reflexivity. Qed.

Lemma allowed_in_order key tok :
  mem_str tok (allowed_tokens key) = true -> mem_str tok replacement_order = true.
Proof.
  unfold allowed_tokens. destruct (find _ tokens_by_key) as [kv|] eqn:F; [|discriminate].
  apply find_some in F as [Hin _].
  pose proof (proj1 (forallb_forall _ _) allowed_have_replacements kv Hin) as H.
  intros Hm. apply mem_str_iff in Hm. exact (proj1 (forallb_forall _ _) H tok Hm).
Qed.

Lemma replacements_shapes e cfg t key :
  texts_clean e cfg t key = true ->
  forallb (fun fr => tok_shape (fst fr) && clean (snd fr)) (replacements e cfg t key) = true.
Proof.
  intros Hc. unfold replacements. apply forallb_forall. intros fr Hin.
  apply in_map_iff in Hin as (tok & <- & Hin). apply filter_In in Hin as [Hin _]. cbn [fst snd].
  rewrite (proj1 (forallb_forall _ _) order_shapes tok Hin).
  exact (proj1 (forallb_forall _ _) Hc tok Hin).
Qed.

Lemma rep_for_replacements e cfg t key tok :
  rep_for (replacements e cfg t key) tok =
  if mem_str tok (allowed_tokens key) then Some (token_text e cfg t key tok) else None.
Proof.
  unfold replacements. rewrite rep_for_map, mem_str_filter.
  destruct (mem_str tok (allowed_tokens key)) eqn:E; [|reflexivity].
  now rewrite (allowed_in_order key tok E).
Qed.

Lemma tokens_by_segment e cfg t key l :
  forallb seg_wf l = true ->
  texts_clean e cfg t key = true ->
  tokenize e cfg t key (render l) = flat_map (expand_seg e cfg t key) l.
Proof.
  intros Hl Hc. unfold tokenize.
  pose proof (replacements_shapes e cfg t key Hc) as Hs.
  rewrite fold_apply_render by assumption.
  assert (Hs' : forallb (fun fr => tok_shape (fst fr)) (replacements e cfg t key) = true).
  { apply forallb_forall. intros fr Hin.
    pose proof (proj1 (forallb_forall _ _) Hs fr Hin) as H. apply andb_true_iff in H as [H _]. exact H. }
  clear Hl. induction l as [|s l IH].
  { change (@nil seg) with (map Ch []) at 1. rewrite fold_subst_chs. reflexivity. }
  change (s :: l) with ([s] ++ l). rewrite fold_subst_app, render_app, IH. cbn [flat_map app]. f_equal.
  destruct s as [x|d|]; cbn [expand_seg].
  - change [Ch x] with (map Ch [x]). rewrite fold_subst_chs. reflexivity.
  - rewrite fold_subst_tok by assumption. rewrite rep_for_replacements.
    destruct (mem_str [37; d] (allowed_tokens key)); [apply render_chs|reflexivity].
  - rewrite fold_subst_tilde by assumption. rewrite rep_for_replacements.
    destruct (mem_str [126] (allowed_tokens key)); [|reflexivity].
    rewrite render_chs. reflexivity.
Qed.

(* ---- HostName default ------------------------------------------------------------------------ *)
Lemma hostname_default e cfg host r :
  lookup e cfg host = Some r ->
  first_from e host false false cfg [] s_hostname = None ->
  ~ In 37 host ->
  dget r s_hostname = Some (VStr host).
Proof.
  unfold lookup. destruct (lookup_raw e cfg host) as [raw|] eqn:L; [|discriminate].
  intros H Hn Hp. injection H as <-.
  assert (Hk : s_hostname <> s_identityfile) by discriminate.
  pose proof (lookup_raw_two_pass e cfg host raw s_hostname L Hk) as G.
  rewrite Hn in G. cbn in G.
  rewrite expand_get_hostname, G. cbn [tok_value]. rewrite tokenize_hostname.
  now rewrite replace2_absent.
Qed.

(* ---- get_hostnames ----------------------------------------------------------------------------- *)
Lemma get_hostnames_spec cfg p :
  In p (get_hostnames cfg) <-> exists b ps, In b cfg /\ b_hdr b = HHost ps /\ In p ps.
Proof.
  unfold get_hostnames. rewrite in_flat_map. split.
  - intros (b & Hb & Hp). unfold block_hosts in Hp. destruct (b_hdr b) as [ps|cs] eqn:E; [eauto|contradiction].
  - intros (b & ps & Hb & E & Hp). exists b. split; [exact Hb|]. unfold block_hosts. now rewrite E.
Qed.

Lemma get_hostnames_star global blocks : In [42] (get_hostnames (parsed global blocks)).
Proof. cbn. left. reflexivity. Qed.

(* ---- final result for keys without tokens ------------------------------------------------------ *)
Lemma lookup_first_obtained_final e cfg host r k :
  forallb static_block cfg = true ->
  lookup e cfg host = Some r ->
  k <> s_identityfile ->
  allowed_tokens k = [] ->
  dget r k = first_obtained e host cfg k.
Proof.
  intros Hs H Hk Ha. unfold lookup in H. destruct (lookup_raw e cfg host) as [raw|] eqn:L; [|discriminate].
  injection H as <-. rewrite expand_get_no_tokens by assumption.
  rewrite (lookup_raw_first_obtained e cfg host raw k Hs L Hk).
  assert (Hh : k <> s_hostname) by (intros ->; apply hostname_has_tokens, Ha).
  rewrite (seqb_neq k s_hostname Hh). unfold keep_or. destruct (first_obtained e host cfg k); reflexivity.
Qed.

Lemma host_block_applies e t c f opts ps body :
  applies e t c f opts (Blk (HHost ps) body) = true <->
  (exists p, In p ps /\ glob p t = true) /\ (forall q, In (33 :: q) ps -> glob q t = false).
Proof. unfold applies. cbn [b_hdr]. apply pattern_matches_spec. Qed.

(* ---- the code before the repairs ----------------------------------------------------------------- *)
Definition ex_env : env := Env [97;108] [98;111;120;46;108;97;110] [98;111;120;46;111;114;103] [47;104] toyhash (fun _ => false) exec_stub.

Lemma get_hostnames_v0_refuted :
  exists cfg, (exists b ps p, In b cfg /\ b_hdr b = HHost ps /\ In p ps) /\
              get_hostnames_v0 cfg = Raise KeyErr.
Proof.
  exists [Blk (HHost [[97]]) []; Blk (HMatch [Crit CAll false []]) []]. split; [|reflexivity].
  exists (Blk (HHost [[97]]) []), [[97]], [97]. cbn. auto.
Qed.

Lemma identityfile_v0_refuted :
  exists e cfg host x, get_list (pass_v0 e host false false cfg []) s_identityfile = [x; x].
Proof.
  exists ex_env, [Blk (HHost [[42]]) [(s_identityfile, [107]); (s_identityfile, [107])]], [97], [107].
  vm_compute. reflexivity.
Qed.

Lemma tokens_v0_refuted :
  exists e host d,
    d = [(s_identityfile, VList [[47;37;104]]); (s_hostname, VStr [37;104;46;120])] /\
    dget (expand_v0 e host d) s_identityfile = Some (VList [[47;37;104;46;120]]) /\
    dget (expand e host d) s_identityfile = Some (VList [[47;97;46;120]]).
Proof.
  exists ex_env, [97], [(s_identityfile, VList [[47;37;104]]); (s_hostname, VStr [37;104;46;120])].
  split; [reflexivity|]. split; vm_compute; reflexivity.
Qed.

(* ---- closed forms over the config alone ----------------------------------------------------------- *)
Lemma dm_from_optfree cs : forall m e t canonical final opts opts',
  forallb optfree_crit cs = true ->
  dm_from m cs e t canonical final opts = dm_from m cs e t canonical final opts'.
Proof.
  induction cs as [|c cs IH]; intros m e t canonical final opts opts' H; [reflexivity|].
  cbn in H. apply andb_true_iff in H as [Hc Hs]. cbn [dm_from].
  rewrite (IH true e t canonical final opts opts' Hs).
  unfold optfree_crit in Hc. destruct (c_type c); try discriminate; reflexivity.
Qed.

Lemma applies_optfree e t f opts b :
  optfree_block b = true -> applies e t false f opts b = applies e t false f [] b.
Proof.
  unfold applies, optfree_block. destruct (b_hdr b) as [ps|cs]; [reflexivity|].
  intros H. unfold does_match. apply dm_from_optfree, H.
Qed.

Lemma first_from_optfree e t f cfg : forall opts k,
  forallb optfree_block cfg = true ->
  first_from e t false f cfg opts k = first_obtained_in e t f cfg k.
Proof.
  unfold first_obtained_in. induction cfg as [|b cfg IH]; intros opts k H; cbn [first_from find]; [reflexivity|].
  cbn in H. apply andb_true_iff in H as [Hb Hs].
  rewrite applies_optfree by assumption.
  destruct (applies e t false f [] b); cbn [andb].
  - unfold dmem. destruct (dget (block_config (b_body b)) k) eqn:E; [symmetry; exact E|apply IH, Hs].
  - apply IH, Hs.
Qed.

Lemma lookup_raw_first_obtained_passes e cfg host raw k :
  forallb optfree_block cfg = true ->
  lookup_raw e cfg host = Some raw ->
  k <> s_identityfile ->
  dget raw k =
  keep (first_obtained_in e host false cfg k)
       (if zlist_eqb k s_hostname then Some (VStr host) else first_obtained_in e host true cfg k).
Proof.
  intros Hs H Hk. rewrite (lookup_raw_two_pass e cfg host raw k H Hk).
  rewrite !first_from_optfree by assumption. reflexivity.
Qed.

Definition crit_noexec (c : crit) : bool := match c_type c with CExec => false | _ => true end.

Lemma dm_from_hu cs : forall m e t canonical final opts opts',
  forallb crit_noexec cs = true ->
  dget opts s_hostname = dget opts' s_hostname ->
  dget opts s_user = dget opts' s_user ->
  dm_from m cs e t canonical final opts = dm_from m cs e t canonical final opts'.
Proof.
  induction cs as [|c cs IH]; intros m e t canonical final opts opts' Hx Hh Hu; [reflexivity|].
  cbn in Hx. apply andb_true_iff in Hx as [Hc Hx].
  cbn [dm_from]. rewrite (IH true e t canonical final opts opts' Hx Hh Hu). rewrite Hh, Hu.
  unfold crit_noexec in Hc. destruct (c_type c); try reflexivity. discriminate.
Qed.

Lemma dget_mini_h oh ou : dget (mini oh ou) s_hostname = oh.
Proof. destruct oh, ou; reflexivity. Qed.
Lemma dget_mini_u oh ou : dget (mini oh ou) s_user = ou.
Proof. destruct oh, ou; reflexivity. Qed.

Lemma applies_hu_eq e t c f opts b :
  exec_free_block b = true ->
  applies e t c f opts b = applies_hu e t c f (dget opts s_hostname) (dget opts s_user) b.
Proof.
  unfold applies_hu, applies, exec_free_block. destruct (b_hdr b) as [ps|cs]; [reflexivity|].
  intros Hx. unfold does_match. apply dm_from_hu; [exact Hx|now rewrite dget_mini_h|now rewrite dget_mini_u].
Qed.

Lemma first_from_sel e t c f cfg : forall opts k,
  forallb exec_free_block cfg = true ->
  first_from e t c f cfg opts k = sel e t c f cfg (dget opts s_hostname) (dget opts s_user) k.
Proof.
  induction cfg as [|b cfg IH]; intros opts k Hx; cbn [first_from sel]; [reflexivity|].
  cbn in Hx. apply andb_true_iff in Hx as [Hb Hx].
  rewrite <- applies_hu_eq by assumption. destruct (applies e t c f opts b) eqn:Ea; [|apply IH, Hx].
  destruct (dget (block_config (b_body b)) k); [reflexivity|].
  rewrite IH by assumption. rewrite !apply_block_get by discriminate. rewrite Ea. reflexivity.
Qed.

Lemma collected_coll e t c f cfg : forall opts,
  forallb exec_free_block cfg = true ->
  collected e t c f cfg opts = coll e t c f cfg (dget opts s_hostname) (dget opts s_user).
Proof.
  induction cfg as [|b cfg IH]; intros opts Hx; cbn [collected coll]; [reflexivity|].
  cbn in Hx. apply andb_true_iff in Hx as [Hb Hx].
  rewrite <- applies_hu_eq by assumption. destruct (applies e t c f opts b) eqn:Ea; [|apply IH, Hx].
  rewrite IH by assumption. rewrite !apply_block_get by discriminate. rewrite Ea. reflexivity.
Qed.

Lemma keep_none o : keep o None = o.
Proof. destruct o; reflexivity. Qed.

Lemma first_pass_hu e cfg host :
  forallb exec_free_block cfg = true ->
  dget (first_pass e cfg host) s_hostname =
    keep (sel e host false false cfg None None s_hostname) (Some (VStr host)) /\
  dget (first_pass e cfg host) s_user = sel e host false false cfg None None s_user.
Proof.
  intros Hx. split.
  - rewrite first_pass_get by discriminate. rewrite first_from_sel by assumption. reflexivity.
  - rewrite first_pass_get by discriminate. rewrite first_from_sel by assumption. cbn [dget].
    change (zlist_eqb s_user s_hostname) with false. apply keep_none.
Qed.

(* the second pass in closed form, plain (c = false, t = host) or canonical (c = true) *)
Lemma relookup_closed e cfg host t (c : bool) k :
  forallb exec_free_block cfg = true ->
  k <> s_identityfile ->
  let sel1 := sel e host false false cfg None None in
  let h1 := if c then Some (VStr t) else keep (sel1 s_hostname) (Some (VStr host)) in
  dget (relookup e cfg host t c) k =
  if zlist_eqb k s_hostname then h1 else keep (sel1 k) (sel e t c true cfg h1 (sel1 s_user) k).
Proof.
  intros Hx Hk sel1 h1. unfold relookup. rewrite pass_get by assumption.
  rewrite first_from_sel by assumption.
  destruct (first_pass_hu e cfg host Hx) as [Eh Eu].
  set (D := if c then dset (first_pass e cfg host) s_hostname (VStr t) else first_pass e cfg host).
  assert (Dh : dget D s_hostname = h1).
  { unfold D, h1. destruct c; [apply dget_dset_same|exact Eh]. }
  assert (Du : dget D s_user = sel1 s_user).
  { unfold D. destruct c; [rewrite dget_dset_other by discriminate|]; exact Eu. }
  rewrite Dh, Du. destruct (zlist_eqb k s_hostname) eqn:Ek.
  - apply zlist_eqb_eq in Ek. subst k. rewrite Dh. unfold h1.
    destruct c; [reflexivity|]. fold sel1. destruct (sel1 s_hostname); reflexivity.
  - assert (Dk : dget D k = sel1 k).
    { unfold D. destruct c; [rewrite dget_dset_other by (apply seqb_false, Ek)|];
        (rewrite first_pass_get by assumption; rewrite first_from_sel by assumption; rewrite Ek;
         cbn [dget]; apply keep_none). }
    rewrite Dk. reflexivity.
Qed.

Lemma relookup_plain e cfg host :
  lookup_raw e cfg host = (if in_fragment cfg then Some (relookup e cfg host host false) else None).
Proof. reflexivity. Qed.

Lemma lookup_raw_closed e cfg host raw k :
  forallb exec_free_block cfg = true ->
  lookup_raw e cfg host = Some raw ->
  k <> s_identityfile ->
  let sel1 := sel e host false false cfg None None in
  dget raw k =
  keep (sel1 k)
       (if zlist_eqb k s_hostname then Some (VStr host)
        else sel e host false true cfg (keep (sel1 s_hostname) (Some (VStr host))) (sel1 s_user) k).
Proof.
  intros Hx H Hk sel1. rewrite (lookup_raw_two_pass e cfg host raw k H Hk).
  rewrite !first_from_sel by assumption. destruct (first_pass_hu e cfg host Hx) as [Eh Eu]. rewrite Eh, Eu. reflexivity.
Qed.

Lemma relookup_idf e cfg host t (c : bool) :
  forallb exec_free_block cfg = true ->
  let sel1 := sel e host false false cfg None None in
  let h1 := if c then Some (VStr t) else keep (sel1 s_hostname) (Some (VStr host)) in
  get_list (relookup e cfg host t c) s_identityfile =
  dedup_extend [] (coll e host false false cfg None None ++ coll e t c true cfg h1 (sel1 s_user)).
Proof.
  intros Hx sel1 h1. unfold relookup. rewrite pass_idf. rewrite collected_coll by assumption.
  destruct (first_pass_hu e cfg host Hx) as [Eh Eu].
  set (D := if c then dset (first_pass e cfg host) s_hostname (VStr t) else first_pass e cfg host).
  assert (Dh : dget D s_hostname = h1).
  { unfold D, h1. destruct c; [apply dget_dset_same|exact Eh]. }
  assert (Du : dget D s_user = sel1 s_user).
  { unfold D. destruct c; [rewrite dget_dset_other by discriminate|]; exact Eu. }
  assert (Di : get_list D s_identityfile = dedup_extend [] (coll e host false false cfg None None)).
  { unfold D. destruct c; [rewrite get_list_dset_other by discriminate|];
      (rewrite first_pass_idf; rewrite collected_coll by assumption; reflexivity). }
  rewrite Dh, Du, Di. apply dedup_extend_app.
Qed.

Lemma identityfile_closed e cfg host raw :
  forallb exec_free_block cfg = true ->
  lookup_raw e cfg host = Some raw ->
  let sel1 := sel e host false false cfg None None in
  get_list raw s_identityfile =
  dedup_extend [] (coll e host false false cfg None None ++
                   coll e host false true cfg (keep (sel1 s_hostname) (Some (VStr host))) (sel1 s_user)).
Proof.
  intros Hx H sel1. unfold lookup_raw in H. destruct (in_fragment cfg); [|discriminate]. injection H as <-.
  exact (relookup_idf e cfg host host false Hx).
Qed.

(* which second pass lookup() runs *)
Lemma lookup_full_cases e cfg host d :
  lookup_full e cfg host = Out d ->
  (plan_of e cfg host = PlanPlain /\ d = expand e host (relookup e cfg host host false)) \/
  (exists t, plan_of e cfg host = PlanCanon t /\ d = expand e t (relookup e cfg host t true)).
Proof.
  unfold lookup_full. destruct (in_fragment2 cfg); [|discriminate].
  destruct (plan_of e cfg host) as [|t|x|] eqn:P; try discriminate; intros H; injection H as <-.
  - left. auto.
  - right. exists t. auto.
Qed.

Lemma plan_canon_spec e cfg host t :
  plan_of e cfg host = PlanCanon t ->
  let o1 := first_pass e cfg host in
  canon_on o1 = true /\
  (exists md, maxdots o1 = Some md /\ count_dots host <= md) /\
  exists ds, dget o1 s_canonicaldomains = Some (VStr ds) /\
    ((exists dom, In dom (split_ws ds) /\ t = host ++ 46 :: dom /\ e_resolves e t = true) \/
     (t = host /\ forall dom, In dom (split_ws ds) -> e_resolves e (host ++ 46 :: dom) = false)).
Proof.
  intros H. cbv zeta. unfold plan_of in H. cbv zeta in H. set (o1 := first_pass e cfg host) in *.
  destruct (maxdots o1) as [md|]; [|discriminate].
  destruct (canon_on o1 && (count_dots host <=? md)) eqn:C; [|discriminate].
  apply andb_true_iff in C as [C1 C2]. apply Z.leb_le in C2.
  split; [exact C1|]. split; [eauto|].
  destruct (dget o1 s_canonicaldomains) as [[| ds | l]|]; try discriminate.
  exists ds. split; [reflexivity|].
  unfold canonicalize in H.
  destruct (find (fun d => e_resolves e (host ++ 46 :: d)) (split_ws ds)) as [dom|] eqn:F.
  - injection H as <-. apply find_some in F as [Hin Hr]. left. exists dom. auto.
  - right. assert (forall dom, In dom (split_ws ds) -> e_resolves e (host ++ 46 :: dom) = false)
      by (intros dom Hin; exact (find_none _ _ F dom Hin)).
    split; [|assumption].
    destruct (dget o1 s_canonicalizefallbacklocal) as [[| v | l]|]; try discriminate.
    + destruct (zlist_eqb v s_yes); [|discriminate]. now injection H as <-.
    + now injection H as <-.
Qed.

Lemma plan_plain_spec e cfg host :
  plan_of e cfg host = PlanPlain ->
  let o1 := first_pass e cfg host in
  exists md, maxdots o1 = Some md /\ (canon_on o1 = false \/ md < count_dots host).
Proof.
  intros H. cbv zeta. unfold plan_of in H. cbv zeta in H. set (o1 := first_pass e cfg host) in *.
  destruct (maxdots o1) as [md|]; [|discriminate]. exists md. split; [reflexivity|].
  destruct (canon_on o1); [|auto]. cbn [andb] in H.
  destruct (count_dots host <=? md) eqn:C.
  - destruct (dget o1 s_canonicaldomains) as [[| ds | l]|]; try discriminate.
    destruct (canonicalize e host o1 (split_ws ds)); discriminate.
  - right. apply Z.leb_gt in C. exact C.
Qed.

(* ---- lookup_full extends lookup: without the canonicalisation keys it is the plain two-pass lookup -- *)
Lemma dget_in_keys d k v : dget d k = Some v -> In k (map fst d).
Proof.
  induction d as [|[k' v'] d IH]; cbn; [discriminate|].
  destruct (zlist_eqb k' k) eqn:E; [apply zlist_eqb_eq in E; auto|auto].
Qed.

Lemma parse_line_keys d kv x : In x (map fst (parse_line d kv)) -> In x (map fst d) \/ x = fst kv.
Proof.
  destruct kv as [k v]. unfold parse_line. cbn [fst].
  destruct (zlist_eqb k s_proxycommand && zlist_eqb (lower v) s_none); [apply in_keys_dset|].
  destruct (list_key k).
  - destruct (dget d k) as [[| |l]|]; auto; apply in_keys_dset.
  - destruct (dmem d k); [auto|apply in_keys_dset].
Qed.

Lemma block_config_keys body x : In x (map fst (block_config body)) -> In x (map fst body).
Proof.
  unfold block_config.
  assert (G : forall d, In x (map fst (fold_left parse_line body d)) -> In x (map fst d) \/ In x (map fst body)).
  { induction body as [|kv body IH]; intros d H; cbn in *; [auto|].
    destruct (IH _ H) as [H1|H1]; [|auto]. apply parse_line_keys in H1 as [H1|H1]; auto. }
  intros H. destruct (G [] H) as [[]|H1]. exact H1.
Qed.

Lemma first_from_key e t c f cfg : forall opts k v,
  first_from e t c f cfg opts k = Some v -> exists b, In b cfg /\ In k (map fst (b_body b)).
Proof.
  induction cfg as [|b cfg IH]; intros opts k v H; cbn [first_from] in H; [discriminate|].
  destruct (applies e t c f opts b).
  - destruct (dget (block_config (b_body b)) k) eqn:E.
    + exists b. split; [left; reflexivity|]. eapply block_config_keys, dget_in_keys, E.
    + destruct (IH _ _ _ H) as (b' & Hb & Hk). exists b'. split; [right; exact Hb|exact Hk].
  - destruct (IH _ _ _ H) as (b' & Hb & Hk). exists b'. split; [right; exact Hb|exact Hk].
Qed.

Lemma first_pass_excluded e cfg host k :
  in_fragment cfg = true -> excluded_key k = true -> dget (first_pass e cfg host) k = None.
Proof.
  intros Hf Hk.
  assert (Hi : k <> s_identityfile) by (intros ->; discriminate).
  assert (Hh : zlist_eqb k s_hostname = false).
  { destruct (zlist_eqb k s_hostname) eqn:E; [|reflexivity]. apply zlist_eqb_eq in E. subst k. discriminate. }
  rewrite first_pass_get by assumption. rewrite Hh.
  destruct (first_from e host false false cfg [] k) eqn:F; [|reflexivity].
  apply first_from_key in F as (b & Hb & Hin). exfalso.
  unfold in_fragment in Hf. pose proof (proj1 (forallb_forall _ _) Hf b Hb) as Hbb.
  apply in_map_iff in Hin as (kv & <- & Hkv).
  pose proof (proj1 (forallb_forall _ _) Hbb kv Hkv) as N. cbn beta in N. rewrite Hk in N. discriminate.
Qed.

Lemma in_fragment_2 cfg : in_fragment cfg = true -> in_fragment2 cfg = true.
Proof.
  unfold in_fragment, in_fragment2. intros H. apply forallb_forall. intros b Hb.
  pose proof (proj1 (forallb_forall _ _) H b Hb) as Hbb. apply forallb_forall. intros kv Hkv.
  pose proof (proj1 (forallb_forall _ _) Hbb kv Hkv) as N. cbn beta in N. apply negb_true_iff in N. apply negb_true_iff.
  unfold excluded_key in N. unfold excluded_key2.
  destruct (zlist_eqb (fst kv) s_canonicalizehostname), (zlist_eqb (fst kv) s_canonicalizemaxdots); cbn in N; try discriminate; exact N.
Qed.

Lemma lookup_full_extends e cfg host d :
  lookup e cfg host = Some d -> lookup_full e cfg host = Out d.
Proof.
  unfold lookup, lookup_raw. destruct (in_fragment cfg) eqn:Hf; [|discriminate]. intros H. injection H as <-.
  unfold lookup_full. rewrite (in_fragment_2 cfg Hf).
  assert (P : plan_of e cfg host = PlanPlain).
  { unfold plan_of, maxdots, canon_on.
    rewrite (first_pass_excluded e cfg host s_canonicalizemaxdots Hf eq_refl).
    rewrite (first_pass_excluded e cfg host s_canonicalizehostname Hf eq_refl). reflexivity. }
  rewrite P. reflexivity.
Qed.
