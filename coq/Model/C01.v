(* C01 / C02 — model of paramiko/packet.py: Packetizer.send_message, _build_packet,
   read_message (classic, encrypt-then-MAC and AEAD paths), read_all, _inc_iv_counter,
   set_outbound_cipher / set_inbound_cipher (key switch), reset_seqno_in / reset_seqno_out,
   and util.constant_time_bytes_eq.  Definitions only; proofs are in Proofs/C01_proofs.v.

   Ciphers, HMAC, AEAD and compression are library primitives: they are the fields of the
   record `prims` (one Section variable P); their laws are the Prop `prims_ok` (premise of the
   theorems).  Executable toy instances (the same as harness/c01.py) are at the end of the file.

   Not modelled (outside C01/C02): the re-key byte/packet accounting (need_rekey, C10),
   keepalive, hexdump logging, the banner `__remainder`.  Invariants taken from
   Transport._activate_inbound / _activate_outbound: block size >= 8; 0 <= seqno < 2^32;
   when no cipher engine is installed the MAC size is 0. *)
From PV Require Import Bytes.
From Coq Require Import ZArith List Bool.
Import ListNotations.
Open Scope Z_scope.

Definition zlen (l : list Z) : Z := Z.of_nat (length l).

(* ---- util.constant_time_bytes_eq ---------------------------------------- *)
(* res = 0; for i in range(len(a)): res |= a[i] ^ b[i]; return res == 0 *)
Fixpoint xor_acc (res : Z) (a b : list Z) : Z :=
  match a, b with
  | x :: a', y :: b' => xor_acc (Z.lor res (Z.lxor x y)) a' b'
  | _, _ => res
  end.
Definition constant_time_bytes_eq (a b : list Z) : bool :=
  if negb (Nat.eqb (length a) (length b)) then false else xor_acc 0 a b =? 0.

(* ---- library primitives -------------------------------------------------- *)
Record prims := {
  cst : Type;                                        (* state of a cipher context (engine.update) *)
  c_enc : cst -> list Z -> list Z * cst;
  c_dec : cst -> list Z -> list Z * cst;
  mkey : Type;                                       (* MAC key + digest constructor *)
  hmac : mkey -> list Z -> list Z;                   (* HMAC(key, data, digest).digest() *)
  akey : Type;                                       (* AEAD engine (AESGCM(key)) *)
  a_enc : akey -> list Z -> list Z -> list Z -> list Z;          (* encrypt(iv, data, aad) *)
  a_dec : akey -> list Z -> list Z -> list Z -> option (list Z); (* decrypt(iv, data, aad); None = InvalidTag *)
  zst : Type;                                        (* state of a (de)compressor *)
  z_comp : zst -> list Z -> list Z * zst;
  z_decomp : zst -> list Z -> result (list Z * zst)
}.

(* reader results: blocked waiting for bytes / exception / value and remaining source *)
Inductive rr (S A : Type) := Need | Fail (e : exn) | Done (a : A) (s : S).
Arguments Need {S A}.
Arguments Fail {S A} e.
Arguments Done {S A} a s.

(* what the receiver authenticated before producing a payload (ghost output for C02) *)
Inductive authev := EvNone | EvMac (m tag : list Z) | EvAead (iv aad ct : list Z).

Inductive fin := FNeed | FErr (e : exn) | FFuel.

(* ---- the socket: Packetizer.read_all ------------------------------------- *)
(* flat source: all bytes that will ever arrive, NeedMore when too few *)
Definition ftake (n : Z) (buf : list Z) : option (list Z * list Z) :=
  if n <=? 0 then Some ([], buf)
  else if zlen buf <? n then None
  else Some (firstn (Z.to_nat n) buf, skipn (Z.to_nat n) buf).

(* chunked source: recv(n) returns at most n bytes of the next chunk; an exhausted
   socket returns b"" (EOFError in read_all) which the model reports as None / Need.
   while n > 0: x = recv(n); if len(x) == 0: raise EOFError; out += x; n -= len(x) *)
Fixpoint read_all (n : Z) (out : list Z) (sock : list (list Z)) {struct sock}
  : option (list Z * list (list Z)) :=
  if n <=? 0 then Some (out, sock) else
  match sock with
  | [] => None
  | c :: rest =>
      match c with
      | [] => None
      | _ => if zlen c <=? n then read_all (n - zlen c) (out ++ c) rest
             else Some (out ++ firstn (Z.to_nat n) c, skipn (Z.to_nat n) c :: rest)
      end
  end.
Definition stake (n : Z) (sock : list (list Z)) := read_all n [] sock.

(* the same loop with socket timeouts as oracle input and the need-rekey test:
     except socket.timeout: got_timeout = True
     if got_timeout: ... if check_rekey and (len(out) == 0) and self.__need_rekey: raise NeedRekeyException()
   (closed flag false, keepalive off).  A socket is a list of events. *)
Inductive sev := SData (c : list Z) | STimeout.
Inductive rares := RAok (x : list Z) (s : list sev) | RAeof | RArekey (s : list sev).
Fixpoint read_all_t (n : Z) (out : list Z) (check_rekey need_rekey : bool) (sock : list sev) {struct sock}
  : rares :=
  if n <=? 0 then RAok out sock else
  match sock with
  | [] => RAeof
  | STimeout :: rest =>
      if check_rekey && Nat.eqb (length out) 0 && need_rekey then RArekey rest
      else read_all_t n out check_rekey need_rekey rest
  | SData c :: rest =>
      match c with
      | [] => RAeof
      | _ => if zlen c <=? n then read_all_t (n - zlen c) (out ++ c) check_rekey need_rekey rest
             else RAok (out ++ firstn (Z.to_nat n) c) (SData (skipn (Z.to_nat n) c) :: rest)
      end
  end.
(* read_all(n, check_rekey=False) *)
Definition ttake (n : Z) (s : list sev) : option (list Z * list sev) :=
  match read_all_t n [] false false s with RAok x s' => Some (x, s') | _ => None end.
(* the bytes a socket will deliver *)
Fixpoint sdata (s : list sev) : list Z :=
  match s with
  | [] => []
  | SData c :: r => c ++ sdata r
  | STimeout :: r => sdata r
  end.

(* ---- the send side of the socket: Packetizer.write_all ------------------------------ *)
(* socket oracle: send() accepts k bytes (partial send) | socket.timeout | EAGAIN | other error.
   When the script is exhausted the socket accepts everything.  `written` is the ghost trace of
   the bytes the socket actually took (out[:n] of every send); closed flag false.
     while len(out) > 0:
         retry_write = False
         try: n = send(out)  except timeout/EAGAIN: retry_write = True  except: n = -1
         if retry_write: n = 0
         else:
             if n == 0 and iteration_with_zero_as_return_value > 10: n = -1
             iteration_with_zero_as_return_value += 1
         if n < 0: raise EOFError()
         if n == len(out): break
         out = out[n:]                                                              *)
Inductive wev := WSend (k : Z) | WTimeout | WEagain | WError.
Fixpoint write_all (out : list Z) (iters : Z) (evs : list wev) (written : list Z) {struct evs}
  : list Z * bool :=                                  (* (bytes on the wire, returned normally?) *)
  match out with
  | [] => (written, true)
  | _ =>
    match evs with
    | [] => (written ++ out, true)
    | WTimeout :: rest | WEagain :: rest => write_all out iters rest written
    | WError :: rest => (written, false)
    | WSend k :: rest =>
        if ((k =? 0) && (10 <? iters)) || (k <? 0) then (written, false)
        else if k =? zlen out then (written ++ out, true)
        else let n := Z.to_nat (Z.min k (zlen out)) in
             write_all (skipn n out) (iters + 1) rest (written ++ firstn n out)
    end
  end.

(* ---- _inc_iv_counter ------------------------------------------------------ *)
(* int.from_bytes(iv[4:]) + 1, to_bytes(8) raises OverflowError (LibExc 2) at 2^64 *)
Definition inc_iv (iv : list Z) : result (list Z) :=
  let c := be_decode (skipn 4 iv) + 1 in
  if c <? 2 ^ 64 then Ok (firstn 4 iv ++ be_encode 8 c) else Raise (LibExc 2).

(* the nonce of the k-th AEAD packet of a key epoch that started with IV iv *)
Fixpoint iv_after (k : nat) (iv : list Z) : result (list Z) :=
  match k with
  | O => Ok iv
  | Datatypes.S k' => bind (inc_iv iv) (iv_after k')
  end.

(* packet[1 : e] with Python's negative-index rule *)
Definition py_slice1 (l : list Z) (e : Z) : list Z :=
  let n := zlen l in
  let e' := if e <? 0 then Z.max 0 (n + e) else Z.min e n in
  skipn 1 (firstn (Z.to_nat e') l).

Section Packet.
Variable P : prims.

Inductive mode :=
  | Plain                                   (* block_engine is None *)
  | Classic (c : cst P) (k : mkey P)        (* etm = aead = False *)
  | Etm (c : cst P) (k : mkey P)
  | Aead (k : akey P) (iv : list Z).

(* one direction of a Packetizer *)
Record pstate := {
  p_mode : mode; p_bs : Z; p_msz : Z; p_seq : Z; p_kex : bool; (* _initial_kex_done *)
  p_sdctr : bool; p_z : option (zst P) }.

Definition with_mode_seq_z (s : pstate) (m : mode) (q : Z) (z : option (zst P)) : pstate :=
  {| p_mode := m; p_bs := p_bs s; p_msz := p_msz s; p_seq := q; p_kex := p_kex s;
     p_sdctr := p_sdctr s; p_z := z |}.

(* set_outbound_cipher / set_inbound_cipher (+ set_*_compressor): seqno and kex flag persist *)
Definition set_cipher (s : pstate) (m : mode) (bs msz : Z) (sdctr : bool) (z : option (zst P)) : pstate :=
  {| p_mode := m; p_bs := bs; p_msz := msz; p_seq := p_seq s; p_kex := p_kex s;
     p_sdctr := sdctr; p_z := z |}.
Definition reset_seqno (s : pstate) : pstate := with_mode_seq_z s (p_mode s) 0 (p_z s).

Definition mac_tag (k : mkey P) (msz : Z) (m : list Z) : list Z :=
  firstn (Z.to_nat msz) (hmac P k m).

(* ---- _build_packet -------------------------------------------------------- *)
Definition addlen (m : mode) : Z :=
  match m with Etm _ _ | Aead _ _ => 4 | _ => 8 end.
Definition padding_len (bs : Z) (m : mode) (n : Z) : Z := 3 + bs - ((n + addlen m) mod bs).
Definition is_plain (m : mode) : bool := match m with Plain => true | _ => false end.
(* os.urandom(padding): `rnd` is the oracle's byte stream *)
Definition pad_bytes (s : pstate) (padding : Z) (rnd : list Z) : list Z :=
  if p_sdctr s || is_plain (p_mode s) then repeat 0 (Z.to_nat padding)
  else firstn (Z.to_nat padding) (rnd ++ repeat 0 (Z.to_nat padding)).

Definition build_packet (s : pstate) (payload rnd : list Z) : result (list Z) :=
  let n := zlen payload in
  let padding := padding_len (p_bs s) (p_mode s) n in
  (* struct.pack(">IB", len + padding + 1, padding) *)
  if (0 <=? padding) && (padding <? 256) && (n + padding + 1 <? 2 ^ 32) then
    Ok (be_encode 4 (n + padding + 1) ++ [padding] ++ payload ++ pad_bytes s padding rnd)
  else Raise StructErr.

(* ---- send_message ---------------------------------------------------------- *)
Definition encrypt_packet (s : pstate) (packet : list Z) : result (list Z * mode) :=
  match p_mode s with
  | Plain => Ok (packet, Plain)
  | Classic c k =>
      let '(o, c') := c_enc P c packet in
      Ok (o ++ mac_tag k (p_msz s) (be_encode 4 (p_seq s) ++ packet), Classic c' k)
  | Etm c k =>
      let '(o, c') := c_enc P c (skipn 4 packet) in
      let out := firstn 4 packet ++ o in
      Ok (out ++ mac_tag k (p_msz s) (be_encode 4 (p_seq s) ++ out), Etm c' k)
  | Aead k iv =>
      let out := firstn 4 packet ++ a_enc P k iv (skipn 4 packet) (firstn 4 packet) in
      bind (inc_iv iv) (fun iv' => Ok (out, Aead k iv'))
  end.

Definition send_message (s : pstate) (data rnd : list Z) : result (list Z * pstate) :=
  match data with
  | [] => Raise IndexErr                      (* cmd = byte_ord(data[0]) *)
  | _ =>
    let '(data1, z') := match p_z s with
                        | None => (data, None)
                        | Some z => let '(d, z2) := z_comp P z data in (d, Some z2)
                        end in
    bind (build_packet s data1 rnd) (fun packet =>
    bind (encrypt_packet s packet) (fun om =>
    let next := (p_seq s + 1) mod 2 ^ 32 in
    if (next =? 0) && negb (p_kex s) then Raise SSHExc
    else Ok (fst om, with_mode_seq_z s (snd om) next z')))
  end.

(* ---- read_message ----------------------------------------------------------- *)
Section Reader.
Variable S : Type.
Variable tk : Z -> S -> option (list Z * S).       (* read_all(n) *)

Definition reader (A : Type) := S -> rr S A.
Definition rret {A} (a : A) : reader A := fun s => Done a s.
Definition rfail {A} (e : exn) : reader A := fun _ => Fail e.
Definition rbind {A B} (m : reader A) (f : A -> reader B) : reader B :=
  fun s => match m s with Need => Need | Fail e => Fail e | Done a s' => f a s' end.
Definition rtake (n : Z) : reader (list Z) :=
  fun s => match tk n s with None => Need | Some (x, s') => Done x s' end.
Definition rlift {A} (x : result A) : reader A :=
  match x with Ok a => rret a | Raise e => rfail e end.

(* everything after the tag check: padding = packet[0]; payload = packet[1:size-padding];
   decompress; seqno bump (with the initial-kex rollover test); cmd = payload[0] *)
Definition finish (r : pstate) (m' : mode) (packet_size : Z) (packet : list Z) (ev : authev)
  : result (list Z * authev * pstate) :=
  match packet with
  | [] => Raise IndexErr
  | padding :: _ =>
    let payload := py_slice1 packet (packet_size - padding) in
    bind (match p_z r with
          | None => Ok (payload, None)
          | Some z => bind (z_decomp P z payload) (fun dz => Ok (fst dz, Some (snd dz)))
          end) (fun pz =>
    let next := (p_seq r + 1) mod 2 ^ 32 in
    if (next =? 0) && negb (p_kex r) then Raise SSHExc
    else match fst pz with
         | [] => Raise IndexErr
         | _ => Ok (fst pz, ev, with_mode_seq_z r m' next (snd pz))
         end)
  end.

Definition mac_input (seq packet_size : Z) (packet : list Z) : list Z :=
  be_encode 4 seq ++ be_encode 4 packet_size ++ packet.   (* struct.pack(">II", seq, size) + packet *)

(* the non-ETM, non-AEAD path; `dec` is the engine (identity when there is none) *)
Definition read_classic (r : pstate) (header : list Z)
           (dec : list Z -> list Z * (list Z -> list Z * mode))
  : reader (list Z * authev * pstate) :=
  let bs := p_bs r in
  let msz := p_msz r in
  let '(hd, dec2) := dec header in
  let packet_size := be_decode (firstn 4 hd) in
  let leftover := skipn 4 hd in
  if negb ((packet_size - zlen leftover) mod bs =? 0) then rfail SSHExc   (* Invalid packet blocking *)
  else
    rbind (rtake (packet_size + msz - zlen leftover)) (fun buf =>
    let n := Z.to_nat (packet_size - zlen leftover) in
    let post_packet := skipn n buf in
    let '(pt2, m') := dec2 (firstn n buf) in
    let packet := leftover ++ pt2 in
    if 0 <? msz then
      match p_mode r with
      | Classic _ k =>
          let mac := firstn (Z.to_nat msz) post_packet in
          let mp := mac_input (p_seq r) packet_size packet in
          if negb (constant_time_bytes_eq (mac_tag k msz mp) mac) then rfail SSHExc (* Mismatched MAC *)
          else rlift (finish r m' packet_size packet (EvMac mp mac))
      | _ => rfail TypeErr                 (* HMAC without a digest constructor *)
      end
    else rlift (finish r m' packet_size packet EvNone)).

(* everything after header = self.read_all(self.__block_size_in, check_rekey=True) *)
Definition read_body (r : pstate) (header : list Z) : reader (list Z * authev * pstate) :=
  let bs := p_bs r in
  let msz := p_msz r in
  match p_mode r with
  | Etm c k =>
      let packet_size := be_decode (firstn 4 header) in
      rbind (rtake (packet_size - bs + 4)) (fun more =>
      let packet := skipn 4 header ++ more in
      rbind (rtake msz) (fun mac =>
      let mp := mac_input (p_seq r) packet_size packet in
      if negb (constant_time_bytes_eq (mac_tag k msz mp) mac) then rfail SSHExc
      else rlift (finish r (Etm (snd (c_dec P c packet)) k) packet_size
                         (fst (c_dec P c packet)) (EvMac mp mac))))
  | Aead k iv =>
      let packet_size := be_decode (firstn 4 header) in
      let aad := firstn 4 header in
      rbind (rtake (packet_size - bs + 4 + msz)) (fun more =>
      let packet := skipn 4 header ++ more in
      match a_dec P k iv packet aad with
      | None => rfail (LibExc 1)           (* cryptography.exceptions.InvalidTag *)
      | Some pt =>
          rlift (bind (inc_iv iv) (fun iv' =>
                 finish r (Aead k iv') packet_size pt (EvAead iv aad packet)))
      end)
  | Classic c k =>
      read_classic r header (fun h =>
        (fst (c_dec P c h),
         fun rest => (fst (c_dec P (snd (c_dec P c h)) rest),
                      Classic (snd (c_dec P (snd (c_dec P c h)) rest)) k)))
  | Plain =>
      read_classic r header (fun h => (h, fun rest => (rest, Plain)))
  end.

Definition read_message (r : pstate) : reader (list Z * authev * pstate) :=
  rbind (rtake (p_bs r)) (read_body r).

(* read messages until the source blocks or an exception is raised *)
Fixpoint read_many (fuel : nat) (r : pstate) (s : S)
  : list (list Z) * list authev * fin * pstate * S :=
  match fuel with
  | O => ([], [], FFuel, r, s)
  | Datatypes.S f =>
      match read_message r s with
      | Need => ([], [], FNeed, r, s)
      | Fail e => ([], [], FErr e, r, s)
      | Done (p, ev, r') s' =>
          let '(ps, evs, fi, rf, sf) := read_many f r' s' in
          (p :: ps, ev :: evs, fi, rf, sf)
      end
  end.
End Reader.

(* read_message over a socket with timeouts while need_rekey may be set: the header read is the
   only one with check_rekey=True *)
Inductive trr :=
  | TRekey (s : list sev)                                       (* NeedRekeyException *)
  | TOther (x : rr (list sev) (list Z * authev * pstate)).
Definition read_message_t (nr : bool) (r : pstate) (sock : list sev) : trr :=
  match read_all_t (p_bs r) [] true nr sock with
  | RArekey s' => TRekey s'
  | RAeof => TOther Need
  | RAok header s' => TOther (read_body (list sev) ttake r header s')
  end.
(* the run loop: NeedRekeyException is noted (Transport.run sends KEXINIT) and reading continues *)
Fixpoint read_many_t (nr : bool) (fuel : nat) (r : pstate) (s : list sev)
  : list (list Z) * list authev * Z * fin * pstate * list sev :=
  match fuel with
  | O => ([], [], 0, FFuel, r, s)
  | Datatypes.S f =>
      match read_message_t nr r s with
      | TRekey s' =>
          let '(ps, evs, k, fi, rf, sf) := read_many_t nr f r s' in (ps, evs, k + 1, fi, rf, sf)
      | TOther Need => ([], [], 0, FNeed, r, s)
      | TOther (Fail e) => ([], [], 0, FErr e, r, s)
      | TOther (Done (p, ev, r') s') =>
          let '(ps, evs, k, fi, rf, sf) := read_many_t nr f r' s' in (p :: ps, ev :: evs, k, fi, rf, sf)
      end
  end.

Definition read_message_flat := read_message (list Z) ftake.
Definition read_message_sock := read_message (list (list Z)) stake.
Definition read_many_flat := read_many (list Z) ftake.
Definition read_many_sock := read_many (list (list Z)) stake.

(* ---- sessions: messages, key switches, seqno resets -------------------------- *)
Inductive op :=
  | OMsg (payload rnd : list Z)
  | OKey (ms mr : mode) (bs msz : Z) (sdctr : bool) (zs zr : option (zst P))
  | OReset.

(* the sender's side: wire bytes of every message *)
Fixpoint send_ops (s : pstate) (ops : list op) : result (list (list Z) * pstate) :=
  match ops with
  | [] => Ok ([], s)
  | OMsg p rnd :: t =>
      bind (send_message s p rnd) (fun ws =>
      bind (send_ops (snd ws) t) (fun r => Ok (fst ws :: fst r, snd r)))
  | OKey ms _ bs msz sd zs _ :: t => send_ops (set_cipher s ms bs msz sd zs) t
  | OReset :: t => send_ops (reset_seqno s) t
  end.

(* the receiver's side, switching keys at the same points of the message sequence *)
Fixpoint recv_ops (r : pstate) (ops : list op) (buf : list Z)
  : option (list (list Z) * pstate * list Z) :=
  match ops with
  | [] => Some ([], r, buf)
  | OMsg _ _ :: t =>
      match read_message_flat r buf with
      | Done (p, _, r') buf' =>
          match recv_ops r' t buf' with
          | Some (ps, rf, bf) => Some (p :: ps, rf, bf)
          | None => None
          end
      | _ => None
      end
  | OKey _ mr bs msz sd _ zr :: t => recv_ops (set_cipher r mr bs msz sd zr) t buf
  | OReset :: t => recv_ops (reset_seqno r) t buf
  end.

Fixpoint payloads (ops : list op) : list (list Z) :=
  match ops with
  | [] => []
  | OMsg p _ :: t => p :: payloads t
  | _ :: t => payloads t
  end.
End Packet.

Arguments p_mode {P} p.
Arguments p_bs {P} p.
Arguments p_msz {P} p.
Arguments p_seq {P} p.
Arguments p_kex {P} p.
Arguments p_sdctr {P} p.
Arguments p_z {P} p.
Arguments Plain {P}.
Arguments Classic {P} c k.
Arguments Etm {P} c k.
Arguments Aead {P} k iv.
Arguments OMsg {P} payload rnd.
Arguments OKey {P} ms mr bs msz sdctr zs zr.
Arguments OReset {P}.
Arguments TRekey {P} s.
Arguments TOther {P} x.

(* ---- laws of the primitives (premises of the theorems; DESIGN.md section 5) ---- *)
(* `cinv bs se sd`: sd is the decryption context matching encryption context se of a cipher
   with block size bs (same key, same IV / counter / chaining position) *)
Record prims_ok (P : prims) (cinv : Z -> cst P -> cst P -> Prop)
       (zinv : zst P -> zst P -> Prop) : Prop := {
  enc_len : forall s x, length (fst (c_enc P s x)) = length x;
  dec_len : forall s x, length (fst (c_dec P s x)) = length x;
  enc_bytes : forall s x, bytes_ok x = true -> bytes_ok (fst (c_enc P s x)) = true;
  (* a decryptor started like the encryptor inverts it and stays matched *)
  dec_enc : forall bs se sd x, cinv bs se sd -> bytes_ok x = true -> zlen x mod bs = 0 ->
      fst (c_dec P sd (fst (c_enc P se x))) = x /\
      cinv bs (snd (c_enc P se x)) (snd (c_dec P sd (fst (c_enc P se x))));
  (* update(x ++ y) = update(x) ++ update(y) with threaded state on block boundaries *)
  dec_split : forall bs se sd x y, cinv bs se sd -> zlen x mod bs = 0 ->
      c_dec P sd (x ++ y) =
      (fst (c_dec P sd x) ++ fst (c_dec P (snd (c_dec P sd x)) y),
       snd (c_dec P (snd (c_dec P sd x)) y));
  aead_dec_enc : forall k iv p aad, bytes_ok p = true ->
      a_dec P k iv (a_enc P k iv p aad) aad = Some p;
  aead_len : forall k iv p aad, zlen (a_enc P k iv p aad) = zlen p + 16;
  comp_bytes : forall z x, bytes_ok x = true -> bytes_ok (fst (z_comp P z x)) = true;
  (* the decompressor tracks the compressor and inverts it *)
  decomp_comp : forall zs zd x, zinv zs zd -> bytes_ok x = true ->
      exists zd', z_decomp P zd (fst (z_comp P zs x)) = Ok (x, zd') /\
                  zinv (snd (z_comp P zs x)) zd'
}.

(* sender state s and receiver state r are keyed alike and in step *)
Definition mode_sync {P} (cinv : Z -> cst P -> cst P -> Prop) (bs msz : Z) (ms mr : mode P) : Prop :=
  match ms, mr with
  | Plain, Plain => msz = 0
  | Classic se k, Classic sd k' => k = k' /\ cinv bs se sd /\ (forall m, zlen (mac_tag P k msz m) = msz)
  | Etm se k, Etm sd k' => k = k' /\ cinv bs se sd /\ (forall m, zlen (mac_tag P k msz m) = msz)
  | Aead k iv, Aead k' iv' => k = k' /\ iv = iv' /\ msz = 16
  | _, _ => False
  end.
Definition z_sync {P} (zinv : zst P -> zst P -> Prop) (zs zr : option (zst P)) : Prop :=
  match zs, zr with
  | None, None => True
  | Some a, Some b => zinv a b
  | _, _ => False
  end.
Definition sync {P} cinv zinv (s r : pstate P) : Prop :=
  p_bs s = p_bs r /\ p_msz s = p_msz r /\ p_seq s = p_seq r /\ p_kex s = p_kex r /\
  8 <= p_bs s /\ 0 <= p_msz s /\ 0 <= p_seq s < 2 ^ 32 /\
  mode_sync cinv (p_bs s) (p_msz s) (p_mode s) (p_mode r) /\
  z_sync zinv (p_z s) (p_z r).

(* well-formed op lists: byte payloads, non-empty messages, matched new keys *)
Fixpoint ops_ok {P} cinv zinv (ops : list (op P)) : Prop :=
  match ops with
  | [] => True
  | OMsg p rnd :: t => p <> [] /\ bytes_ok p = true /\ bytes_ok rnd = true /\ ops_ok cinv zinv t
  | OKey ms mr bs msz _ zs zr :: t =>
      8 <= bs /\ 0 <= msz /\ mode_sync cinv bs msz ms mr /\ z_sync zinv zs zr /\ ops_ok cinv zinv t
  | OReset :: t => ops_ok cinv zinv t
  end.

Definition strict_prefix (q c : list Z) : Prop := exists t, t <> [] /\ c = q ++ t.

(* ======================================================================== *)
(* Toy primitives, identical to harness/c01.py (class ToyCipher, toy_hash, ToyAead, ToyZ) *)

(* byte-wise chained cipher: c_i = p_i + w_0 + key (mod 256), window w := tl w ++ [c_i] *)
Fixpoint tenc (key : Z) (win l : list Z) : list Z * list Z :=
  match l with
  | [] => ([], win)
  | p :: r => let c := (p + hd 0 win + key) mod 256 in
              let '(o, w) := tenc key (tl win ++ [c]) r in (c :: o, w)
  end.
Fixpoint tdec (key : Z) (win l : list Z) : list Z * list Z :=
  match l with
  | [] => ([], win)
  | c :: r => let p := (c - hd 0 win - key) mod 256 in
              let '(o, w) := tdec key (tl win ++ [c]) r in (p :: o, w)
  end.
Definition toy_enc (s : Z * list Z) (l : list Z) : list Z * (Z * list Z) :=
  let '(o, w) := tenc (fst s) (snd s) l in (o, (fst s, w)).
Definition toy_dec (s : Z * list Z) (l : list Z) : list Z * (Z * list Z) :=
  let '(o, w) := tdec (fst s) (snd s) l in (o, (fst s, w)).

(* 8-byte toy hash with block_size 16, run through Python's real hmac.HMAC *)
Definition th_step (h : Z * Z) (b : Z) : Z * Z :=
  let h1 := (fst h * 31 + b + 1) mod 2 ^ 32 in
  (h1, (snd h * 17 + h1 + b) mod 2 ^ 32).
Definition toy_hash (l : list Z) : list Z :=
  let h := fold_left th_step l (7, 13) in be_encode 4 (fst h) ++ be_encode 4 (snd h).
Definition toy_hmac (key : list Z) (m : list Z) : list Z :=
  let k0 := if 16 <? zlen key then toy_hash key else key in
  let kp := k0 ++ repeat 0 (16 - length k0) in
  toy_hash (map (Z.lxor 92) kp ++ toy_hash (map (Z.lxor 54) kp ++ m)).

(* toy AEAD: additive keystream from (key, iv), 16-byte keyed checksum over iv, aad, ct *)
Definition ta_ivv (iv : list Z) : Z := fold_left (fun a b => (a * 3 + b) mod 65521) iv 0.
Fixpoint ta_stream (sign k i : Z) (l : list Z) : list Z :=
  match l with
  | [] => []
  | p :: r => ((p + sign * (k + 7 * i)) mod 256) :: ta_stream sign k (i + 1) r
  end.
Fixpoint ta_tagbytes (n : nat) (acc : Z) : list Z :=
  match n with
  | O => []
  | Datatypes.S m => be_encode 4 acc ++ ta_tagbytes m ((acc * 1103515245 + 12345) mod 2 ^ 32)
  end.
Definition ta_tag (key : Z) (iv aad ct : list Z) : list Z :=
  ta_tagbytes 4 (fold_left (fun a b => (a * 33 + b + key + 1) mod 2 ^ 32) (iv ++ aad ++ ct) 5381).
Definition toy_aenc (key : Z) (iv p aad : list Z) : list Z :=
  let ct := ta_stream 1 (key + ta_ivv iv) 0 p in ct ++ ta_tag key iv aad ct.
Definition toy_adec (key : Z) (iv c aad : list Z) : option (list Z) :=
  if zlen c <? 16 then None else
  let n := (length c - 16)%nat in
  let ct := firstn n c in
  if zlist_eqb (skipn n c) (ta_tag key iv aad ct)
  then Some (ta_stream (-1) (key + ta_ivv iv) 0 ct) else None.

(* toy compressor with per-stream counter *)
Definition toy_comp (z : Z) (l : list Z) : list Z * Z :=
  ((z mod 256) :: map (fun b => (b + z) mod 256) l, z + 1).
Definition toy_decomp (z : Z) (l : list Z) : result (list Z * Z) :=
  match l with
  | [] => Raise (LibExc 3)
  | b :: r => if b =? z mod 256 then Ok (map (fun b => (b - z) mod 256) r, z + 1)
              else Raise (LibExc 3)
  end.

Definition toyP : prims :=
  {| cst := Z * list Z; c_enc := toy_enc; c_dec := toy_dec;
     mkey := list Z; hmac := toy_hmac;
     akey := Z; a_enc := toy_aenc; a_dec := toy_adec;
     zst := Z; z_comp := toy_comp; z_decomp := toy_decomp |}.

(* ---- executable entry points for the correspondence run ----------------------- *)
(* engine configuration as the harness writes it:
   Cfg modeid bs msz ckey civ mkey akey iv sdctr comp      (modeid 0 plain 1 classic 2 etm 3 aead) *)
Inductive tcfg := Cfg (modeid bs msz ckey : Z) (civ mk : list Z) (ak : Z) (iv : list Z)
                      (sdctr : bool) (comp : option Z).

Definition cfg_mode (c : tcfg) : mode toyP :=
  let '(Cfg modeid _ _ ckey civ mk ak iv _ _) := c in
  if modeid =? 1 then @Classic toyP (ckey, civ) mk
  else if modeid =? 2 then @Etm toyP (ckey, civ) mk
  else if modeid =? 3 then @Aead toyP ak iv
  else Plain.
Definition cfg_apply (s : pstate toyP) (c : tcfg) : pstate toyP :=
  let '(Cfg _ bs msz _ _ _ _ _ sdctr comp) := c in
  set_cipher toyP s (cfg_mode c) bs msz sdctr comp.
Definition init_state (seq : Z) (kex : bool) : pstate toyP :=
  {| p_mode := Plain; p_bs := 8; p_msz := 0; p_seq := seq; p_kex := kex;
     p_sdctr := false; p_z := None |}.

Definition enc_fin (f : fin) : list Z :=
  match f with FNeed => [-1] | FErr e => [-2; exn_code e] | FFuel => [-3] end.
Definition enc_list (l : list Z) : list Z := zlen l :: l.

(* split a flat byte list into chunks of the given sizes (the rest is the last chunk) *)
Fixpoint chunk (sizes : list Z) (l : list Z) : list (list Z) :=
  match l with
  | [] => []
  | _ => match sizes with
         | [] => [l]
         | n :: t => let k := Z.to_nat (Z.max 1 (Z.min n (zlen l))) in
                     firstn k l :: chunk t (skipn k l)
         end
  end.

Fixpoint send_many (s : pstate toyP) (msgs : list (list Z * list Z))
  : list (list Z) * option exn * pstate toyP :=
  match msgs with
  | [] => ([], None, s)
  | (p, rnd) :: t =>
      match send_message toyP s p rnd with
      | Raise e => ([], Some e, s)
      | Ok (w, s') => let '(ws, e, sf) := send_many s' t in (w :: ws, e, sf)
      end
  end.

(* an epoch: optional new keys, optional seqno reset, messages, read fragmentation *)
Definition epoch := (option tcfg * bool * list (list Z * list Z) * list Z)%type.

Fixpoint run_epochs (s r : pstate toyP) (es : list epoch) : list Z :=
  match es with
  | [] => []
  | (oc, rst, msgs, sizes) :: t =>
      let s1 := match oc with Some c => cfg_apply s c | None => s end in
      let r1 := match oc with Some c => cfg_apply r c | None => r end in
      let s2 := if rst then reset_seqno toyP s1 else s1 in
      let r2 := if rst then reset_seqno toyP r1 else r1 in
      let '(ws, e, s3) := send_many s2 msgs in
      let wire := concat ws in
      let '(ps, _, fi, r3, _) :=
          read_many_sock toyP (Datatypes.S (length wire)) r2 (chunk sizes wire) in
      [-10] ++ flat_map enc_list ws
      ++ match e with Some x => [-12; exn_code x] | None => [] end
      ++ [-11] ++ flat_map enc_list ps ++ enc_fin fi
      ++ match e, fi with
         | None, FNeed => run_epochs s3 r3 t
         | _, _ => []
         end
  end.

(* C01 correspondence: (seq0, initial_kex_done, epochs) *)
Definition run_session (c : Z * bool * list epoch) : list Z :=
  let '(seq, kex, es) := c in run_epochs (init_state seq kex) (init_state seq kex) es.

(* C02 correspondence: a receiver keyed by cfg reads an arbitrary (tampered) chunked stream *)
Definition run_recv (c : Z * bool * tcfg * list (list Z)) : list Z :=
  let '(seq, kex, cfg, sock) := c in
  let '(ps, _, fi, _, _) :=
      read_many_sock toyP (Datatypes.S (length (concat sock))) (cfg_apply (init_state seq kex) cfg) sock in
  flat_map enc_list ps ++ enc_fin fi.

(* C01 correspondence with socket timeouts and a pending re-key:
   (seq, kex, cfg, need_rekey, events) -> delivered messages, [-4; rekey notices], fin *)
Definition run_recv_t (c : Z * bool * tcfg * bool * list sev) : list Z :=
  let '(seq, kex, cfg, nr, sock) := c in
  let '(ps, _, k, fi, _, _) :=
      read_many_t toyP nr (Datatypes.S (length sock + length (sdata sock)))
                  (cfg_apply (init_state seq kex) cfg) sock in
  flat_map enc_list ps ++ [-4; k] ++ enc_fin fi.

(* C01 send side: (packet bytes, socket events) -> bytes on the wire, 0 returned / 1 EOFError *)
Definition run_write (c : list Z * list wev) : list Z :=
  let '(w, ok) := write_all (fst c) 0 (snd c) [] in enc_list w ++ [if ok then 0 else 1].

Definition run_cteq (c : list Z * list Z) : list Z :=
  [if constant_time_bytes_eq (fst c) (snd c) then 1 else 0].
