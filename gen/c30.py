"""C30 / C29 translator: SFTP packet-type and status-code numbers, the key set of CMD_NAMES (the
debug-log lookup at the top of SFTPServer._process raises KeyError outside it), the length of
SFTP_DESC, and the numeric constants of the pipelined-write / bulk-transfer code
(SFTPFile.MAX_REQUEST_SIZE, BufferedFile._DEFAULT_BUFSIZE, the `len(self._reqs) > N` drain
threshold of SFTPFile._write, the read size of _transfer_with_callback).

Fail closed: anything not found exactly once raises, and the check reports a broken obligation.
"""
import ast
import os
import re


class Shape(Exception):
    pass


def _one(pattern, text, what):
    m = re.findall(pattern, text)
    if len(m) != 1:
        raise Shape("%s: expected exactly one match of %r, found %d" % (what, pattern, len(m)))
    return m[0]


def _module_consts(path):
    """Evaluate the top-level tuple/range and simple integer assignments of paramiko/sftp.py (AST only)."""
    tree = ast.parse(open(path).read())
    env = {}
    for node in tree.body:
        if not isinstance(node, ast.Assign) or len(node.targets) != 1:
            continue
        tgt, val = node.targets[0], node.value
        if isinstance(tgt, ast.Name) and isinstance(val, ast.Constant) and isinstance(val.value, int):
            env[tgt.id] = val.value
        elif isinstance(tgt, ast.Tuple) and isinstance(val, ast.Call) and getattr(val.func, "id", None) == "range":
            args = [a.value for a in val.args if isinstance(a, ast.Constant)]
            if len(args) != len(val.args):
                raise Shape("range() with non-constant arguments")
            vals = list(range(*args))
            names = [e.id for e in tgt.elts]
            if len(names) != len(vals):
                raise Shape("tuple assignment arity mismatch: %s" % names)
            env.update(zip(names, vals))
        elif isinstance(tgt, ast.Name) and tgt.id == "SFTP_DESC" and isinstance(val, ast.List):
            env["__desc_len"] = len(val.elts)
        elif isinstance(tgt, ast.Name) and tgt.id == "CMD_NAMES" and isinstance(val, ast.Dict):
            keys = []
            for k in val.keys:
                if not isinstance(k, ast.Name) or k.id not in env:
                    raise Shape("CMD_NAMES key is not a known constant name")
                keys.append(env[k.id])
            env["__cmd_names"] = keys
    return env


def _check_async_request_order(path):
    """SFTPClient._async_request must register the request in _expecting BEFORE the packet is sent (and
    under the lock): the reply may be read by another thread as soon as the request is on the wire, and
    _read_response drops replies to requests it does not expect (Model/C30.v: async_request adds the number
    to c_exp in the same step that makes the reply available)."""
    tree = ast.parse(open(path).read())
    fn = None
    for node in ast.walk(tree):
        if isinstance(node, ast.ClassDef) and node.name == "SFTPClient":
            for m in node.body:
                if isinstance(m, ast.FunctionDef) and m.name == "_async_request":
                    fn = m
    if fn is None:
        raise Shape("SFTPClient._async_request not found")
    regs, sends = [], []
    for node in ast.walk(fn):
        if isinstance(node, ast.Assign):
            for tgt in node.targets:
                if (isinstance(tgt, ast.Subscript) and isinstance(tgt.value, ast.Attribute)
                        and tgt.value.attr == "_expecting"):
                    regs.append(node.lineno)
        if (isinstance(node, ast.Call) and isinstance(node.func, ast.Attribute)
                and node.func.attr == "_send_packet"):
            sends.append(node.lineno)
    if len(regs) != 1 or len(sends) != 1:
        raise Shape("_async_request: expected one _expecting[...] assignment and one _send_packet call, found %d / %d"
                    % (len(regs), len(sends)))
    if not regs[0] < sends[0]:
        raise Shape("_async_request registers the request in _expecting (line %d) after sending it (line %d)"
                    % (regs[0], sends[0]))


NAMES = ["CMD_INIT", "CMD_VERSION", "CMD_OPEN", "CMD_CLOSE", "CMD_READ", "CMD_WRITE", "CMD_LSTAT", "CMD_FSTAT",
         "CMD_SETSTAT", "CMD_FSETSTAT", "CMD_OPENDIR", "CMD_READDIR", "CMD_REMOVE", "CMD_MKDIR", "CMD_RMDIR",
         "CMD_REALPATH", "CMD_STAT", "CMD_RENAME", "CMD_READLINK", "CMD_SYMLINK", "CMD_STATUS", "CMD_HANDLE",
         "CMD_DATA", "CMD_NAME", "CMD_ATTRS", "CMD_EXTENDED", "CMD_EXTENDED_REPLY",
         "SFTP_OK", "SFTP_EOF", "SFTP_NO_SUCH_FILE", "SFTP_PERMISSION_DENIED", "SFTP_FAILURE", "SFTP_BAD_MESSAGE",
         "SFTP_NO_CONNECTION", "SFTP_CONNECTION_LOST", "SFTP_OP_UNSUPPORTED"]


def generate(repo):
    env = _module_consts(os.path.join(repo, "paramiko", "sftp.py"))
    for n in NAMES + ["__desc_len", "__cmd_names"]:
        if n not in env:
            raise Shape("constant %s not found in paramiko/sftp.py" % n)
    sf = open(os.path.join(repo, "paramiko", "sftp_file.py")).read()
    fl = open(os.path.join(repo, "paramiko", "file.py")).read()
    sc = open(os.path.join(repo, "paramiko", "sftp_client.py")).read()
    mrs = int(
              _one(r"(?m)^\s*MAX_REQUEST_SIZE\s*=\s*(\d+)\s*$", sf, "SFTPFile.MAX_REQUEST_SIZE"))
    thr = int(_one(r"len\(self\._reqs\)\s*>\s*(\d+)\s+and\s+self\.sftp\.sock\.recv_ready\(\)", sf,
                   "drain threshold in SFTPFile._write"))
    buf = int(_one(r"(?m)^\s*_DEFAULT_BUFSIZE\s*=\s*(\d+)\s*$", fl, "BufferedFile._DEFAULT_BUFSIZE"))
    rd = int(_one(r"data\s*=\s*reader\.read\((\d+)\)", sc, "read size in _transfer_with_callback"))
    # putfo opens the remote file unbuffered: self.file(remotepath, "wb") and _set_mode: bufsize < 0 -> 0
    _one(r'with\s+self\.file\(remotepath,\s*"wb"\)\s+as\s+fr:', sc, "putfo opens with self.file(remotepath, \"wb\")")
    _one(r"if\s+bufsize\s*<\s*0:\s*(?:#[^\n]*\s*)*bufsize\s*=\s*0\s*\n", fl, "_set_mode maps bufsize < 0 to 0 (unbuffered)")
    sh = open(os.path.join(repo, "paramiko", "sftp_handle.py")).read()
    sv = open(os.path.join(repo, "paramiko", "sftp_server.py")).read()
    batch = int(_one(r"fnlist\s*=\s*self\.__files\[:(\d+)\]", sh, "directory batch size in SFTPHandle._get_next_files"))
    batch2 = int(_one(r"self\.__files\s*=\s*self\.__files\[(\d+):\]", sh, "directory batch advance in _get_next_files"))
    if batch != batch2:
        raise Shape("_get_next_files takes %d entries but advances by %d" % (batch, batch2))
    minblock = int(_one(r"if\s+block_size\s*<\s*(\d+):", sv, "minimum block size in SFTPServer._check_file"))
    _check_async_request_order(os.path.join(repo, "paramiko", "sftp_client.py"))
    out = ["(* GENERATED by gen/c30.py from paramiko/sftp.py, sftp_file.py, file.py, sftp_client.py - do not edit. *)",
           "From Coq Require Import ZArith List.", "Import ListNotations.", "Open Scope Z_scope."]
    for n in NAMES:
        out.append("Definition g_%s : Z := %d." % (n, env[n]))
    out.append("Definition g_cmd_names : list Z := [%s]." % "; ".join(str(k) for k in env["__cmd_names"]))
    out.append("Definition g_desc_len : Z := %d." % env["__desc_len"])
    out.append("Definition g_MAX_REQUEST_SIZE : Z := %d." % mrs)
    out.append("Definition g_DRAIN_THRESHOLD : Z := %d." % thr)
    out.append("Definition g_DEFAULT_BUFSIZE : Z := %d." % buf)
    out.append("Definition g_TRANSFER_READ : Z := %d." % rd)
    out.append("Definition g_READDIR_BATCH : Z := %d." % batch)
    out.append("Definition g_CF_MIN_BLOCK : Z := %d." % minblock)
    return {"C30_gen.v": "\n".join(out) + "\n"}
