(* C03 -- proofs.  All statements are about the definitions of Gen/C03_gen.v (translated from the
   source on every run) through the thin wrappers of Model/C03.v. *)
From Coq Require Import ZArith List Bool Lia ZifyBool.
From Coq Require Import String.
From PV Require Import Bytes C03_gen C03.
Import ListNotations.
Open Scope Z_scope.

Ltac unfold_gen :=
  unfold summary, wire_len, tag_len, mac_len, enc_len, enc_off, aligned_len, align_offset, branch_of,
    packet_len, pad_count, zero_pad, pad_byte, length_field, padding,
    c03_padding, c03_addlen, c03_length_field, c03_pad_byte, c03_padcount_zero, c03_padcount_random,
    c03_zero_padding, c03_enc_offset, c03_aead_aad_len, c03_mac_appended, c03_mac_trunc,
    c03_mac_over_ciphertext, c03_etm_of, c03_mac_size_arg in *.

(* ---- arithmetic core ------------------------------------------------------------------------- *)

Lemma mod0_of_mult x bs k : x = k * bs -> x mod bs = 0.
Proof. intros ->. apply Z_mod_mult. Qed.

(* padding is between 4 and block size + 3, for every payload length and every addlen *)
Lemma padding_range md len :
  0 < m_bs md -> 4 <= padding md len <= m_bs md + 3.
Proof.
  intros Hbs. unfold padding, c03_padding.
  pose proof (Z.mod_pos_bound (len + c03_addlen (m_etm md) (m_aead md)) (m_bs md) Hbs) as Hr.
  lia.
Qed.

(* the pad byte written, and the number of padding bytes appended, are that padding *)
Lemma pad_byte_count md len :
  pad_byte md len = padding md len /\ pad_count md len = padding md len.
Proof. unfold_gen. destruct (m_sdctr md || negb (m_enc md)); lia. Qed.

Lemma pad_byte_range md len :
  0 < m_bs md <= 252 -> 4 <= pad_byte md len <= 255.
Proof.
  intros Hbs. destruct (pad_byte_count md len) as [-> _].
  pose proof (padding_range md len ltac:(lia)). lia.
Qed.

(* length field = 1 (pad byte) + payload + padding, and it counts exactly the rest of the packet *)
Lemma length_field_eq md len :
  length_field md len = 1 + len + padding md len /\ packet_len md len = 4 + length_field md len.
Proof. unfold_gen. destruct (m_sdctr md || negb (m_enc md)); lia. Qed.

(* the length field is left out of the aligned portion exactly for EtM and AEAD *)
Lemma align_offset_eq md :
  align_offset md = if m_etm md || m_aead md then 4 else 0.
Proof. unfold_gen. destruct (m_etm md), (m_aead md); reflexivity. Qed.

(* the aligned (encrypted) portion is a whole number of blocks, at least one *)
Lemma aligned_multiple md len :
  0 < m_bs md ->
  aligned_len md len = ((len + c03_addlen (m_etm md) (m_aead md)) / m_bs md + 1) * m_bs md.
Proof.
  intros Hbs. unfold_gen.
  set (a := if m_etm md || m_aead md then 4 else 8).
  pose proof (Z.div_mod (len + a) (m_bs md) ltac:(lia)) as Hdm.
  set (q := (len + a) / m_bs md) in *. set (r := (len + a) mod m_bs md) in *.
  subst a.
  destruct (m_sdctr md || negb (m_enc md)); destruct (m_etm md), (m_aead md); cbn [orb] in *; lia.
Qed.

Lemma alignment md len : 0 < m_bs md -> aligned_len md len mod m_bs md = 0.
Proof. intros Hbs. eapply mod0_of_mult. apply aligned_multiple. exact Hbs. Qed.

Lemma aligned_at_least_one_block md len :
  0 < m_bs md -> 0 <= len -> m_bs md <= aligned_len md len.
Proof.
  intros Hbs Hlen. rewrite aligned_multiple by exact Hbs.
  assert (Ha : 0 <= len + c03_addlen (m_etm md) (m_aead md))
    by (unfold c03_addlen; destruct (m_etm md || m_aead md); lia).
  pose proof (Z.div_pos _ (m_bs md) Ha Hbs). nia.
Qed.

(* RFC 4253 section 6: multiple of max(8, block size) when 8 divides the block size *)
Lemma alignment_8 md len :
  0 < m_bs md -> m_bs md mod 8 = 0 -> aligned_len md len mod 8 = 0.
Proof.
  intros Hbs H8. rewrite aligned_multiple by exact Hbs.
  apply Z.mod_divide in H8; [|lia]. destruct H8 as [j Hj].
  eapply mod0_of_mult with (k := ((len + c03_addlen (m_etm md) (m_aead md)) / m_bs md + 1) * j).
  rewrite Hj. ring.
Qed.

(* RFC 4253 section 6 minimum packet size 16 where the whole packet is aligned (clear / classic) *)
Lemma min_packet_16 md len :
  0 < m_bs md -> m_bs md mod 8 = 0 -> 0 <= len -> m_etm md || m_aead md = false ->
  16 <= packet_len md len.
Proof.
  intros Hbs H8 Hlen Hm.
  pose proof (alignment_8 md len Hbs H8) as Ha.
  pose proof (padding_range md len Hbs) as Hp.
  destruct (length_field_eq md len) as [HL HP].
  unfold aligned_len in Ha. rewrite align_offset_eq, Hm in Ha.
  apply Z.mod_divide in Ha; [|lia]. destruct Ha as [k Hk].
  lia.
Qed.

(* with the length field excluded (EtM / AEAD) the packet is 4 + at least one block: 12 bytes for an
   8-byte block cipher, i.e. it CAN be shorter than the 16 bytes RFC 4253 section 6 asks for *)
Lemma min_packet_excl md len :
  0 < m_bs md -> 0 <= len -> m_etm md || m_aead md = true -> 4 + m_bs md <= packet_len md len.
Proof.
  intros Hbs Hlen Hm. pose proof (aligned_at_least_one_block md len Hbs Hlen) as Ha.
  unfold aligned_len in Ha. rewrite align_offset_eq, Hm in Ha. lia.
Qed.

Lemma pad_byte_all md len :
  0 < m_bs md <= 252 ->
  4 <= pad_byte md len <= 255 /\ pad_byte md len = padding md len /\ pad_count md len = padding md len.
Proof. intros H. split; [apply pad_byte_range; exact H | apply pad_byte_count]. Qed.

Lemma alignment_all md len :
  0 < m_bs md ->
  aligned_len md len mod m_bs md = 0 /\
  aligned_len md len = packet_len md len - (if m_etm md || m_aead md then 4 else 0).
Proof.
  intros H. split; [apply alignment; exact H|]. unfold aligned_len. rewrite align_offset_eq. reflexivity.
Qed.

(* ---- MAC / tag length -------------------------------------------------------------------------- *)

Lemma tag_len_by_branch md digest atag :
  tag_len md digest atag =
  match branch_of md with
  | BClear => 0
  | BAead => atag
  | BEtm | BClassic => if m_aead md then 0 else Z.min digest (m_mac md)
  end.
Proof. unfold_gen. destruct (m_enc md), (m_etm md), (m_aead md); cbn; lia. Qed.

Lemma tag_len_initial digest atag : tag_len initial_mode digest atag = 0.
Proof. reflexivity. Qed.

(* ---- the generated tables ------------------------------------------------------------------------ *)

Lemma tables_ok_true : tables_ok = true.
Proof. vm_compute. reflexivity. Qed.

Lemma cipher_in_ok c : In c c03_cipher_table -> 8 <= ci_bs c <= 252 /\ ci_bs c mod 8 = 0.
Proof.
  intros Hin. pose proof tables_ok_true as H. unfold tables_ok in H.
  rewrite !andb_true_iff in H. destruct H as [[[H _] _] _].
  rewrite forallb_forall in H. specialize (H c Hin). unfold cipher_ok in H. lia.
Qed.

Lemma mac_in_ok m : In m c03_mac_table -> 0 < ma_size m <= ma_digest m.
Proof.
  intros Hin. pose proof tables_ok_true as H. unfold tables_ok in H.
  rewrite !andb_true_iff in H. destruct H as [[[_ H] _] _].
  rewrite forallb_forall in H. specialize (H m Hin). unfold mac_ok in H. lia.
Qed.

Lemma initial_bs_ok : 8 <= m_bs initial_mode <= 252 /\ m_bs initial_mode mod 8 = 0.
Proof. vm_compute. intuition congruence. Qed.

Lemma initial_flags : m_enc initial_mode = false /\ m_etm initial_mode || m_aead initial_mode = false.
Proof. vm_compute. auto. Qed.

(* the tag that follows a packet has the length the packetizer was configured with (mac_size), which is
   the table's size, or 16 for AEAD -- provided the AEAD engine appends 16 bytes *)
Lemma tag_len_negotiated c m :
  In c c03_cipher_table -> In m c03_mac_table ->
  tag_len (negotiated c m) (ma_digest m) 16 = (if ci_aead c then 16 else ma_size m) /\
  m_mac (negotiated c m) = (if ci_aead c then 16 else ma_size m).
Proof.
  intros Hc Hm. pose proof (mac_in_ok m Hm) as Hs.
  unfold negotiated. unfold_gen. cbn [m_enc m_etm m_aead m_mac m_bs m_sdctr].
  destruct (ci_aead c), (ma_etm m); cbn; lia.
Qed.

(* EtM is used exactly for the -etm MACs with a non-AEAD cipher; the length is excluded exactly then
   or under AEAD *)
Lemma negotiated_offset c m :
  align_offset (negotiated c m) = if ci_aead c || ma_etm m then 4 else 0.
Proof.
  rewrite align_offset_eq. unfold negotiated, c03_etm_of. cbn [m_etm m_aead].
  destruct (ci_aead c), (ma_etm m); reflexivity.
Qed.

(* everything at once for a mode with an admissible block size *)
Lemma frame_ok md len :
  8 <= m_bs md <= 252 -> m_bs md mod 8 = 0 -> 0 <= len ->
  4 <= padding md len <= 255 /\ padding md len <= m_bs md + 3 /\
  pad_byte md len = padding md len /\ pad_count md len = padding md len /\
  length_field md len = 1 + len + padding md len /\
  packet_len md len = 4 + length_field md len /\
  aligned_len md len = packet_len md len - (if m_etm md || m_aead md then 4 else 0) /\
  aligned_len md len mod m_bs md = 0 /\ aligned_len md len mod 8 = 0 /\
  m_bs md <= aligned_len md len.
Proof.
  intros Hbs H8 Hlen.
  pose proof (padding_range md len ltac:(lia)).
  destruct (pad_byte_count md len). destruct (length_field_eq md len).
  pose proof (alignment md len ltac:(lia)). pose proof (alignment_8 md len ltac:(lia) H8).
  pose proof (aligned_at_least_one_block md len ltac:(lia) Hlen).
  pose proof (align_offset_eq md) as Ho.
  repeat split; try lia; try assumption.
  unfold aligned_len. rewrite Ho. reflexivity.
Qed.

Lemma frame_ok_negotiated c m len :
  In c c03_cipher_table -> In m c03_mac_table -> 0 <= len ->
  let md := negotiated c m in
  4 <= padding md len <= 255 /\ padding md len <= ci_bs c + 3 /\
  pad_byte md len = padding md len /\ pad_count md len = padding md len /\
  length_field md len = 1 + len + padding md len /\
  packet_len md len = 4 + length_field md len /\
  aligned_len md len = packet_len md len - (if ci_aead c || ma_etm m then 4 else 0) /\
  aligned_len md len mod ci_bs c = 0 /\ aligned_len md len mod 8 = 0 /\
  ci_bs c <= aligned_len md len /\
  tag_len md (ma_digest m) 16 = (if ci_aead c then 16 else ma_size m) /\
  wire_len md (ma_digest m) 16 len = 4 + length_field md len + (if ci_aead c then 16 else ma_size m).
Proof.
  intros Hc Hm Hlen md.
  destruct (cipher_in_ok c Hc) as [Hbs H8].
  pose proof (frame_ok md len Hbs H8 Hlen) as F.
  destruct (tag_len_negotiated c m Hc Hm) as [Ht _].
  pose proof (negotiated_offset c m) as Ho. rewrite align_offset_eq in Ho.
  fold md in Ho, Ht. change (m_bs md) with (ci_bs c) in F.
  destruct F as (F1 & F2 & F3 & F4 & F5 & F6 & F7 & F8 & F9 & F10).
  rewrite Ho in F7.
  repeat split; try lia; try assumption.
  unfold wire_len. rewrite Ht, F6. reflexivity.
Qed.

Lemma frame_ok_initial len :
  0 <= len ->
  let md := initial_mode in
  4 <= padding md len <= 255 /\
  length_field md len = 1 + len + padding md len /\
  packet_len md len = 4 + length_field md len /\
  packet_len md len mod 8 = 0 /\ 16 <= packet_len md len /\
  forall digest atag, wire_len md digest atag len = packet_len md len.
Proof.
  intros Hlen md. destruct initial_bs_ok as [Hbs H8]. destruct initial_flags as [He Hf].
  pose proof (frame_ok md len Hbs H8 Hlen) as F.
  destruct F as (F1 & F2 & F3 & F4 & F5 & F6 & F7 & F8 & F9 & F10).
  fold md in Hf. rewrite Hf in F7.
  pose proof (min_packet_16 md len ltac:(lia) H8 Hlen Hf).
  repeat split; try lia.
  - replace (packet_len md len) with (aligned_len md len) by lia. exact F9.
  - intros digest atag. unfold wire_len. unfold md. rewrite tag_len_initial. lia.
Qed.

Lemma min_packet_suite c m len :
  In c c03_cipher_table -> In m c03_mac_table -> 0 <= len ->
  (if ci_aead c || ma_etm m then 4 + ci_bs c else 16) <= packet_len (negotiated c m) len.
Proof.
  intros Hc Hm Hlen. destruct (cipher_in_ok c Hc) as [Hbs H8].
  pose proof (negotiated_offset c m) as Ho. rewrite align_offset_eq in Ho.
  destruct (ci_aead c || ma_etm m) eqn:Hx.
  - destruct (m_etm (negotiated c m) || m_aead (negotiated c m)) eqn:Hy; [|discriminate].
    apply (min_packet_excl (negotiated c m) len); [cbn [negotiated m_bs]; lia | exact Hlen | exact Hy].
  - destruct (m_etm (negotiated c m) || m_aead (negotiated c m)) eqn:Hy; [discriminate|].
    apply min_packet_16; [cbn [negotiated m_bs]; lia | exact H8 | exact Hlen | exact Hy].
Qed.

(* ---- the generated tables against the reference meaning of the algorithm names -------------------- *)
Lemma tables_match_rfc_bool :
  forallb mac_matches_rfc c03_mac_table && forallb cipher_matches_rfc c03_cipher_table = true.
Proof. vm_compute. reflexivity. Qed.

Lemma mac_entry_rfc m sz etm :
  In m c03_mac_table -> assoc (ma_name m) rfc_macs = Some (sz, etm) -> ma_size m = sz /\ ma_etm m = etm.
Proof.
  intros Hin Ha. pose proof tables_match_rfc_bool as H. apply andb_true_iff in H. destruct H as [H _].
  rewrite forallb_forall in H. specialize (H m Hin). unfold mac_matches_rfc in H. rewrite Ha in H.
  apply andb_true_iff in H. destruct H as [H1 H2]. apply Z.eqb_eq in H1. apply Bool.eqb_prop in H2. auto.
Qed.

Lemma cipher_entry_rfc c bs aead :
  In c c03_cipher_table -> assoc (ci_name c) rfc_ciphers = Some (bs, aead) -> ci_bs c = bs /\ ci_aead c = aead.
Proof.
  intros Hin Ha. pose proof tables_match_rfc_bool as H. apply andb_true_iff in H. destruct H as [_ H].
  rewrite forallb_forall in H. specialize (H c Hin). unfold cipher_matches_rfc in H. rewrite Ha in H.
  apply andb_true_iff in H. destruct H as [H1 H2]. apply Z.eqb_eq in H1. apply Bool.eqb_prop in H2. auto.
Qed.

(* the tag written for a negotiated suite has the length the RFCs give for the negotiated NAMES *)
Lemma tag_len_rfc c m bs aead sz etm :
  In c c03_cipher_table -> In m c03_mac_table ->
  assoc (ci_name c) rfc_ciphers = Some (bs, aead) -> assoc (ma_name m) rfc_macs = Some (sz, etm) ->
  tag_len (negotiated c m) (ma_digest m) 16 = (if aead then 16 else sz) /\
  ci_bs c = bs /\ align_offset (negotiated c m) = (if aead || etm then 4 else 0).
Proof.
  intros Hc Hm Hac Ham.
  destruct (mac_entry_rfc m sz etm Hm Ham) as [<- <-].
  destruct (cipher_entry_rfc c bs aead Hc Hac) as [<- <-].
  destruct (tag_len_negotiated c m Hc Hm) as [Ht _].
  split; [exact Ht|]. split; [reflexivity|]. apply negotiated_offset.
Qed.

(* ---- byte level ------------------------------------------------------------------------------------ *)
Lemma firstn_app_exact {A} (a b : list A) n : length a = n -> firstn n (a ++ b) = a.
Proof.
  intros <-. rewrite firstn_app, Nat.sub_diag, firstn_all. cbn [firstn]. apply app_nil_r.
Qed.

Section Wire.
  Variable E : engines.
  Variables digest atag : Z.
  Hypothesis cipher_len : forall x, length (e_cipher E x) = length x.
  Hypothesis aead_len : forall x a, Z.of_nat (length (e_aead E x a)) = Z.of_nat (length x) + atag.
  Hypothesis hmac_len : forall x, Z.of_nat (length (e_hmac E x)) = digest.
  Hypothesis rnd_len : forall n, 0 <= n -> Z.of_nat (length (e_rnd E n)) = n.

  Lemma build_packet_shape md payload packet :
    0 < m_bs md ->
    build_packet E md payload = Ok packet ->
    let len := Z.of_nat (length payload) in
    exists pad,
      packet = be_encode 4 (length_field md len) ++ [pad_byte md len] ++ payload ++ pad /\
      Z.of_nat (length pad) = padding md len /\
      0 <= length_field md len < 2 ^ 32 /\ 0 <= pad_byte md len < 256 /\
      Z.of_nat (length packet) = packet_len md len.
  Proof.
    intros Hbs Hb len. unfold build_packet in Hb. fold len in Hb.
    fold (length_field md len) in Hb. fold (pad_byte md len) in Hb.
    destruct (u32_ok (length_field md len) && u8_ok (pad_byte md len)) eqn:Hok; [|discriminate].
    apply andb_true_iff in Hok. destruct Hok as [H32 H8]. unfold u32_ok in H32. unfold u8_ok in H8.
    injection Hb as Hb.
    pose proof (padding_range md len Hbs) as Hp.
    destruct (pad_byte_count md len) as [Hpb Hpc].
    destruct (length_field_eq md len) as [HL HP].
    set (pad := if zero_pad md then repeat 0 (Z.to_nat (c03_padcount_zero (padding md len)))
                else e_rnd E (c03_padcount_random (padding md len))) in *.
    assert (Hpad : Z.of_nat (length pad) = padding md len).
    { unfold pad_count in Hpc. subst pad. destruct (zero_pad md).
      - rewrite repeat_length. lia.
      - rewrite rnd_len; lia. }
    exists pad. subst packet. repeat split; try lia; try reflexivity.
    cbn [length]. rewrite ?app_length, ?be_encode_length. cbn [length]. lia.
  Qed.

  (* the bytes written: total length, clear length prefix, placement of payload *)
  Lemma send_wire_layout md seq payload wire :
    0 < m_bs md -> 0 <= m_mac md ->
    send_wire E md seq payload = Ok wire ->
    let len := Z.of_nat (length payload) in
    Z.of_nat (length wire) = 4 + length_field md len + tag_len md digest atag /\
    Z.of_nat (length wire) = wire_len md digest atag len /\
    (m_enc md = false \/ m_etm md || m_aead md = true ->
       firstn 4 wire = be_encode 4 (length_field md len) /\ be_decode (firstn 4 wire) = length_field md len) /\
    (m_enc md = false ->
       exists pad, wire = be_encode 4 (length_field md len) ++ [padding md len] ++ payload ++ pad /\
                   Z.of_nat (length pad) = padding md len).
  Proof.
    intros Hbs Hmac Hs len. unfold send_wire in Hs.
    destruct (build_packet E md payload) as [packet|e] eqn:Hb; [|discriminate].
    cbn [bind] in Hs.
    destruct (build_packet_shape md payload packet Hbs Hb) as (pad & Hpk & Hpad & HL & HB & Hlenp).
    fold len in Hpk, Hpad, HL, HB, Hlenp.
    destruct (length_field_eq md len) as [HLe HPe].
    destruct (pad_byte_count md len) as [Hpb _].
    pose proof (align_offset_eq md) as Hoff.
    set (off := Z.to_nat (align_offset md)) in *.
    assert (Hsplit : (length (firstn off packet) + length (skipn off packet) = length packet)%nat)
      by (rewrite <- app_length, firstn_skipn; reflexivity).
    set (out := match branch_of md with
                | BClear => packet
                | BAead => firstn off packet ++ e_aead E (skipn off packet)
                                                   (firstn (Z.to_nat c03_aead_aad_len) packet)
                | _ => firstn off packet ++ e_cipher E (skipn off packet)
                end) in *.
    assert (Hout : Z.of_nat (length out) =
                   packet_len md len + match branch_of md with BAead => atag | _ => 0 end).
    { subst out. destruct (branch_of md); rewrite ?app_length, ?cipher_len; try lia.
      rewrite Nat2Z.inj_add, aead_len. lia. }
    set (mac := if c03_mac_appended (m_enc md) (m_aead md)
                then firstn (Z.to_nat (c03_mac_trunc (m_mac md)))
                       (e_hmac E (be_encode 4 seq ++
                                  (if c03_mac_over_ciphertext (m_etm md) then out else packet)))
                else []) in *.
    assert (Hw : out ++ mac = wire) by congruence. clear Hs.
    assert (Hmaclen : Z.of_nat (length mac) = mac_len md digest).
    { subst mac. unfold mac_len. destruct (c03_mac_appended (m_enc md) (m_aead md)); [|reflexivity].
      rewrite firstn_length.
      pose proof (hmac_len (be_encode 4 seq ++
                            (if c03_mac_over_ciphertext (m_etm md) then out else packet))) as Hh.
      unfold c03_mac_trunc in *. lia. }
    assert (Hwl : Z.of_nat (length wire) = wire_len md digest atag len).
    { subst wire. rewrite app_length, Nat2Z.inj_add, Hout, Hmaclen.
      unfold wire_len, tag_len. destruct (branch_of md); lia. }
    (* first four bytes when the length is not encrypted *)
    assert (Hfirst : m_enc md = false \/ m_etm md || m_aead md = true ->
                     firstn 4 wire = be_encode 4 (length_field md len)).
    { intros Hc.
      assert (Hp4 : firstn 4 packet = be_encode 4 (length_field md len)).
      { rewrite Hpk. apply firstn_app_exact. apply be_encode_length. }
      assert (Hl4 : length (firstn 4 packet) = 4%nat) by (rewrite Hp4; apply be_encode_length).
      assert (Hout4 : firstn 4 out = firstn 4 packet).
      { subst out. unfold branch_of. destruct Hc as [Hc|Hc].
        - rewrite Hc. reflexivity.
        - rewrite Hc in Hoff. assert (Ho4 : off = 4%nat) by (subst off; rewrite Hoff; reflexivity).
          rewrite Ho4.
          destruct (negb (m_enc md)); [reflexivity|].
          destruct (m_etm md); [|destruct (m_aead md); [|discriminate]];
            apply firstn_app_exact; exact Hl4. }
      subst wire.
      assert (Hl4o : length (firstn 4 out) = 4%nat) by (rewrite Hout4; exact Hl4).
      rewrite <- (firstn_skipn 4 out), <- app_assoc.
      rewrite firstn_app_exact by exact Hl4o.
      rewrite Hout4. exact Hp4. }
    repeat split.
    - rewrite Hwl. unfold wire_len. lia.
    - exact Hwl.
    - apply Hfirst; assumption.
    - rewrite (Hfirst H). apply be_decode_encode. change (Z.of_nat 4) with 4. lia.
    - intros Hclear. exists pad. split; [|exact Hpad].
      subst wire. subst mac out. unfold branch_of, c03_mac_appended. rewrite Hclear. cbn.
      rewrite Hpk, Hpb. cbn. rewrite app_nil_r. reflexivity.
  Qed.
  (* send_message = type byte read, optional compression, then framing of the compressed data *)
  Lemma send_message_layout comp md seq payload wire :
    0 < m_bs md -> 0 <= m_mac md ->
    send_message E comp md seq payload = Ok wire ->
    payload <> [] /\
    let data := match comp with Some f => f payload | None => payload end in
    let len := Z.of_nat (length data) in
    Z.of_nat (length wire) = 4 + length_field md len + tag_len md digest atag /\
    Z.of_nat (length wire) = wire_len md digest atag len /\
    (m_enc md = false \/ m_etm md || m_aead md = true ->
       firstn 4 wire = be_encode 4 (length_field md len) /\ be_decode (firstn 4 wire) = length_field md len) /\
    (m_enc md = false ->
       exists pad, wire = be_encode 4 (length_field md len) ++ [padding md len] ++ data ++ pad /\
                   Z.of_nat (length pad) = padding md len).
  Proof.
    intros Hbs Hmac Hs. unfold send_message in Hs.
    destruct (Z.of_nat (length payload) <=? c03_type_byte_index) eqn:Hi; [discriminate|].
    split.
    { intros ->. unfold c03_type_byte_index in Hi. cbn in Hi. discriminate. }
    assert (Hf : framed_payload comp payload =
                 Ok (match comp with Some f => f payload | None => payload end)).
    { unfold framed_payload. destruct comp; reflexivity. }
    rewrite Hf in Hs. cbn [bind] in Hs.
    exact (send_wire_layout md seq _ wire Hbs Hmac Hs).
  Qed.

  Lemma send_message_empty comp md seq : send_message E comp md seq [] = Raise IndexErr.
  Proof. reflexivity. Qed.
End Wire.
