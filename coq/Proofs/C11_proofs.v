(* C11 - lemmas over Model/C11.v and the generated discipline table Gen/C11_gen.v *)
From Coq Require Import ZArith List Bool Lia.
From PV Require Import Bytes C11_gen C11.
Import ListNotations.
Open Scope Z_scope.

(* ---- facts about the generated table -------------------------------------------------- *)
Lemma lookup_in : forall p t x, lookup p t = Some x -> In (p, x) t.
Proof.
  induction t as [|[q y] r IH]; simpl; intros x H; [discriminate|].
  destruct (q =? p) eqn:E.
  - inversion H; subst. apply Z.eqb_eq in E. subst. left. reflexivity.
  - right. auto.
Qed.

Definition table_ok : bool :=
  forallb (fun e => forallb (fun t => 50 <=? t) (snd (snd e))) handler_table.
Lemma table_ok_true : table_ok = true.
Proof. vm_compute. reflexivity. Qed.

Lemma reply_types_ge50 : forall p t, In t (reply_types p) -> 50 <= t.
Proof.
  intros p t H. unfold reply_types in H.
  destruct (lookup p handler_table) as [[d l]|] eqn:E; [|contradiction].
  apply lookup_in in E. pose proof table_ok_true as T. unfold table_ok in T.
  rewrite forallb_forall in T. specialize (T _ E). simpl in T.
  rewrite forallb_forall in T. apply T in H. apply Z.leb_le in H. exact H.
Qed.

Lemma keepalive_types_ge50 : forall t, In t keepalive_types -> 50 <= t.
Proof.
  assert (K : forallb (fun t => 50 <=? t) keepalive_types = true) by (vm_compute; reflexivity).
  intros t H. rewrite forallb_forall in K. apply K in H. apply Z.leb_le in H. exact H.
Qed.

Lemma code_locked_false : code_locked = false.
Proof. reflexivity. Qed.

Lemma step_eq : forall s e, step s e = step_gen false true s e.
Proof. intros. unfold step. rewrite code_locked_false. reflexivity. Qed.

(* ---- traces ----------------------------------------------------------------------------- *)
Definition plain (its : list item) : Prop := forall it, In it its -> fst it <> 20 /\ fst it <> 21.

Lemma kstep_plain : forall k it, (fst it =? 20) || (fst it =? 21) = false -> kstep k it = k.
Proof.
  intros k it H. unfold kstep. destruct (fst it =? 20); [discriminate|].
  destruct (fst it =? 21); [discriminate|]. reflexivity.
Qed.

Lemma kf_app : forall a b k, kf k (a ++ b) = kf (kf k a) b.
Proof. induction a as [|x a IH]; simpl; intros; auto. Qed.

Lemma off_app : forall a b k, offenders k (a ++ b) = offenders k a ++ offenders (kf k a) b.
Proof.
  induction a as [|x a IH]; simpl; intros b k; [reflexivity|].
  destruct ((fst x =? 20) || (fst x =? 21)) eqn:E.
  - apply IH.
  - rewrite (kstep_plain k x E). destruct (k && (50 <=? fst x)); simpl; rewrite IH; reflexivity.
Qed.

Lemma plain_cons : forall x l, plain (x :: l) -> (fst x =? 20) || (fst x =? 21) = false /\ plain l.
Proof.
  intros x l H. split.
  - destruct (H x (or_introl eq_refl)) as [A B].
    apply Z.eqb_neq in A. apply Z.eqb_neq in B. rewrite A, B. reflexivity.
  - intros it Hin. apply H. right. exact Hin.
Qed.

Lemma kf_plain : forall its k, plain its -> kf k its = k.
Proof.
  induction its as [|x l IH]; simpl; intros k P; [reflexivity|].
  destruct (plain_cons _ _ P) as [E Pl]. rewrite (kstep_plain k x E). apply IH. exact Pl.
Qed.

Lemma off_plain_false : forall its, plain its -> offenders false its = [].
Proof.
  induction its as [|x l IH]; simpl; intros P; [reflexivity|].
  destruct (plain_cons _ _ P) as [E Pl]. rewrite E. simpl. apply IH. exact Pl.
Qed.

Lemma off_sub : forall its k it, In it (offenders k its) -> In it its /\ 50 <= fst it.
Proof.
  induction its as [|x l IH]; simpl; intros k it H; [contradiction|].
  destruct ((fst x =? 20) || (fst x =? 21)).
  - destruct (IH _ _ H). split; auto.
  - destruct (k && (50 <=? fst x)) eqn:E.
    + destruct H as [H|H].
      * subst. split; [left; reflexivity|]. apply andb_prop in E. destruct E as [_ E].
        apply Z.leb_le in E. exact E.
      * destruct (IH _ _ H). split; auto.
    + destruct (IH _ _ H). split; auto.
Qed.

Lemma nil_of_no_elements : forall {A} (l : list A), (forall x, In x l -> False) -> l = [].
Proof. intros A l H. destruct l as [|x r]; [reflexivity|]. exfalso. apply (H x). left. reflexivity. Qed.

Lemma replies_in : forall p it, In it (replies p) -> snd it = OReply p /\ In (fst it) (reply_types p).
Proof.
  intros p it H. unfold replies in H. apply in_map_iff in H. destruct H as [t [E H]]. subst. simpl. auto.
Qed.

Lemma replies_plain : forall p, plain (replies p).
Proof.
  intros p it H. apply replies_in in H. destruct H as [_ H]. apply reply_types_ge50 in H. lia.
Qed.

Lemma keepalive_plain : plain keepalive_msg.
Proof.
  intros it H. unfold keepalive_msg in H. apply in_map_iff in H. destruct H as [t [E H]]. subst. simpl.
  apply keepalive_types_ge50 in H. lia.
Qed.

Lemma users_plain : forall q, forallb user_ok q = true -> plain (map (fun t => (t, OUser)) q).
Proof.
  intros q H it Hin. apply in_map_iff in Hin. destruct Hin as [t [E Hin]]. subst. simpl.
  rewrite forallb_forall in H. apply H in Hin. unfold user_ok in Hin.
  apply negb_true_iff in Hin. apply orb_false_iff in Hin. destruct Hin as [A B].
  apply Z.eqb_neq in A. apply Z.eqb_neq in B. auto.
Qed.

(* ---- the invariant, parametrised by which handlers / keepalive ticks the environment may trigger -- *)
Section Invariant.
  Variable A : Z -> Prop.      (* inbound types whose reply path may be taken *)
  Variable AK : Prop.          (* keepalive ticks may happen *)

  Definition good_off (it : item) : Prop :=
    exists p, A p /\ snd it = OReply p /\ disc_of p = Ungated /\ In (fst it) (reply_types p).
  Definition blocked_ok (its : list item) : Prop :=
    (exists p, A p /\ disc_of p = Gated /\ its = replies p) \/
    (AK /\ keepalive_disc = Gated /\ its = keepalive_msg).

  Record Inv (s : st) : Prop := mkInv {
    i_kf : kf false (out s) = phase_kex (ph s);
    i_cts : cts s = is_idle (ph s);
    i_off : forall it, In it (offenders false (out s)) -> good_off it;
    i_uq : forallb user_ok (uq s) = true;
    i_ttw : forall its, ttw s = Some its -> cts s = false /\ blocked_ok its;
    i_dead : dead s = true -> ttw s <> None;
    i_lk : lk s = false;
    i_ttl : ttl s = false;
    i_pend : pend s = false }.

  Definition ev_ok (e : ev) : Prop :=
    match e with
    | Recv p w => w = true -> disc_of p <> NoReply -> A p
    | KeepTick => AK
    | _ => True
    end.

  Lemma inv_init : forall keep, Inv (init_st keep).
  Proof.
    intros keep. constructor; simpl; auto; try discriminate. intros it H; contradiction.
  Qed.

  Lemma idle_kf_false : forall s, Inv s -> cts s = true -> kf false (out s) = false.
  Proof.
    intros s I C. rewrite (i_kf s I). rewrite (i_cts s I) in C. destruct (ph s); simpl in *; auto; discriminate.
  Qed.

  Lemma inv_emit : forall s its, Inv s -> plain its ->
    (cts s = true \/ forall it, In it its -> good_off it) -> Inv (emit s its).
  Proof.
    intros s its I P H. constructor; simpl.
    - rewrite kf_app, (kf_plain its _ P). apply (i_kf s I).
    - apply (i_cts s I).
    - intros it Hin. rewrite off_app in Hin. apply in_app_or in Hin. destruct Hin as [Hin|Hin].
      + apply (i_off s I). exact Hin.
      + destruct H as [C|G].
        * rewrite (idle_kf_false s I C), (off_plain_false its P) in Hin. contradiction.
        * apply off_sub in Hin. apply G. tauto.
    - apply (i_uq s I).
    - apply (i_ttw s I).
    - apply (i_dead s I).
    - apply (i_lk s I).
    - apply (i_ttl s I).
    - apply (i_pend s I).
  Qed.

  Lemma inv_set_lk : forall s l, Inv s -> l = false -> Inv (set_lk s l).
  Proof. intros s l I H. destruct I. constructor; simpl; auto. Qed.

  Lemma inv_set_uq : forall s q, Inv s -> forallb user_ok q = true -> Inv (set_uq s q).
  Proof. intros s q I H. destruct I. constructor; simpl; auto. Qed.

  Lemma inv_set_need : forall s n, Inv s -> Inv (set_need s n).
  Proof. intros s n I. destruct I. constructor; simpl; auto. Qed.

  Lemma inv_kill : forall s its, Inv s -> ttw s = Some its -> Inv (kill s).
  Proof. intros s its I H. destruct I. constructor; simpl; auto. intros _. rewrite H. discriminate. Qed.

  Lemma inv_block : forall s its, Inv s -> cts s = false -> blocked_ok its -> Inv (block s its).
  Proof.
    intros s its I C B. destruct I. constructor; simpl; auto.
    - intros its' E. inversion E; subst. auto.
    - intros _. discriminate.
  Qed.

  Lemma inv_phase : forall s P its, Inv s -> ttw s = None ->
    kf (phase_kex (ph s)) its = phase_kex P ->
    offenders (phase_kex (ph s)) its = [] ->
    Inv (emit (set_phase s P (is_idle P)) its).
  Proof.
    intros s P its I T K O. constructor; simpl.
    - rewrite kf_app, (i_kf s I). exact K.
    - reflexivity.
    - intros it Hin. rewrite off_app, (i_kf s I), O, app_nil_r in Hin. apply (i_off s I). exact Hin.
    - apply (i_uq s I).
    - rewrite T. discriminate.
    - intros D. apply (i_dead s I) in D. contradiction.
    - apply (i_lk s I).
    - apply (i_ttl s I).
    - apply (i_pend s I).
  Qed.

  Lemma free_none : forall s, tt_free s = true -> ttw s = None.
  Proof. intros s H. unfold tt_free in H. destruct (ttw s); [discriminate|reflexivity]. Qed.

  Lemma idle_free : forall s, Inv s -> is_idle (ph s) = true -> ttw s = None.
  Proof.
    intros s I H. destruct (ttw s) as [its|] eqn:T; [|reflexivity].
    destruct (i_ttw s I its T) as [C _]. rewrite (i_cts s I), H in C. discriminate.
  Qed.

  Lemma inv_kexinit : forall s, Inv s -> is_idle (ph s) = true -> Inv (kexinit s).
  Proof.
    intros s I H. unfold kexinit.
    apply (inv_phase s SentKexinit [(20, OKex)] I (idle_free s I H)).
    - destruct (ph s); try discriminate. reflexivity.
    - reflexivity.
  Qed.

  Lemma inv_gate_tt : forall s its, Inv s -> plain its -> blocked_ok its -> Inv (gate_tt s its).
  Proof.
    intros s its I P B. unfold gate_tt. destruct (cts s) eqn:C.
    - apply inv_emit; auto.
    - apply inv_block; auto.
  Qed.

  Lemma inv_recv : forall s p w, Inv s -> ttw s = None -> ev_ok (Recv p w) -> Inv (recv true s p w).
  Proof.
    intros s p w I T OK. unfold recv.
    destruct (p =? 20).
    { destruct (ph s) eqn:E; try exact I.
      - apply (inv_phase s InKex [(20, OKex); (30, OKex)] I T); rewrite E; reflexivity.
      - apply (inv_phase s InKex [(30, OKex)] I T); rewrite E; reflexivity. }
    destruct ((30 <=? p) && (p <=? 49)).
    { destruct (ph s) eqn:E; try exact I.
      apply (inv_phase s SentNewkeys [(21, OKex)] I T); rewrite E; reflexivity. }
    destruct (p =? 21).
    { destruct (ph s) eqn:E; try exact I.
      apply inv_set_need. pose proof (i_kf s I) as K. rewrite E in K. simpl in K.
      constructor; simpl; auto.
      - apply (i_off s I).
      - apply (i_uq s I).
      - rewrite T. discriminate.
      - intros D. apply (i_dead s I) in D. contradiction.
      - apply (i_lk s I).
      - apply (i_ttl s I).
      - apply (i_pend s I). }
    rewrite (i_lk s I), andb_false_r.
    destruct w; [|exact I].
    simpl in OK. destruct (disc_of p) eqn:D; [exact I| |].
    - apply inv_emit; auto using replies_plain. right. intros it Hin.
      apply replies_in in Hin. destruct Hin as [O Hin]. exists p. repeat split; auto.
      apply OK; [reflexivity|discriminate].
    - apply inv_gate_tt; auto using replies_plain. left. exists p. repeat split; auto.
      apply OK; [reflexivity|discriminate].
  Qed.

  Lemma inv_step : forall s e, Inv s -> ev_ok e -> Inv (step_gen false true s e).
  Proof.
    intros s e I OK. unfold step_gen. destruct (dead s); [exact I|].
    destruct e.
    - destruct (user_ok t) eqn:U; [|exact I]. destruct (cts s) eqn:C.
      + apply inv_emit; auto.
        intros it [H|[]]. subst. simpl. unfold user_ok in U. apply negb_true_iff in U.
        apply orb_false_iff in U. destruct U as [U1 U2]. apply Z.eqb_neq in U1. apply Z.eqb_neq in U2. auto.
      + apply inv_set_uq; auto. rewrite forallb_app, (i_uq s I). simpl. rewrite U. reflexivity.
    - destruct (user_ok t) eqn:U; [|exact I]. destruct (cts s) eqn:C.
      + apply inv_emit; auto.
        intros it [H|[]]. subst. simpl. unfold user_ok in U. apply negb_true_iff in U.
        apply orb_false_iff in U. destruct U as [U1 U2]. apply Z.eqb_neq in U1. apply Z.eqb_neq in U2. auto.
      + apply inv_set_uq; auto. rewrite forallb_app, (i_uq s I). simpl. rewrite U. reflexivity.
    - destruct (uq s) as [|t r] eqn:Q; [exact I|]. destruct (cts s) eqn:C; [|exact I].
      pose proof (i_uq s I) as U. rewrite Q in U. simpl in U. apply andb_prop in U. destruct U as [U1 U2].
      apply inv_emit.
      + apply inv_set_lk; [apply inv_set_uq; auto|]. simpl. rewrite (i_lk s I). reflexivity.
      + intros it [H|[]]. subst. simpl. unfold user_ok in U1. apply negb_true_iff in U1.
        apply orb_false_iff in U1. destruct U1 as [V1 V2]. apply Z.eqb_neq in V1. apply Z.eqb_neq in V2. auto.
      + left. exact C.
    - destruct (is_idle (ph s)) eqn:H; [|exact I]. apply inv_kexinit; auto.
    - apply inv_set_need. exact I.
    - destruct (tt_free s) eqn:F; [|exact I].
      destruct (need s && is_idle (ph s)) eqn:H; [|exact I].
      apply andb_prop in H. destruct H as [_ H]. apply inv_kexinit; auto.
    - destruct (tt_free s) eqn:F; [|exact I]. apply inv_recv; auto using free_none.
    - destruct (tt_free s) eqn:F; [|exact I].
      destruct (ka s && negb (keepalive_need_guard && need s)); [|exact I].
      simpl in OK. destruct keepalive_disc eqn:D; [exact I| |].
      + discriminate D.
      + apply inv_gate_tt; auto using keepalive_plain. right. auto.
    - rewrite (i_pend s I). exact I.
    - destruct (ttw s) as [its|] eqn:T; [|exact I]. apply (inv_kill s its); auto.
  Qed.

  Lemma inv_run : forall evs s, Inv s -> Forall ev_ok evs -> Inv (run s evs).
  Proof.
    induction evs as [|e r IH]; simpl; intros s I F; [exact I|].
    inversion F; subst. apply IH; auto. rewrite step_eq. apply inv_step; auto.
  Qed.
End Invariant.

(* ---- instance 1: the environment may do anything -------------------------------------------- *)
Definition AnyP (p : Z) : Prop := True.

Lemma ev_ok_any : forall evs, Forall (ev_ok AnyP True) evs.
Proof.
  induction evs as [|e r IH]; constructor; auto. destruct e; simpl; unfold AnyP; auto.
Qed.

Lemma reach_inv : forall keep evs, Inv AnyP True (run (init_st keep) evs).
Proof. intros. apply inv_run; [apply inv_init|apply ev_ok_any]. Qed.

(* every message >= 50 emitted between own KEXINIT and own NEWKEYS is a reply built by a handler the
   generated table marks Ungated *)
Lemma offenders_are_ungated_replies :
  forall keep evs it, In it (offenders false (out (run (init_st keep) evs))) ->
    exists p, snd it = OReply p /\ disc_of p = Ungated /\ In (fst it) (reply_types p).
Proof.
  intros keep evs it H. destruct (i_off _ _ _ (reach_inv keep evs) it H) as [p [_ G]]. exists p. exact G.
Qed.

Lemma user_sends_gated :
  forall keep evs it, In it (offenders false (out (run (init_st keep) evs))) ->
    snd it <> OUser /\ snd it <> OKeepalive /\ snd it <> OKex.
Proof.
  intros keep evs it H. destruct (offenders_are_ungated_replies keep evs it H) as [p [E _]].
  rewrite E. repeat split; discriminate.
Qed.

(* the transport thread waits on the flag only inside a Gated handler (or the keepalive tick) and only
   while the flag is clear *)
Lemma tt_blocks_only_gated :
  forall keep evs its, ttw (run (init_st keep) evs) = Some its ->
    cts (run (init_st keep) evs) = false /\
    ((exists p, disc_of p = Gated /\ its = replies p) \/ (keepalive_disc = Gated /\ its = keepalive_msg)).
Proof.
  intros keep evs its H. destruct (i_ttw _ _ _ (reach_inv keep evs) its H) as [C B]. split; [exact C|].
  destruct B as [[p [_ B]]|[_ B]]; [left; exists p; exact B|right; exact B].
Qed.

(* once it waits nothing is ever emitted again and nobody sets the flag: only the timeout ends it *)
Lemma stuck_step : forall s e its, Inv AnyP True s -> ttw s = Some its ->
  let s' := step s e in out s' = out s /\ cts s' = false /\ ttw s' = Some its /\ ph s' = ph s.
Proof.
  intros s e its I T. destruct (i_ttw _ _ _ I its T) as [C _].
  assert (NI : is_idle (ph s) = false) by (rewrite <- (i_cts _ _ _ I); exact C).
  rewrite step_eq. unfold step_gen. destruct (dead s); [simpl; auto|].
  destruct e; simpl; unfold tt_free; rewrite ?T, ?C, ?NI, ?(i_pend _ _ _ I); simpl; auto.
  - destruct (user_ok t); simpl; auto.
  - destruct (user_ok t); simpl; auto.
  - destruct (uq s); simpl; auto.
Qed.

Lemma stuck_forever : forall evs s its, Inv AnyP True s -> ttw s = Some its ->
  out (run s evs) = out s /\ cts (run s evs) = false /\ ttw (run s evs) = Some its.
Proof.
  induction evs as [|e r IH]; simpl; intros s its I T.
  - destruct (i_ttw _ _ _ I its T) as [C _]. auto.
  - destruct (stuck_step s e its I T) as [O [C [T' _]]].
    assert (I' : Inv AnyP True (step s e)).
    { rewrite step_eq. apply inv_step; auto. destruct e; simpl; unfold AnyP; auto. }
    destruct (IH (step s e) its I' T') as [O2 [C2 T2]]. rewrite O2, O. auto.
Qed.

Lemma blocked_transport_never_released :
  forall keep evs0 its evs, let s := run (init_st keep) evs0 in
    ttw s = Some its ->
    out (run s evs) = out s /\ cts (run s evs) = false /\ ttw (run s evs) = Some its.
Proof. intros keep evs0 its evs s T. apply stuck_forever; auto. apply reach_inv. Qed.

(* ---- instance 2: only quiet events ----------------------------------------------------------- *)
Definition NoP (p : Z) : Prop := False.

Lemma disc_eqb_noreply : forall d, disc_eqb d NoReply = true -> d = NoReply.
Proof. destruct d; simpl; auto; discriminate. Qed.

Lemma quiet_ok : forall evs, forallb quiet evs = true -> Forall (ev_ok NoP False) evs.
Proof.
  induction evs as [|e r IH]; simpl; intros H; constructor; apply andb_prop in H; destruct H as [H1 H2]; auto.
  destruct e; simpl in *; auto; try discriminate.
  intros W D. subst. simpl in H1. apply disc_eqb_noreply in H1. contradiction.
Qed.

Lemma quiet_transparent :
  forall keep evs, forallb quiet evs = true ->
    let s := run (init_st keep) evs in
    offenders false (out s) = [] /\ ttw s = None /\ dead s = false.
Proof.
  intros keep evs Q s.
  assert (I : Inv NoP False s) by (apply inv_run; [apply inv_init|apply quiet_ok; exact Q]).
  assert (T : ttw s = None).
  { destruct (ttw s) as [its|] eqn:T; [|reflexivity].
    destruct (i_ttw _ _ _ I its T) as [_ [[p [F _]]|[F _]]]; contradiction. }
  repeat split; auto.
  - apply nil_of_no_elements. intros it H. destruct (i_off _ _ _ I it H) as [p [F _]]. contradiction.
  - destruct (dead s) eqn:D; [|reflexivity]. exfalso. apply (i_dead _ _ _ I); auto.
Qed.

(* ---- queued user sends are delivered once the exchange completes -------------------------------- *)
Lemma run_app : forall a b s, run s (a ++ b) = run (run s a) b.
Proof. intros. unfold run. apply fold_left_app. Qed.

Lemma drain : forall q ph0 n k o,
  fold_left step (repeat UserWake (length q)) (mkst ph0 true n k None q false o false false false) =
  mkst ph0 true n k None [] false (o ++ map (fun t => (t, OUser)) q) false false false.
Proof.
  induction q as [|t r IH]; intros ph0 n k o; simpl.
  - rewrite app_nil_r. reflexivity.
  - rewrite step_eq. unfold step_gen. simpl. unfold emit, set_lk, set_uq. simpl. rewrite IH. rewrite <- app_assoc. reflexivity.
Qed.

Definition out_after (p : phase) (o : list item) : list item :=
  match p with
  | Idle | SentNewkeys => o
  | SentKexinit => (o ++ [(30, OKex)]) ++ [(21, OKex)]
  | InKex => o ++ [(21, OKex)]
  end.

Lemma out_after_eq : forall p o, out_after p o = o ++ kexpart p.
Proof. destruct p; intros o; simpl; rewrite <- ?app_assoc, ?app_nil_r; reflexivity. Qed.

Lemma complete_run : forall p n k q o,
  fold_left step (complete p) (mkst p (is_idle p) n k None q false o false false false) =
  mkst Idle true (match p with Idle => n | _ => false end) k None q false (out_after p o) false false false.
Proof. destruct p; intros; reflexivity. Qed.

Lemma queued_delivered :
  forall keep evs, let s := run (init_st keep) evs in
    dead s = false -> ttw s = None ->
    let s' := run s (complete (ph s) ++ repeat UserWake (length (uq s))) in
    ph s' = Idle /\ cts s' = true /\ uq s' = [] /\
    out s' = out s ++ kexpart (ph s) ++ map (fun t => (t, OUser)) (uq s) /\
    offenders false (out s') = offenders false (out s).
Proof.
  intros keep evs s D T.
  pose proof (reach_inv keep evs) as I. fold s in I.
  pose proof (i_kf _ _ _ I) as K. pose proof (i_cts _ _ _ I) as C. pose proof (i_uq _ _ _ I) as U.
  apply users_plain in U. pose proof (i_lk _ _ _ I) as L. pose proof (i_ttl _ _ _ I) as TL.
  pose proof (i_pend _ _ _ I) as PD. clear I.
  destruct s as [p c n k t q d o l tl pd]. simpl in *. subst d t c l tl pd.
  unfold run. rewrite fold_left_app, complete_run, drain. simpl.
  rewrite out_after_eq, <- app_assoc. repeat split; auto.
  rewrite !off_app, K.
  destruct p; simpl; unfold kstep; simpl; rewrite (off_plain_false _ U), ?app_nil_r; reflexivity.
Qed.

(* ---- locks: no gated send under self.lock in the working tree, hence no lock wait ------------------ *)
Lemma no_send_under_lock : locked_send_count = 0.
Proof. reflexivity. Qed.

Lemma tt_never_waits_on_lock :
  forall keep evs, ttl (run (init_st keep) evs) = false /\ lk (run (init_st keep) evs) = false.
Proof. intros. pose proof (reach_inv keep evs) as I. split; [apply (i_ttl _ _ _ I)|apply (i_lk _ _ _ I)]. Qed.

(* what the generated fact protects against: if some user operation did its gated send under the lock,
   a crossing message whose handler needs the lock stalls the exchange for good (in the model: until the
   user's own timeout, which is outside it) *)
Lemma lock_stuck_step : forall b s e, pend s = false -> ttl s = true -> cts s = false -> is_idle (ph s) = false ->
  let s' := step_gen b true s e in
  out s' = out s /\ cts s' = false /\ ttl s' = true /\ is_idle (ph s') = false /\ pend s' = false.
Proof.
  intros b s e PD TL C NI. unfold step_gen. destruct (dead s); [simpl; auto|].
  destruct e; simpl; unfold tt_free; rewrite ?TL, ?C, ?NI, ?PD; simpl; auto.
  - destruct (user_ok t); simpl; auto.
  - destruct (user_ok t); simpl; auto. destruct b; simpl; auto.
  - destruct (uq s); simpl; auto.
  - destruct (ttw s); simpl; auto.
  - destruct (ttw s); simpl; auto.
  - destruct (ttw s); simpl; auto.
  - destruct (ttw s); simpl; auto.
Qed.

Lemma lock_stuck : forall b evs s, pend s = false -> ttl s = true -> cts s = false -> is_idle (ph s) = false ->
  out (run_gen b true s evs) = out s /\ cts (run_gen b true s evs) = false /\ ttl (run_gen b true s evs) = true.
Proof.
  induction evs as [|e r IH]; simpl; intros s PD TL C NI; [auto|].
  destruct (lock_stuck_step b s e PD TL C NI) as [O [C' [TL' [NI' PD']]]].
  destruct (IH _ PD' TL' C' NI') as [O2 [C2 T2]]. rewrite O2, O. auto.
Qed.

Lemma locked_send_would_deadlock :
  let s := run_gen true true (init_st false) [UserRekey; UserSendLocked 96; Recv 93 false] in
  needs_lock 93 = true /\ ttl s = true /\ map fst (out s) = [20] /\
  forall evs, out (run_gen true true s evs) = out s /\ cts (run_gen true true s evs) = false.
Proof.
  intros s. split; [reflexivity|]. split; [reflexivity|]. split; [reflexivity|].
  intros evs. destruct (lock_stuck true evs s) as [O [C _]]; try reflexivity. auto.
Qed.

(* ---- the keepalive guard: while a threshold-triggered exchange is pending (need_rekey set from the trigger
   until both directions switched keys) a read timeout - at a packet boundary or in the middle of a packet -
   never runs the keepalive callback, so the tick cannot park the transport thread at the gate ------------- *)
Lemma keepalive_guarded_while_need_rekey :
  keepalive_need_guard = true /\ forall s, need s = true -> step s KeepTick = s.
Proof.
  split; [reflexivity|]. intros s N. rewrite step_eq. unfold step_gen. destruct (dead s); [reflexivity|].
  destruct (tt_free s); [|reflexivity]. rewrite N.
  replace keepalive_need_guard with true by reflexivity. simpl. rewrite andb_false_r. reflexivity.
Qed.

(* a whole threshold-triggered exchange with keepalive ticks anywhere in it: need stays set from the trigger to
   the peer's NEWKEYS, so every tick is a no-op and the run equals the run without the ticks *)
Lemma threshold_rekey_ignores_keepalive :
  let with_ticks := [Threshold; TtIter; KeepTick; UserSend 94; KeepTick; Recv 20 false; KeepTick;
                     Recv 31 false; KeepTick; Recv 21 false; UserWake] in
  let without := [Threshold; TtIter; UserSend 94; Recv 20 false; Recv 31 false; Recv 21 false; UserWake] in
  run (init_st true) with_ticks = run (init_st true) without /\
  map fst (out (run (init_st true) with_ticks)) = [20; 30; 21; 94].
Proof. vm_compute. split; reflexivity. Qed.

(* ---- the NEWKEYS window (v0 = completion signalled before the gate is released) ------------------------ *)
(* v1 is what every theorem above is about; the working tree is v1 exactly when the translator says so *)
Lemma tree_is_v1 : nk_atomic = true -> forall s e, step_tree s e = step s e.
Proof. intros H s e. unfold step_tree, step. rewrite H. reflexivity. Qed.

(* in v0 a renegotiate_keys that starts as soon as the previous one returned has its clear() undone by the
   transport thread's late clear_to_send.set(): a USER message follows the new KEXINIT *)
Lemma v0_user_send_after_kexinit :
  let evs := [UserRekey; Recv 20 false; Recv 31 false; Recv 21 false; UserRekey; TtLate; UserSend 94] in
  In (94, OUser) (offenders false (out (run_gen false false (init_st false) evs))) /\
  map fst (out (run_gen false false (init_st false) evs)) = [20; 30; 21; 20; 94].
Proof. vm_compute. split; [left; reflexivity|reflexivity]. Qed.

(* the same schedule in v1: the send is held and delivered after the second exchange *)
Lemma v1_same_schedule_gated :
  let evs := [UserRekey; Recv 20 false; Recv 31 false; Recv 21 false; UserRekey; TtLate; UserSend 94;
              Recv 20 false; Recv 31 false; Recv 21 false; UserWake] in
  map fst (out (run (init_st false) evs)) = [20; 30; 21; 20; 30; 21; 94].
Proof. vm_compute. reflexivity. Qed.

(* ---- what fails in the code as written (witnesses over the generated table) ----------------------- *)
Lemma only_kex_between_witness_global :
  exists evs it, In it (offenders false (out (run (init_st false) evs))) /\
                 snd it = OReply MSG_GLOBAL_REQUEST /\ disc_of MSG_GLOBAL_REQUEST = Ungated.
Proof.
  exists [UserRekey; Recv 80 true], (81, OReply 80). split; [vm_compute; auto|split; reflexivity].
Qed.

Lemma only_kex_between_witness_open :
  exists evs it, In it (offenders false (out (run (init_st false) evs))) /\
                 snd it = OReply MSG_CHANNEL_OPEN /\ disc_of MSG_CHANNEL_OPEN = Ungated.
Proof.
  exists [Threshold; TtIter; Recv 90 true], (91, OReply 90). split; [vm_compute; auto|split; reflexivity].
Qed.

Lemma only_kex_between_refuted :
  ~ (forall keep evs, offenders false (out (run (init_st keep) evs)) = []).
Proof.
  intros H. specialize (H false [UserRekey; Recv 80 true]). vm_compute in H. discriminate H.
Qed.

Definition gated_witnesses : list Z := [95; 97; 98; 100].

Lemma no_self_deadlock_witnesses :
  forall p, In p gated_witnesses ->
    disc_of p = Gated /\ ttw (run (init_st false) [UserRekey; Recv p true]) = Some (replies p).
Proof.
  intros p H. simpl in H.
  repeat (destruct H as [H|H]; [subst p; split; vm_compute; reflexivity|]). contradiction.
Qed.

Lemma no_self_deadlock_witness_keepalive :
  keepalive_disc = Gated /\ ttw (run (init_st true) [UserRekey; KeepTick]) = Some keepalive_msg.
Proof. split; vm_compute; reflexivity. Qed.

Lemma no_self_deadlock_refuted :
  ~ (forall keep evs, ttw (run (init_st keep) evs) = None).
Proof.
  intros H. specialize (H false [UserRekey; Recv 98 true]). vm_compute in H. discriminate H.
Qed.

(* ---- finite sweeps over the generated table -------------------------------------------------------- *)
Definition quiet_types : list Z := [81; 82; 91; 92; 93; 94; 96; 99].

Lemma quiet_handlers : forall p, In p quiet_types -> disc_of p = NoReply.
Proof.
  assert (K : forallb (fun p => disc_eqb (disc_of p) NoReply) quiet_types = true) by (vm_compute; reflexivity).
  intros p H. rewrite forallb_forall in K. apply disc_eqb_noreply. apply K. exact H.
Qed.

(* every connection-layer type with a handler is classified, and the classification is the one the
   findings are recorded for: nothing else replies *)
Lemma replying_handlers :
  forall p d l, In (p, (d, l)) handler_table -> d <> NoReply ->
    (d = Ungated /\ In p [80; 90]) \/ (d = Gated /\ In p gated_witnesses).
Proof.
  assert (K : forallb (fun e => match fst (snd e) with
                                | NoReply => true
                                | Ungated => existsb (Z.eqb (fst e)) [80; 90]
                                | Gated => existsb (Z.eqb (fst e)) gated_witnesses
                                end) handler_table = true) by (vm_compute; reflexivity).
  intros p d l H N. rewrite forallb_forall in K. specialize (K _ H). cbn [fst snd] in K.
  destruct d; [contradiction| |].
  - left. split; auto. apply existsb_exists in K. destruct K as [x [Hx E]]. apply Z.eqb_eq in E. subst. exact Hx.
  - right. split; auto. apply existsb_exists in K. destruct K as [x [Hx E]]. apply Z.eqb_eq in E. subst. exact Hx.
Qed.

Lemma shape_facts :
  gate_waits = true /\ gate_releases_on_every_exit = true /\ kexinit_saved_before_send = true /\ kexinit_clears_first = true /\ negotiate_clears_first = true /\
  newkeys_sets = true /\ flag_set_only_in_newkeys = true /\ send_message_is_packetizer = true /\
  public_ungated_count = 0 /\ kex_gate_uses = 0 /\ MSG_KEXINIT = 20 /\ MSG_NEWKEYS = 21 /\
  HIGHEST_USERAUTH_MESSAGE_ID < 80 /\ MSG_GLOBAL_REQUEST = 80 /\ MSG_CHANNEL_OPEN = 90 /\
  MSG_CHANNEL_DATA = 94 /\ MSG_CHANNEL_CLOSE = 97 /\ MSG_CHANNEL_REQUEST = 98.
Proof. vm_compute. repeat split; try reflexivity; discriminate. Qed.
