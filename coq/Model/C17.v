(* C17 -- client credentials are only sent to a verified, accepted server.

   Model of the CLIENT side of
     paramiko/transport.py   Transport.run (dispatch of the messages that matter for the initial key
                             exchange: _expected_packet gating, kex engine hand-off, MSG_NEWKEYS ->
                             _parse_newkeys, strict-kex checks, auth-handler table), the
                             '(not self.active) or (not self.initial_kex_done)' guard that opens every
                             auth_X method (and ServiceRequestingTransport.ensure_session),
                             Transport.connect (host key comparison before auth_X),
     paramiko/kex_X.py       client reply handlers: _verify_key, then _activate_outbound
     paramiko/auth_handler.py  _request_auth / _parse_service_accept (credentials leave only in
                             answer to SERVICE_ACCEPT, and only when an auth handler was installed)
     paramiko/client.py      SSHClient.connect: known-hosts lookup (system, then user keys; '[host]:port'
                             naming), BadHostKeyException, MissingHostKeyPolicy call, all before _auth;
                             RejectPolicy / AutoAddPolicy / WarningPolicy.
   The known-hosts lookup is coq/Model/C41.v's.  Definitions only.

   The peer is arbitrary: the network input of [run] is ANY list of messages, and user calls
   (auth_X from any thread, close) are interleaved with them at message granularity (each handler
   runs to completion on the transport thread; the auth_X guard reads two flags).  What the key
   exchange computes is abstracted to the outcome [sig_ok] of Transport._verify_key. *)
From PV Require Import Bytes C41.
Open Scope Z_scope.

(* ---- vocabulary -------------------------------------------------------------------------- *)
Inductive cred := CNone | CPassword | CPublickey | CInteractive | CGssMic | CGssKeyex.
Definition cred_code (c : cred) : Z :=
  match c with CNone => 0 | CPassword => 1 | CPublickey => 2 | CInteractive => 3 | CGssMic => 4 | CGssKeyex => 5 end.

Inductive netmsg :=
  | NKexInit (strict : bool)          (* MSG_KEXINIT; [strict]: the peer's strict-kex marker is present *)
  | NKex (final sig_ok : bool)        (* a kex-range message (30..41): the engine's last step or not;
                                         outcome of _verify_key when it is the last *)
  | NNewKeys
  | NIgnore | NDebug | NDisconnect
  | NServiceAccept                    (* MSG_SERVICE_ACCEPT "ssh-userauth" *)
  | NAuthOther                        (* any other message of the auth handler's table *)
  | NUnknown.                         (* any message no table knows *)

Inductive ucall := UAuth (c : cred) | UClose.
Inductive event := EvNet (m : netmsg) | EvUser (u : ucall).

(* what the client does that the property talks about *)
Inductive obs :=
  | OVerifyKeyOk            (* _verify_key returned: host key signature accepted *)
  | ONewkeysOut             (* _activate_outbound: NEWKEYS sent, outbound cipher installed *)
  | ONewkeysIn              (* _parse_newkeys: inbound cipher installed, initial_kex_done set *)
  | OServiceRequest         (* auth_*: SERVICE_REQUEST "ssh-userauth" sent *)
  | OUserauth (c : cred)    (* USERAUTH_REQUEST carrying the credential sent *)
  | ONoSession              (* auth_* raised SSHException("No existing session") *)
  | OUnimplemented          (* MSG_UNIMPLEMENTED sent *)
  | ODied.                  (* the transport thread ended (exception / disconnect) *)

Inductive expect := ENone | EKexInit | EKex | ENewKeys.

Record st := MkSt {
  s_active : bool;              (* Transport.active *)
  s_expected : expect;          (* Transport._expected_packet *)
  s_seen : bool;                (* a packet was received before (inbound seqno <> 0) *)
  s_strict : bool;              (* agreed_on_strict_kex *)
  s_negotiated : bool;          (* _parse_kex_init ran: ciphers agreed *)
  s_kh : bool;                  (* K / H of a finished exchange present (cleared by _parse_newkeys) *)
  s_kex_done : bool;            (* initial_kex_done *)
  s_handler : option cred       (* Transport.auth_handler (client): the pending method *)
}.

(* after start_client: banner exchanged, our KEXINIT sent, _expect_packet(MSG_KEXINIT) *)
Definition init : st := MkSt true EKexInit false false false false false None.

Definition die (s : st) : st * list obs :=
  (MkSt false (s_expected s) (s_seen s) (s_strict s) (s_negotiated s) (s_kh s) (s_kex_done s) (s_handler s),
   [ODied]).

Definition with_expected (s : st) (e : expect) : st :=
  MkSt (s_active s) e (s_seen s) (s_strict s) (s_negotiated s) (s_kh s) (s_kex_done s) (s_handler s).

Definition expect_matches (e : expect) (m : netmsg) : bool :=
  match e, m with
  | EKexInit, NKexInit _ => true
  | EKex, NKex _ _ => true
  | ENewKeys, NNewKeys => true
  | _, _ => false
  end.

(* the handler tables, once the _expected_packet test is passed (expected is already cleared) *)
Definition dispatch (s : st) (m : netmsg) : st * list obs :=
  match m with
  | NKexInit strict =>
      (* _negotiate_keys -> _parse_kex_init (strict-kex: the first KEXINIT must be the first packet)
         -> kex_engine.start_kex() -> _expect_packet(<reply>) *)
      let strict' := if s_kex_done s then s_strict s else strict in
      if strict' && negb (s_kex_done s) && s_seen s then die s
      else (MkSt true EKex (s_seen s) strict' true (s_kh s) (s_kex_done s) (s_handler s), [])
  | NNewKeys =>
      (* _parse_newkeys: _activate_inbound needs the agreed cipher and K / H *)
      if s_negotiated s && s_kh s
      then (MkSt true ENone (s_seen s) (s_strict s) true false true (s_handler s), [ONewkeysIn])
      else die s
  | NServiceAccept =>
      match s_handler s with
      | Some c => (with_expected s ENone, [OUserauth c])       (* _parse_service_accept *)
      | None => (with_expected s ENone, [OUnimplemented])
      end
  | NAuthOther =>
      match s_handler s with
      | Some _ => (with_expected s ENone, [])
      | None => (with_expected s ENone, [OUnimplemented])
      end
  | NKex _ _ | NUnknown => (with_expected s ENone, [OUnimplemented])
  | NIgnore | NDebug | NDisconnect => (with_expected s ENone, [])     (* not reached *)
  end.

(* the _expected_packet test, the kex engine hand-off, then the handler tables *)
Definition gated (s : st) (m : netmsg) : st * list obs :=
  match s_expected s with
  | ENone => dispatch s m
  | e =>
      if negb (expect_matches e m) then die s
      else match m with
           | NKex final sig_ok =>
               (* kex_engine.parse_next *)
               if negb final then (with_expected s EKex, [])
               else if sig_ok
               then (MkSt true ENewKeys (s_seen s) (s_strict s) (s_negotiated s) true (s_kex_done s) (s_handler s),
                     [OVerifyKeyOk; ONewkeysOut])
               else die s
           | _ => dispatch (with_expected s ENone) m
           end
  end.

(* one iteration of Transport.run's loop; afterwards the inbound sequence number is no longer 0 *)
Definition net_core (s : st) (m : netmsg) : st * list obs :=
  match m with
  | NIgnore | NDebug =>
      if s_strict s && negb (s_kex_done s) then die s            (* _enforce_strict_kex *)
      else (s, [])
  | NDisconnect => die s
  | _ => gated s m
  end.

Definition mark_seen (s : st) : st :=
  MkSt (s_active s) (s_expected s) true (s_strict s) (s_negotiated s) (s_kh s) (s_kex_done s) (s_handler s).

Definition net_step (s : st) (m : netmsg) : st * list obs :=
  if negb (s_active s) then (s, [])
  else let '(s1, o) := net_core s m in (mark_seen s1, o).

Definition user_step (s : st) (u : ucall) : st * list obs :=
  match u with
  | UAuth c =>
      if negb (s_active s) || negb (s_kex_done s) then (s, [ONoSession])
      else (MkSt (s_active s) (s_expected s) (s_seen s) (s_strict s) (s_negotiated s) (s_kh s) (s_kex_done s) (Some c),
            [OServiceRequest])
  | UClose =>
      (MkSt false (s_expected s) (s_seen s) (s_strict s) (s_negotiated s) (s_kh s) (s_kex_done s) (s_handler s), [])
  end.

Definition step (s : st) (e : event) : st * list obs :=
  match e with EvNet m => net_step s m | EvUser u => user_step s u end.

Fixpoint run_from (s : st) (evs : list event) : st * list obs :=
  match evs with
  | [] => (s, [])
  | e :: r => let '(s1, o1) := step s e in
              let '(s2, o2) := run_from s1 r in (s2, o1 ++ o2)
  end.
Definition run (evs : list event) : list obs := snd (run_from init evs).

(* the monitor of the property: stage 0 -> 1 (VerifyKeyOk) -> 2 (NewkeysOut) -> 3 (NewkeysIn);
   a credential (or even the service request) at a stage below 3 is a violation (None) *)
Fixpoint mon (stage : nat) (tr : list obs) : option nat :=
  match tr with
  | [] => Some stage
  | o :: r =>
      match o with
      | OVerifyKeyOk => mon (if Nat.eqb stage 0 then 1 else stage) r
      | ONewkeysOut => mon (if Nat.eqb stage 1 then 2 else stage) r
      | ONewkeysIn => mon (if Nat.eqb stage 2 then 3 else stage) r
      | OUserauth _ | OServiceRequest => if Nat.eqb stage 3 then mon stage r else None
      | _ => mon stage r
      end
  end.

(* l is a subsequence of tr *)
Fixpoint subseq (l tr : list obs) : Prop :=
  match l, tr with
  | [], _ => True
  | _ :: _, [] => False
  | a :: l', b :: tr' => (a = b /\ subseq l' tr') \/ subseq l tr'
  end.

(* ---- Transport.connect(hostkey=..., password / pkey) ------------------------------------------
   a sequential program: start_client (outcome [kex_ok] of the whole handshake, by the theorem
   about [run] it can only be true after the three kex events), host key comparison, auth_* *)
Inductive cobs :=
  | CKexDone                       (* start_client returned with initial_kex_done *)
  | CCompare (same : bool)         (* host key compared with the expected / known one *)
  | CPolicy (accepted : bool)      (* MissingHostKeyPolicy.missing_host_key called; did it return *)
  | CAuth.                         (* an auth_* method is called (credentials may now leave) *)

Definition transport_connect (expected : option key) (gss_kex kex_ok want_auth : bool) (server_key : key)
  : list cobs * result unit :=
  if negb kex_ok then ([], Raise SSHExc)
  else
    let auth := if want_auth then [CAuth] else [] in
    match expected with
    | Some k =>
        if gss_kex then ([CKexDone] ++ auth, Ok tt)
        else if key_eqb server_key k then ([CKexDone; CCompare true] ++ auth, Ok tt)
        else ([CKexDone; CCompare false], Raise SSHExc)
    | None => ([CKexDone] ++ auth, Ok tt)
    end.

(* ---- SSHClient.connect ------------------------------------------------------------------------ *)
Inductive policy := PReject | PAutoAdd | PWarning | PCustom (accepts : bool).
Definition policy_accepts (p : policy) : bool :=
  match p with PReject => false | PAutoAdd => true | PWarning => true | PCustom a => a end.

(* server_hostkey_name: hostname, or "[hostname]:port" when the port is not 22; the two strings
   are identified by the ids [host_id] / [bracket_id] (C41's name abstraction) *)
Definition hostkey_name (host_id bracket_id port : Z) : name :=
  if port =? 22 then Nm false host_id else Nm false bracket_id.

(* our_server_keys = self._system_host_keys.get(name); if None: self._host_keys.get(name) *)
Definition our_server_keys (hm : hmap) (sys usr : state) (q : name) : option (list entry) :=
  match lookup hm sys q with
  | (_ :: _) as es => Some es
  | [] => match lookup hm usr q with (_ :: _) as es => Some es | [] => None end
  end.

(* Transport.gss_kex_used: reset by _send_kex_init, set to True by the GSS key exchange engines only
   (paramiko/kex_gss.py), i.e. exactly when a gss-X method was NEGOTIATED and carried out; what the
   peer merely ADVERTISES in its KEXINIT plays no role.  SSHClient.connect skips its host key block
   on this flag and on nothing else. *)
Definition gss_kex_used_flag (negotiated_is_gss peer_advertises_gss : bool) : bool := negotiated_is_gss.

Definition bad_host_key : exn := LibExc 17.      (* BadHostKeyException *)

Definition client_connect (hm : hmap) (sys usr : state) (host_id bracket_id port : Z) (p : policy)
           (gss_kex_used kex_ok : bool) (server_key : key) : list cobs * result unit :=
  let q := hostkey_name host_id bracket_id port in
  let ours := our_server_keys hm sys usr q in
  if negb kex_ok then ([], Raise SSHExc)
  else if gss_kex_used then ([CKexDone; CAuth], Ok tt)
  else match ours with
       | None =>
           if policy_accepts p then ([CKexDone; CPolicy true; CAuth], Ok tt)
           else ([CKexDone; CPolicy false], Raise SSHExc)
       | Some es =>
           match subdict_get es (ktype server_key) with
           | Some k => if key_eqb k server_key then ([CKexDone; CCompare true; CAuth], Ok tt)
                       else ([CKexDone; CCompare false], Raise bad_host_key)
           | None => ([CKexDone; CCompare false], Raise bad_host_key)
           end
       end.

(* ---- correspondence entry points ------------------------------------------------------------ *)
Definition obs_code (o : obs) : list Z :=
  match o with
  | OVerifyKeyOk => [1] | ONewkeysOut => [2] | ONewkeysIn => [3] | OServiceRequest => [4]
  | OUserauth c => [5; cred_code c] | ONoSession => [6] | OUnimplemented => [7] | ODied => [8]
  end.
Definition run_trace (evs : list event) : list Z := flat_map obs_code (run evs).

Definition cobs_code (o : cobs) : list Z :=
  match o with
  | CKexDone => [1] | CCompare b => [2; if b then 1 else 0] | CPolicy b => [3; if b then 1 else 0] | CAuth => [4]
  end.
Definition res_code (r : result unit) : Z := match r with Ok _ => 0 | Raise e => exn_code e end.

Definition run_tconnect (c : option key * (bool * bool * bool) * key) : list Z :=
  let '(expected, (gss, ok, want), sk) := c in
  let '(tr, r) := transport_connect expected gss ok want sk in
  res_code r :: flat_map cobs_code tr.

Definition run_cconnect (c : hmap * (state * state) * (Z * Z * Z) * policy * (bool * bool * bool) * key) : list Z :=
  let '(hm, (sys, usr), (h, b, port), p, (neg_gss, adv_gss, ok), sk) := c in
  let '(tr, r) := client_connect hm sys usr h b port p (gss_kex_used_flag neg_gss adv_gss) ok sk in
  res_code r :: flat_map cobs_code tr.
