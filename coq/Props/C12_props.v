(* C12 - unrecognised message types get UNIMPLEMENTED and the session continues.
   Property statements only; every proof is `exact <lemma from Proofs/C12_proofs.v>`.
   The handler tables, MSG_NAMES and the form of the name lookup come from Gen/C12_gen.v,
   regenerated from the working tree on every run. *)
From PV Require Import Bytes C12_gen C12 C12_proofs.
Open Scope Z_scope.

(* every type number 0..255 that has no handler in the current role / auth state (any of the
   64 combinations of server_mode, authenticated, installed auth handler, transport class, and
   whether a re-key started by this side is in progress - own KEXINIT sent, clear_to_send cleared),
   after the handshake; `receive` = Packetizer.read_message's logging stage, then the run-loop ladder; is answered with UNIMPLEMENTED carrying that packet's sequence number,
   and the transport keeps running.  Finite sweep over the generated tables, bound in the statement. *)
Theorem C12_unimplemented :
  forall (st : state) (p sq : Z),
    expected st = [] -> 0 <= p < 256 -> 0 <= sq < 2 ^ 32 ->
    unhandled st p = true -> p <> MSG_UNIMPLEMENTED ->
    receive st p sq = Fallback (Some (MSG_UNIMPLEMENTED :: be_encode 4 sq)) /\
    alive (receive st p sq) = true.
Proof. exact unimplemented. Qed.
Print Assumptions C12_unimplemented.

(* the four bytes after the type byte decode to the sequence number *)
Theorem C12_reply_carries_seqno :
  forall sq, 0 <= sq < 2 ^ 32 -> be_decode (be_encode 4 sq) = sq.
Proof. exact reply_carries_seqno. Qed.
Print Assumptions C12_reply_carries_seqno.

(* an inbound UNIMPLEMENTED is itself never answered: after the handshake it is logged and the
   loop goes on; in no state at all (whatever _expected_packet holds) does it produce a reply *)
Theorem C12_no_reply_to_3 :
  forall (st : state) (sq : Z),
    (expected st = [] ->
       receive st MSG_UNIMPLEMENTED sq = Fallback None /\ alive (receive st MSG_UNIMPLEMENTED sq) = true) /\
    (forall m, receive st MSG_UNIMPLEMENTED sq <> Fallback (Some m)).
Proof. intros st sq. split; [exact (no_reply_to_unimplemented st sq) | exact (never_answers_unimplemented st sq)]. Qed.
Print Assumptions C12_no_reply_to_3.

(* streams of any length: every unhandled packet is answered in order with its own sequence
   number (which wraps at 2^32) and the transport is still running at the end *)
Theorem C12_stream :
  forall (st : state) (pkts : list Z) (sq : Z),
    expected st = [] -> 0 <= sq < 2 ^ 32 ->
    Forall (fun p => 0 <= p < 256 /\ unhandled st p = true) pkts ->
    run_stream st sq pkts = (expected_replies sq pkts, true).
Proof. exact stream. Qed.
Print Assumptions C12_stream.

(* `unhandled` is exactly the domain of the fallback branch: a type some table takes never
   produces UNIMPLEMENTED *)
Theorem C12_handled_not_fallback :
  forall (st : state) (p sq : Z) rep,
    expected st = [] -> unhandled st p = false -> receive st p sq <> Fallback rep.
Proof. exact handled_not_fallback. Qed.
Print Assumptions C12_handled_not_fallback.

(* one-directional message types stay without a handler in the role that never legitimately receives them
   (so by C12_unimplemented they are answered with UNIMPLEMENTED there), whichever table or class a handler
   is moved to: client side for SERVICE_REQUEST / USERAUTH_REQUEST / USERAUTH_INFO_RESPONSE (the GSS-API
   server-side handler object is never installed on a client), classic server side for SERVICE_ACCEPT /
   USERAUTH_FAILURE / SUCCESS / BANNER / INFO_REQUEST *)
Theorem C12_wrong_direction_unhandled :
  (forall au a s rk, a <> AHGss ->
     forallb (unhandled (mkState false au a s rk [])) client_to_server_only = true) /\
  (forall au a rk, forallb (unhandled (mkState true au a false rk [])) server_to_client_only = true).
Proof. split; [exact wrong_direction_client | exact wrong_direction_server]. Qed.
Print Assumptions C12_wrong_direction_unhandled.

(* the defect that was repaired (fixes/C12-msg-names-keyerror.diff): with `MSG_NAMES[ptype]`
   some unhandled type kills the transport with KeyError in every state *)
Theorem C12_v0_refuted :
  forall sm au a s rk sq,
    exists p, 0 <= p < 256 /\ unhandled (mkState sm au a s rk []) p = true /\ fallback_v0 p sq = Die KeyErr.
Proof. exact v0_dies. Qed.
Print Assumptions C12_v0_refuted.

(* non-vacuity: in every state there are unhandled type numbers, including ones without a
   debug name (the ones the test suite never sends) *)
Example C12_example :
  forall sm au a s rk,
    exists p, 0 <= p < 256 /\ unhandled (mkState sm au a s rk []) p = true /\ mem p msg_names = false.
Proof. exact unnamed_unhandled_exists. Qed.
