(* C02 — tampered ciphertext is never accepted as different data.
   The packet model is shared with C01 (Model/C01.v: read_message with its ghost `authev`
   output, constant_time_bytes_eq, read_many).  This file adds the sender's log and the
   symbolic authenticity premise. *)
From PV Require Import Bytes C01.
From Coq Require Import ZArith List Bool.
Import ListNotations.
Open Scope Z_scope.
