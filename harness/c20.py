"""C20 -- channel flow control never deadlocks while the receiver keeps reading; every byte the peer sends,
including discarded extended data, is credited back.

Proof: coq/Props/C20_props.v over coq/Model/C19.v + coq/Model/C20.v + coq/Gen/C19_gen.v.
Tie: the direct drive of harness/c19.py (two real Channel objects, held-message stub transport) on histories
with extended-data type codes 0..5, each followed by the settling environment of the model (deliver all, read
all, deliver adjusts); whole transfers (send / settle rounds) compared with the model's `run_transfer`.
Oracle: after settling, sender window + receiver's in_window_sofar == advertised window (no byte lost to the
accounting) and the sender's window is open; a transfer of n bytes finishes within the predicted number of
send calls; a multi-threaded blocking transfer completes; END-TO-END: a real Transport pair (in-memory loopback),
open_session with explicit windows, the receiving application reading in several styles (large recv, small recv,
select() on Channel.fileno() with small reads, stdout/stderr mix), the receiver half-closing its own direction
before / during the transfer (its EOF really reaches the peer's Transport thread), the first channel re-used after
the others.
"""
import socket

import c19
from c19 import Pair, histories, report_problems, CASE_TYPE  # noqa

PID = "C20"
GENS = ["c19"]
LEVEL_TEXT = ("Machine-checked proof (Coq, closed under the global context) over the channel flow-control model, for all "
              "windows W >= 1 (every sanitized window is >= 32768), all packet sizes, all interleavings and extended "
              "type codes: sender window + everything outstanding == W always (conservation; no discarded byte is "
              "lost); at quiescence at least W - W/10 bytes of credit are with the sender or in flight to it (no "
              "deadlock); a send on an open window takes >= 1 byte; sendall of n bytes completes within n send calls "
              "under a settling reader.  Tied to channel.py by the AST-generated arithmetic (incl. whether the discard "
              "branch of _feed_extended credits its bytes) and by a differential run of the model's definitions "
              "(vm_compute) against two real Channel objects.")
LEVEL_NOTE = ("Trusted: Coq kernel + vm_compute; gen/c19.py; identification of model steps with critical sections "
              "(validated by the direct drive). Liveness is proved for the fair 'settling' environment (transport "
              "delivers, application reads both streams), including a reader that has half-closed its own sending "
              "direction (shutdown_write) and set_combine_stderr switches; closed / EOF-received states and re-key "
              "stalls of the transport are outside the model.")
TECHNIQUE = "Coq proof (conservation invariant + termination measure) + AST-generated arithmetic + vm_compute differential correspondence"

IMPORTS = "From PV Require Import C19 C20."


def check_settled(ctx, pair, case):
    """implementation-level statement of C20 on the settled real objects (coupled directions only)"""
    for d in (False, True):
        W0, P, W, _ = pair.cfg[d]
        if W0 != W:
            continue
        S, R = pair.S(d), pair.R(d)
        lost = W - (S.out_window_size + R.in_window_sofar)
        if lost != 0:
            if pair.discarded[d] > 0 and lost == pair.discarded[d]:
                ctx.fail("extended-discard-not-credited",
                         "%d bytes of discarded extended data (type code != 1) were never counted toward the peer's "
                         "window: after everything was delivered and read, sender window %d + in_window_sofar %d != "
                         "advertised window %d" % (lost, S.out_window_size, R.in_window_sofar, W),
                         case=case, expected=W, observed=S.out_window_size + R.in_window_sofar)
            else:
                ctx.fail("credit-lost", "after settling, sender window %d + in_window_sofar %d != advertised window %d"
                         % (S.out_window_size, R.in_window_sofar, W), case=case, expected=W,
                         observed=S.out_window_size + R.in_window_sofar)
        elif S.out_window_size <= 0:
            ctx.fail("deadlock", "settled state with a closed sender window", case=case,
                     observed=S.out_window_size)


def real_transfer(W, P, n, code, fuel, shut_round=None):
    """send / settle rounds on real channels; returns (pair, canonical output, rounds used).
    shut_round: the READING side calls shutdown_write() (half-close of its own sending direction) just before
    that round; it keeps reading, so the transfer must complete all the same."""
    cfg = (W, P, W, False)
    pair = Pair(cfg, (W, P, W, False))
    k = None if code < 0 else code
    pending = n
    rounds = 0
    for i in range(fuel):
        if pending <= 0:
            break
        if shut_round is not None and i == shut_round:
            pair.step(True, ("OShutW",))
        r = pair.step(False, ("OSend", k, pending))
        pair.settle(False)
        pending -= max(r, 0)
        rounds += 1
    S, R = pair.S(False), pair.R(False)
    out = [pending, S.out_window_size, R.in_window_sofar, pair.emitted[False], pair.consumed[False],
           pair.adj_emitted[False], pair.adj_delivered[False]]
    return pair, out, rounds


def transfers(ctx, n):
    rng = ctx.rng
    stub = c19.Stub()
    cases = []
    for j in range(n):
        W = c19.pick_window(rng, stub)
        if rng.random() < 0.8:
            W = rng.randrange(32768, 90000)
        P = c19.pick_packet(rng)
        size = rng.choice([0, 1, 4031, 4032, 4033, W - 1, W, W + 1, rng.randrange(0, 300000), rng.randrange(0, 300000)])
        size = min(size, 300000)
        code = rng.choice([-1, -1, 1, 1, 0, 2, 3, 4, 5])
        fuel = size // 4032 + 8
        shut = rng.choice([None, None, 0, 1, 3, rng.randrange(0, fuel)])
        pair, out, rounds = real_transfer(W, P, size, code, fuel, shut)
        case = {"transfer": True, "W": W, "P": P, "n": size, "code": code, "fuel": fuel, "shut_round": shut}
        report_problems(ctx, pair, case)
        ctx.count(("transfer", W, P, size, code), nontrivial=size > 0, kind="transfer-code%d" % code)
        if out[0] != 0:
            S, R = pair.S(False), pair.R(False)
            if code not in (-1, 1):
                ctx.fail("extended-discard-not-credited",
                         "a peer sending %d bytes of extended data of type %d (discarded by _feed_extended) is starved: "
                         "%d bytes still pending after %d send calls, sender window %d, in_window_sofar %d, window %d"
                         % (size, code, out[0], rounds, S.out_window_size, R.in_window_sofar, W),
                         case=case, expected=0, observed=out[0])
            else:
                ctx.fail("transfer-stalled", "%d of %d bytes still pending after %d send calls with a reader that "
                         "reads everything%s (sender window %d, reader's in_window_sofar %d)" % (
                             out[0], size, rounds,
                             "" if shut is None else "; the reader had called shutdown_write() before round %d" % shut,
                             S.out_window_size, R.in_window_sofar),
                         case=case, expected=0, observed=out[0])
        else:
            # the receiver application got every byte of stdout/stderr data; discarded data was credited
            got = pair.consumed[False] + pair.discarded[False]
            if got != size:
                ctx.fail("bytes-missing", "sent %d bytes, consumed+discarded %d" % (size, got), case=case,
                         expected=size, observed=got)
        check_settled(ctx, pair, case)
        cases.append(("(%d, %d, %d, %s, %d)" % (W, P, size, "(%d)" % code if code < 0 else "%d" % code, fuel),
                      out, case))
        if j == 0:
            ctx.sample({"transfer": {"case": case, "impl": out, "send_calls": rounds}})
    bad = c19.safe_mismatches(ctx, "run_transfer7", "(Z * Z * Z * Z * Z)", [(c, o) for c, o, _ in cases],
                               imports=IMPORTS + "\nDefinition run_transfer7 c := firstn 7 (run_transfer c).", shard=40)
    for i in bad[:3]:
        ctx.disagree("transfer (send/settle rounds) differs from the model", case=cases[i][2], impl=cases[i][1])


def run(ctx):
    ctx.rule = ("seeded generator (random.Random('C20-<seed>')): as C19 but both ends paramiko (sender's window = the "
                "receiver's advertised window) in 85% of the directions, extended-data type codes 0..5 (codes != 1 "
                "sent through Channel._send with a hand-made EXTENDED_DATA header, i.e. a foreign peer sharing the "
                "sender's window account), every history followed by the settling environment; whole transfers of "
                "0..300000 bytes with windows 32768..90000 (+ boundaries), any peer packet size, codes -1(stdout), "
                "0..5; non-trivial = distinct and at least one byte moved")
    ctx.trusted += ["model coq/Model/C19.v + C20.v step/round structure is hand-written; arithmetic is generated (gen/c19.py)",
                    "stub transport of harness/c19.py"]
    ctx.assumptions += ["channel not closed and no EOF received by the reader (half-close by shutdown_write is covered)",
                        "fair environment: the transport delivers queued messages and the application keeps reading "
                        "both streams", "the peer respects the window it was granted (C19 for a paramiko peer)"]
    ctx.prove(gens=GENS)
    c19.check_constants(ctx)
    scale = 4 if ctx.thorough else 1

    def after(pair, case):
        check_settled(ctx, pair, case)
    histories(ctx, 110 * scale, codes=[None, None, 1, 1, 0, 2, 3, 4, 5], imports=IMPORTS, settle_end=True,
              coupled_p=0.85, label="history-ext", after=after)
    transfers(ctx, 30 * scale)
    c19.schedules(ctx, setups=(0,))
    c19.blocked_runs(ctx)
    c19.loopback_runs(ctx, 8 * (3 if ctx.thorough else 1))
    c19.live_runs(ctx, 2 * (3 if ctx.thorough else 1))


def replay(ctx, rep):
    case = rep["case"]
    if case.get("live") or case.get("blocked") or case.get("sched") or case.get("loopback"):
        return c19.replay(ctx, rep)
    if case.get("transfer"):
        pair, out, rounds = real_transfer(case["W"], case["P"], case["n"], case["code"], case["fuel"],
                                          case.get("shut_round"))
        ctx.count(("replay", repr(case)))
        ctx.count(("replay2", repr(case)))
        report_problems(ctx, pair, case)
        if out[0] != 0:
            ctx.fail(rep["key"], rep["what"], case=case, expected=0, observed=out[0])
        check_settled(ctx, pair, case)
        return
    if "cfg_ab" in case:
        pair = c19.replay_case(ctx, case)
        for d in (False, True):
            pair.settle(d)
        ctx.count(("replay", repr(case)))
        ctx.count(("replay2", repr(case)))
        report_problems(ctx, pair, case)
        check_settled(ctx, pair, case)
        return
    run(ctx)
