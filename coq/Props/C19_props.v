(* C19 -- channel senders never exceed the peer's window or maximum packet size; receivers never
   grant more window than consumed.  Statements only; proofs in Proofs/C19_proofs.v.

   `run (init W0 P W dmp c) ops` is the state of one direction of a channel (sender half of one
   Channel object, receiver half of its peer, the wire between) after the critical sections `ops`,
   an arbitrary interleaving of any number of sending and receiving threads (Model/C19.v).
   W0 = initial window advertised by the peer, P = maximum packet size advertised by the peer,
   W = the receiver's own in_window_size, dmp = transport default_max_packet_size, c = combine_stderr.
   Sizes handed in by the application are lengths, i.e. non-negative (op_wf). *)
From PV Require Import Bytes C19_gen C19 C19_proofs.
Open Scope Z_scope.

(* stdout and stderr together: bytes put on the wire <= bytes reserved under the lock
   <= initial window + all window adjustments received; the remaining credit is never negative *)
Theorem C19_cumulative :
  forall W0 P W dmp c ops,
    0 <= W0 -> 0 <= W -> Forall op_wf ops ->
    let s := run (init W0 P W dmp c) ops in
    emitted s <= g_res s /\ g_res s <= W0 + g_adjin s /\
    emitted s + in_hand s = g_res s /\ ow s = W0 + g_adjin s - g_res s /\ 0 <= ow s.
Proof. exact cumulative. Qed.
Print Assumptions C19_cumulative.

(* every data message ever built (on the wire now, delivered earlier, or still in a sender's hand)
   carries between 1 and out_max_packet_size - 64 bytes, out_max_packet_size being the sanitized
   peer value; hence at most the peer's maximum packet size whenever that is >= 4096 *)
Theorem C19_packet :
  forall W0 P W dmp c ops,
    0 <= W0 -> 0 <= W -> Forall op_wf ops ->
    let s := run (init W0 P W dmp c) ops in
    Forall (fun m => 0 < dlen m <= sanitize_packet_size dmp (Some P) - 64) (elog s ++ dwire s ++ obox s) /\
    (4096 <= P -> Forall (fun m => dlen m <= P - 64) (elog s ++ dwire s ++ obox s)).
Proof. exact packet. Qed.
Print Assumptions C19_packet.

(* window adjustments put on the wire <= adjustments computed <= bytes handed to the application
   by recv / recv_stderr plus bytes of discarded extended data; the difference is exactly
   in_window_sofar (plus discarded bytes never counted, when the discard branch does not credit) *)
Theorem C19_grant_le_consumed :
  forall W0 P W dmp c ops,
    0 <= W0 -> 0 <= W -> Forall op_wf ops ->
    let s := run (init W0 P W dmp c) ops in
    adjusts_sent s <= g_grant s /\ g_grant s <= g_cons s + g_disc s /\
    adjusts_sent s + sum (abox s) = g_grant s /\
    g_grant s + sofar s + g_lost s = g_cons s + g_disc s.
Proof. exact grant_le_consumed. Qed.
Print Assumptions C19_grant_le_consumed.

(* the sanitized sizes are what the statements above assume of them, for every input *)
Theorem C19_sanitize :
  forall d x, 32768 <= sanitize_window_size d x <= 4294967295 /\ 4096 <= sanitize_packet_size d x <= 4294967295.
Proof. intros d x. split; [apply sanitize_window_range | apply sanitize_packet_range]. Qed.
Print Assumptions C19_sanitize.

(* the side condition of C19_packet is needed: a peer advertising 1000 receives a 4032-byte message *)
Theorem C19_small_peer_packet_exceeded :
  let s := run (init 100000 1000 32768 32768 false) [OSend None 50000; OEmit 0] in
  elog s = [MData 4032].
Proof. exact small_peer_packet. Qed.
Print Assumptions C19_small_peer_packet_exceeded.

(* non-vacuity: a concrete well-formed history in which the window is exhausted, a send times out,
   the receiver reads, an adjust comes back and sending resumes *)
Example C19_example :
  let ops := [OSend None 40000; OSend (Some 1) 40000; OEmit 1; OEmit 0; ODeliver; ODeliver;
              ORecv false 5000; ORecv true 5000; OSend None 1; OEmitAdj 0; ODeliverAdj; OSend None 9000] in
  Forall op_wf ops /\
  let s := run (init 8000 32768 32768 32768 false) ops in
  (emitted s, g_res s, g_adjin s, ow s, g_cons s, g_grant s) = (8000, 13000, 5000, 0, 5000, 5000).
Proof. split; [repeat (apply Forall_cons; [cbn; lia|]); apply Forall_nil | vm_compute; reflexivity]. Qed.

(* non-vacuity with the combine / half-close ops: unread stderr data moved by set_combine_stderr(True) is
   credited exactly once, when the application reads it; a half-closed sender sends nothing more *)
Example C19_example_combine :
  let ops := [OSend (Some 1) 5000; OEmit 0; ODeliver; OCombine true; ORecv false 5000; OShutW; OSend None 10] in
  Forall op_wf ops /\
  let s := run (init 32768 32768 32768 32768 false) ops in
  (g_cons s, g_grant s, sofar s, bout s, berr s, emitted s) = (5000, 5000, 0, 0, 0, 5000).
Proof. split; [repeat (apply Forall_cons; [cbn; lia|]); apply Forall_nil | vm_compute; reflexivity]. Qed.
