"""C32 translator: the constants and loop statements of SFTPServer._check_file of the working
tree -> coq/Gen/C32_gen.v.

From the AST of SFTPServer._check_file: the minimum block size (`if block_size < N`), the read
chunk size (`chunklen = min(blocklen - count, N)`), and a textual (ast.unparse) comparison of
the loop tests, the length / block-size substitutions and the counter updates with the forms
the model mirrors.  Fail-closed: anything unrecognised raises and the check reports a broken
obligation.
"""
import ast
import os


def _find(repo):
    tree = ast.parse(open(os.path.join(repo, "paramiko", "sftp_server.py")).read())
    for node in ast.walk(tree):
        if isinstance(node, ast.ClassDef) and node.name == "SFTPServer":
            for f in node.body:
                if isinstance(f, ast.FunctionDef) and f.name == "_check_file":
                    return f
    raise RuntimeError("SFTPServer._check_file not found")


def constants(repo):
    fn = _find(repo)
    min_block, chunk = [], []
    whiles, augs, assigns, ifs = [], [], [], []
    for node in ast.walk(fn):
        if isinstance(node, ast.If):
            ifs.append(ast.unparse(node.test))
            t = node.test
            if isinstance(t, ast.Compare) and isinstance(t.left, ast.Name) and t.left.id == "block_size" \
                    and len(t.ops) == 1 and isinstance(t.ops[0], ast.Lt) and isinstance(t.comparators[0], ast.Constant) \
                    and isinstance(t.comparators[0].value, int):
                min_block.append(t.comparators[0].value)
        elif isinstance(node, ast.While):
            whiles.append(ast.unparse(node.test))
        elif isinstance(node, ast.AugAssign):
            augs.append(ast.unparse(node))
        elif isinstance(node, ast.Assign) and len(node.targets) == 1 and isinstance(node.targets[0], ast.Name):
            name = node.targets[0].id
            if name in ("chunklen", "blocklen", "offset", "count", "length", "block_size", "eof"):
                assigns.append(ast.unparse(node))
            if name == "chunklen":
                v = node.value
                if not (isinstance(v, ast.Call) and ast.unparse(v.func) == "min" and len(v.args) == 2
                        and ast.unparse(v.args[0]) == "blocklen - count" and isinstance(v.args[1], ast.Constant)
                        and isinstance(v.args[1].value, int)):
                    raise RuntimeError("unrecognised chunk length: " + ast.unparse(node))
                chunk.append(v.args[1].value)
    if len(min_block) != 1 or len(chunk) != 1:
        raise RuntimeError("expected one minimum block size and one chunk size, found %r / %r" % (min_block, chunk))
    want_whiles = ["offset < start + length and (not eof)", "count < blocklen"]
    if whiles != want_whiles:
        raise RuntimeError("loop tests of _check_file changed: %r" % whiles)
    want_augs = ["count += len(data)", "offset += len(data)", "sum_out += hash_obj.digest()"]
    if sorted(augs) != sorted(want_augs):
        raise RuntimeError("counter updates of _check_file changed: %r" % augs)
    want_assigns = ["length = msg.get_int64()", "block_size = msg.get_int()", "length = st.st_size - start",
                    "block_size = length", "offset = start", "eof = False",
                    "blocklen = min(block_size, start + length - offset)", "count = 0",
                    "chunklen = min(blocklen - count, %d)" % chunk[0], "eof = True"]
    if sorted(assigns) != sorted(want_assigns):
        raise RuntimeError("assignments of _check_file changed: %r" % assigns)
    for t in ("length == 0", "block_size == 0", "len(data) == 0", "count > 0"):
        if t not in ifs:
            raise RuntimeError("test `%s` not found in _check_file" % t)
    # algorithm selection: the client's list is walked in order, the server's table only consulted
    fors = [n for n in ast.walk(fn) if isinstance(n, ast.For)]
    if len(fors) != 1:
        raise RuntimeError("expected one for-loop (algorithm selection) in _check_file, found %d" % len(fors))
    lp = fors[0]
    shape = (ast.unparse(lp.target), ast.unparse(lp.iter), [ast.unparse(x) for x in lp.body], bool(lp.orelse))
    want = ("x", "alg_list", ["if x in _hash_class:\n    algname = x\n    alg = _hash_class[x]\n    break"], True)
    if shape != want:
        raise RuntimeError("algorithm selection loop of _check_file changed: %r" % (shape,))
    return {"chunk": chunk[0], "min_block": min_block[0], "supported": _supported(repo)}


ALG_IDS = {"md5": 1, "sha1": 2}


def _supported(repo):
    """Keys of the module-level _hash_class table, in source order."""
    tree = ast.parse(open(os.path.join(repo, "paramiko", "sftp_server.py")).read())
    found = []
    for st in tree.body:
        if isinstance(st, ast.Assign) and len(st.targets) == 1 and isinstance(st.targets[0], ast.Name) \
                and st.targets[0].id == "_hash_class":
            if not isinstance(st.value, ast.Dict) or not all(isinstance(k, ast.Constant) and isinstance(k.value, str)
                                                             for k in st.value.keys):
                raise RuntimeError("_hash_class is not a literal dict of names")
            found.append([k.value for k in st.value.keys])
    if len(found) != 1:
        raise RuntimeError("expected one module-level _hash_class table, found %d" % len(found))
    for k in found[0]:
        if k not in ALG_IDS:
            raise RuntimeError("hash name %r is not known to the model's numbering" % k)
    return found[0]


def generate(repo):
    c = constants(repo)
    text = ("(* GENERATED by gen/c32.py from paramiko/sftp_server.py (SFTPServer._check_file) - do not edit *)\n"
            "From Coq Require Import ZArith.\nOpen Scope Z_scope.\n\n"
            "Definition gen_chunk : Z := %d.       (* chunklen = min(blocklen - count, N) *)\n"
            "Definition gen_min_block : Z := %d.   (* if block_size < N: \"Block size too small\" *)\n"
            "(* names of _hash_class in source order; md5 = 1, sha1 = 2 *)\n"
            "Definition gen_supported : list Z := (%s)%%list.\n"
            % (c["chunk"], c["min_block"], " :: ".join(str(ALG_IDS[k]) for k in c["supported"]) + " :: nil"))
    return {"C32_gen.v": text}
