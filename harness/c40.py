"""C40 — SSH config lookup follows OpenSSH first-obtained-value semantics.

Proof: coq/Props/C40_props.v over coq/Model/C40.v (+ coq/Lib/Glob.v, coq/Gen/C40_gen.v).
Tie: (a) gen/c40.py regenerates the token tables from paramiko/config.py (TOKENS_BY_CONFIG_KEY, the
order and source text of the `replacements` dict of _tokenize) on every run; (b) differential run of
the model's own definitions (vm_compute inside Coq) against SSHConfig.from_text(...).lookup(host) and
get_hostnames() on generated configs rendered to text from a structured form; the parsed
SSHConfig._config is compared with the structured form (parse round trip) and with the model's block_config.
Search oracle: the property stated directly — an independent brute-force "first applicable block"
computation over the structured config for every modelled criterion (the closed form of theorem
C40_two_pass: Match host/user see the HostName/User of the earlier applying blocks; own glob matcher via
`re`, own simultaneous token substitution), several lookups on one SSHConfig object, IdentityFile duplicate check, HostName default, get_hostnames = every Host pattern.
"""
import contextlib
import os
import re

from common import coq

PID = "C40"
LEVEL_TEXT = ("Machine-checked proof (Coq, closed under the global context) over an executable model of "
              "SSHConfig lookup: a Host block applies iff some pattern matches and no negated pattern does (glob "
              "matcher proved equivalent to its declarative meaning); for Host blocks and option-independent Match "
              "criteria every non-accumulating key has the value of the first applicable block in file order that "
              "sets it; for all criteria but exec (all/canonical/final/host/originalhost/user/localuser, negated or "
              "not, comma lists of possibly negated patterns) both passes are characterised in closed form over the "
              "config alone (Match host/user only see the HostName/User of the earlier applying blocks), for the "
              "plain final pass and for the CanonicalizeHostname re-lookup alike (C40_relookup: first-pass options "
              "are kept, HostName is overwritten with the canonical name, Host/originalhost match the canonical "
              "name, Match canonical passes) together with the decision which of the two runs and under which name "
              "(C40_canonical_plan: first-pass CanonicalizeHostname/MaxDots/CanonicalDomains, first resolving "
              "domain, fallback); with Match exec the result is characterised through the options obtained so far "
              "(C40_pass_first_obtained, C40_two_pass_option_states); IdentityFile accumulates in order without "
              "duplicates; HostName defaults to the looked-up name; allowed %-tokens and ~ are substituted segment "
              "by segment; get_hostnames reports exactly the Host patterns for any config, Match blocks included.  "
              "The model is tied to paramiko/config.py by regenerated token tables and a differential run against "
              "the real parser and lookup on generated configs every run.")
LEVEL_NOTE = ("Proof on a stated fragment: the text parser (regex line split, shlex, key lower-casing) is not modelled "
              "— configs are generated in structured form, rendered to text and fed to the real parser; every run "
              "compares the parsed SSHConfig._config (block headers, Match criteria, per-block dictionaries) with "
              "the structured form and with the model's block_config (parse round trip, testing not proof); the "
              "implementation-level oracle is the closed form of C40_relookup / C40_canonical_plan computed by "
              "brute force in Python for every criterion (exec included, tracking HostName/User/Port); patterns "
              "without '[' classes, ASCII; CanonicalizeMaxDots must be ASCII digits; no AddressFamily key "
              "(family-specific getaddrinfo is outside the model); DNS is the Section-like environment function "
              "e_resolves (harness: stub socket.gethostbyname), Match exec runs through the environment function "
              "e_exec (harness: stub object installed as paramiko.config.invoke — no process is started; the closed "
              "form over the config alone excludes exec because its command sees every option obtained so far); "
              "fnmatch, str.replace/split, int(), getpass/socket/expanduser (pinned) and sha1 (toy digest installed "
              "in the harness process) are small Gallina re-implementations validated by the differential run.")
TECHNIQUE = "Coq proof (induction over blocks/patterns/segments) + generated tables + vm_compute differential correspondence"

GENS = ["c40"]

# ---------------------------------------------------------------------------------------------
# pinned environment


class Pins:
    resolvable = set()
    user = "alice"
    gethostname = "box.lan.example"
    fqdn = "box.lan.example.org"
    home = "/home/alice"


def exec_stub(cmd):
    """Same definition as exec_stub in Model/C40.v: `eq A B` succeeds iff A == B, `ok ...` succeeds."""
    w = cmd.replace("\t", " ").split(" ")
    w = [x for x in w if x]
    if len(w) == 3 and w[0] == "eq":
        return w[1] == w[2]
    return bool(w) and w[0] == "ok"


class InvokeStub:
    """Stands in for the `invoke` module inside paramiko.config (Match exec)."""
    class _Result:
        def __init__(self, ok):
            self.ok = ok

    calls = []

    @classmethod
    def run(cls, cmd, hide=None, warn=None):
        cls.calls.append(cmd)
        return cls._Result(exec_stub(cmd))


class ToySha1:
    """Stands in for hashlib.sha1 inside paramiko.config (same definition as toyhash in Model/C40.v)."""

    def __init__(self, data=b""):
        self.data = bytes(data)

    def hexdigest(self):
        return toyhash(self.data)


def toyhash(data):
    h = 7
    for b in data:
        h = (h * 31 + b) % 4294967296
    return "%08x" % h


@contextlib.contextmanager
def pinned():
    import getpass
    import socket
    import paramiko.config as pc
    saved = (getpass.getuser, socket.gethostname, socket.getfqdn, os.environ.get("HOME"), pc.sha1,
             socket.gethostbyname, pc.invoke)

    def resolver(name):
        if name in Pins.resolvable:
            return "192.0.2.1"
        raise socket.gaierror(-2, "Name or service not known")
    socket.gethostbyname = resolver
    pc.invoke = InvokeStub
    getpass.getuser = lambda: Pins.user
    socket.gethostname = lambda: Pins.gethostname
    socket.getfqdn = lambda *a: Pins.fqdn
    pc.sha1 = ToySha1
    try:
        yield
    finally:
        getpass.getuser, socket.gethostname, socket.getfqdn = saved[0], saved[1], saved[2]
        pc.sha1 = saved[4]
        socket.gethostbyname, pc.invoke = saved[5], saved[6]
        if saved[3] is None:
            os.environ.pop("HOME", None)
        else:
            os.environ["HOME"] = saved[3]


def set_env(envt):
    Pins.user, Pins.gethostname, Pins.fqdn, Pins.home = envt[:4]
    Pins.resolvable = set(envt[4]) if len(envt) > 4 else set()
    os.environ["HOME"] = Pins.home


ENVS = [
    ("alice", "box.lan.example", "box.lan.example.org", "/home/alice"),
    ("bob", "laptop", "laptop.corp.example", "/Users/bob"),
    ("root", "srv-01.dc.example", "srv-01.dc.example", "/root"),
    ("deploy", "ci", "localhost", "/var/lib/deploy"),
]

# ---------------------------------------------------------------------------------------------
# generators (structured configs)

LABELS = ["web", "db", "app", "a", "b", "x1", "prod", "dev", "gw", "node7"]
DOMAINS = ["example.com", "corp.example", "lan", "example.org"]
USERS = ["alice", "bob", "root", "deploy", "admin", "ops1"]
IDFILES = ["~/.ssh/id_%h_k1", "%d/keys/%u_k2", "/etc/%r/%l_k3", "plain_k4", "/c/%C_k5", "~/%h/%h_k6",
           "/k/%h-%p_k7", "keys/~/id_k8", "/x/~~_k9", "%h%u_k10", "k11_~"]
HOSTNAME_VALUES = ["%h.example.com", "gw-%h", "10.0.0.7", "%h", "real.corp.example", "%h.%h.lan", "h-%p-%h", "%n.x"]
PROXY_VALUES = ["ssh -W %h:%p gw", "none", "NONE", "None", "nc -x ~/%r %h %p", "ssh -q %r@jump nc %h %p",
                "connect ~ %u %n", "ssh -F ~/.ssh/bastion_config -W net:22 bastion", "cat ~", "a~b~c", "%h", "x %p%p"]
CONTROL_VALUES = ["~/.ssh/cm-%r@%h:%p", "/tmp/%C", "/tmp/%L-%l-%n-%u", "/run/%u/%h.sock", "%d/cm/%n", "/tmp/~/cm",
                  "%n%n", "/tmp/cm-%u"]
JUMP_VALUES = ["%r@%h:%p", "jump.example.com", "bastion-%h"]
PLAIN_KEYS = {
    "user": USERS,
    "port": ["22", "2222", "2200", "443", "8022"],
    "forwardagent": ["yes", "no"],
    "compression": ["yes", "no"],
    "serveraliveinterval": ["15", "60", "300"],
    "localforward": ["8080 localhost:80", "9000 db:5432", "1234 %h:22"],
    "stricthostkeychecking": ["ask", "accept-new", "no"],
}
DISPLAY = {
    "user": ["User", "user", "USER"], "port": ["Port", "port"], "hostname": ["HostName", "Hostname", "hostname"],
    "identityfile": ["IdentityFile", "identityfile", "IDENTITYFILE"],
    "proxycommand": ["ProxyCommand", "proxycommand"], "controlpath": ["ControlPath", "controlpath"],
    "proxyjump": ["ProxyJump"], "forwardagent": ["ForwardAgent"], "compression": ["Compression", "compression"],
    "serveraliveinterval": ["ServerAliveInterval"], "localforward": ["LocalForward", "localforward"],
    "stricthostkeychecking": ["StrictHostKeyChecking"],
    "canonicalizehostname": ["CanonicalizeHostname", "canonicalizehostname"],
    "canonicaldomains": ["CanonicalDomains", "canonicaldomains"],
    "canonicalizemaxdots": ["CanonicalizeMaxDots"], "canonicalizefallbacklocal": ["CanonicalizeFallbackLocal"],
}


def gen_host(rng):
    n = rng.choice([1, 1, 2, 2, 3])
    labels = [rng.choice(LABELS) for _ in range(n)]
    if rng.random() < 0.3:
        labels[0] += str(rng.randrange(10))
    h = ".".join(labels)
    if rng.random() < 0.4:
        h += "." + rng.choice(DOMAINS)
    if rng.random() < 0.15:
        h = h.replace(".", "-", 1)
    return h


def gen_pattern(rng, base, allow_neg=True):
    """A lowercase wildcard pattern derived from `base` (so that matches are frequent)."""
    mode = rng.randrange(9)
    p = base
    if mode == 0:
        p = "*"
    elif mode == 1 and "." in base:
        parts = base.split(".")
        parts[rng.randrange(len(parts))] = "*"
        p = ".".join(parts)
    elif mode == 2 and base:
        i = rng.randrange(len(base))
        p = base[:i] + "?" + base[i + 1:]
    elif mode == 3 and base:
        p = "*" + base[rng.randrange(len(base)):]
    elif mode == 4 and base:
        p = base[:rng.randrange(1, len(base) + 1)] + "*"
    elif mode == 5 and len(base) > 2:
        i = rng.randrange(1, len(base))
        j = rng.randrange(i, len(base))
        p = base[:i] + "*" + base[j:]
    elif mode == 6:
        p = rng.choice(["*.*", "?*", "*.example.com", "web*", "*-*", "??", "*a*b*", "db?", "*.lan", "?", "a*?"])
    elif mode == 7:
        p = gen_host(rng)
    if allow_neg and rng.random() < 0.22:
        p = "!" + p
    return p


def gen_body(rng, maxlines=5):
    body = []
    for _ in range(rng.choice([0, 1, 1, 2, 2, 3, 4, maxlines])):
        r = rng.random()
        if r < 0.22:
            k, v = "identityfile", rng.choice(IDFILES)
        elif r < 0.36:
            k, v = "hostname", rng.choice(HOSTNAME_VALUES)
        elif r < 0.46:
            k, v = "proxycommand", rng.choice(PROXY_VALUES)
        elif r < 0.55:
            k, v = "controlpath", rng.choice(CONTROL_VALUES)
        elif r < 0.59:
            k, v = "proxyjump", rng.choice(JUMP_VALUES)
        else:
            k = rng.choice(list(PLAIN_KEYS))
            v = rng.choice(PLAIN_KEYS[k])
        if rng.random() < 0.12:
            v = '"' + v + '"'
        elif rng.random() < 0.02:
            v = rng.choice(['"', '""', '"x', 'x"'])
        body.append((k, v))
        if rng.random() < 0.12:
            body.append((k, v))                      # repeated line
    return body


EXEC_CMDS = ["ok", "ok %h", "no", "eq %h web1", "eq %u alice", "eq %p 22", "eq %n %h", "eq %r bob", "eq %L box",
             "eq  %h  gw-web"]
CANON_KEYS = {
    "canonicalizehostname": ["yes", "yes", "always", "no", "YES"],
    "canonicalizemaxdots": ["0", "1", "2", "3"],
    "canonicaldomains": None,           # filled from DOMAINS
    "canonicalizefallbacklocal": ["yes", "no", "no"],
}


def gen_canon_lines(rng):
    """Canonicalisation options (for the global section or a block)."""
    out = []
    if rng.random() < 0.9:
        out.append(("canonicalizehostname", rng.choice(CANON_KEYS["canonicalizehostname"])))
    if rng.random() < 0.85:
        doms = rng.sample(DOMAINS, rng.choice([1, 2, 3]))
        out.append(("canonicaldomains", rng.choice([" ", "  ", "\t"]).join(doms)))
    if rng.random() < 0.5:
        out.append(("canonicalizemaxdots", rng.choice(CANON_KEYS["canonicalizemaxdots"])))
    if rng.random() < 0.4:
        out.append(("canonicalizefallbacklocal", rng.choice(CANON_KEYS["canonicalizefallbacklocal"])))
    rng.shuffle(out)
    return out


def gen_criteria(rng, hosts, static, ban=()):
    if rng.random() < 0.2:
        pre = []
        if rng.random() < 0.4 and "canonical" not in ban:
            pre = [("canonical", rng.random() < 0.5, "")]
        return pre + [("all", False, "")]
    out = []
    kinds = ["originalhost", "localuser"] if static else ["host", "originalhost", "user", "localuser", "final", "host",
                                                         "user", "exec"]
    kinds = [k for k in kinds if k not in ban]
    for _ in range(rng.choice([1, 1, 2, 3])):
        t = rng.choice(kinds)
        neg = rng.random() < 0.2
        if t == "final":
            out.append((t, neg, ""))
            continue
        if t == "exec":
            out.append((t, neg, rng.choice(EXEC_CMDS)))
            continue
        if t in ("user", "localuser"):
            pats = [gen_pattern(rng, rng.choice(USERS)) for _ in range(rng.choice([1, 1, 2]))]
        else:
            pats = [gen_pattern(rng, rng.choice(hosts + HOSTNAME_VALUES[:3] if t == "host" else hosts))
                    for _ in range(rng.choice([1, 1, 2, 3]))]
            pats = [p for p in pats if "%" not in p or t == "host"]
            pats = pats or ["*"]
        out.append((t, neg, ",".join(pats)))
    if rng.random() < 0.2 and "canonical" not in ban:
        out.insert(0, ("canonical", rng.random() < 0.5, ""))
    return out


def gen_config(rng, static, canon=False, forward=False):
    hosts = [gen_host(rng) for _ in range(rng.choice([2, 3, 4]))]
    names = list(hosts)                 # the names looked up
    resolvable = []
    if canon:
        for h in names:
            for d in DOMAINS:
                if rng.random() < 0.3:
                    resolvable.append(h + "." + d)
        # patterns are also derived from canonical names so that blocks match after the re-lookup
        hosts = hosts + [h + "." + rng.choice(DOMAINS) for h in names]
    nblocks = rng.choice([0, 1, 2, 3, 4, 5, 6, 8, 10, 12])
    blocks = []
    for _ in range(nblocks):
        if rng.random() < 0.62:
            pats = [gen_pattern(rng, rng.choice(hosts)) for _ in range(rng.choice([1, 1, 2, 2, 3, 4]))]
            blocks.append({"host": pats, "body": gen_body(rng)})
        else:
            blocks.append({"match": gen_criteria(rng, hosts, static, ban=("final", "canonical") if forward else ()),
                           "body": gen_body(rng)})
    if forward:
        # a Match host / user block placed BEFORE the block that sets the HostName / User it tests, in a file
        # without any final / canonical criterion: only the second walk over the blocks lets it apply
        for _ in range(rng.choice([1, 1, 2])):
            if rng.random() < 0.6:
                val = rng.choice(["real.corp.example", "10.0.0.7", "gw-%h", "%h.example.com", "db9.lan"])
                crit, line = "host", ("hostname", val)
            else:
                val = rng.choice(USERS)
                crit, line = "user", ("user", val)
            pat = gen_pattern(rng, val, allow_neg=False) if rng.random() < 0.6 else val
            early = {"match": [(crit, False, pat)] + ([("localuser", False, "*")] if rng.random() < 0.3 else []),
                     "body": gen_body(rng) or [("compression", "yes")]}
            late = {"host": [gen_pattern(rng, rng.choice(names), allow_neg=False), names[0]],
                    "body": [line] + gen_body(rng, 2)}
            i = rng.randrange(len(blocks) + 1)
            blocks.insert(i, early)
            blocks.insert(rng.randrange(i + 1, len(blocks) + 1), late)
    glob = gen_body(rng, 3) if rng.random() < 0.3 else []
    if canon:
        where = rng.random()
        if where < 0.6 or not blocks:
            glob = gen_canon_lines(rng) + glob
        else:
            b = rng.choice(blocks)
            b["body"] = gen_canon_lines(rng) + b["body"]
        if rng.random() < 0.3 and blocks:
            blocks[rng.randrange(len(blocks))]["body"].append(
                ("canonicalizehostname", rng.choice(["no", "yes"])))
    lookups = list(names[:2])
    if rng.random() < 0.3:
        lookups.append(gen_host(rng))
    return {"global": glob, "blocks": blocks, "resolvable": resolvable}, lookups


def render(cfg, rng):
    """Structured config -> ssh_config text (layout chosen at random; semantics fixed)."""
    lines = []

    def emit_body(body, indent):
        for k, v in body:
            name = rng.choice(DISPLAY.get(k, [k]))
            sep = rng.choice([" ", " ", "  ", "\t", "=", " = ", " ="])
            if v.startswith("=") and "=" not in sep:
                sep = " = "
            lines.append(indent + name + sep + v + rng.choice(["", "", " ", "\t"]))
            if rng.random() < 0.08:
                lines.append(rng.choice(["", "# a comment", "   # Host commented", "  "]))

    emit_body(cfg["global"], "")
    for b in cfg["blocks"]:
        indent = rng.choice(["  ", "    ", "\t", ""])
        if "host" in b:
            lines.append(rng.choice(["Host", "host", "HOST"]) + rng.choice([" ", "  ", "=", "\t"]) +
                         rng.choice([" ", "  "]).join(b["host"]))
        else:
            toks = []
            for t, neg, param in b["match"]:
                toks.append(("!" if neg else "") + t)
                if t == "exec":
                    toks.append('"' + param + '"')
                elif t not in ("all", "canonical", "final"):
                    toks.append(param)
            lines.append(rng.choice(["Match", "match"]) + " " + " ".join(toks))
        emit_body(b["body"], indent)
    return "\n".join(lines) + "\n"


# ---------------------------------------------------------------------------------------------
# implementation drive + canonical forms


def enc_str(s):
    b = s.encode("utf-8")
    return [len(b)] + list(b)


def canon_options(d):
    return [0] + canon_dict(d)


def canon_dict(d):
    out = []
    for k in sorted(d):
        v = d[k]
        out += enc_str(k)
        if v is None:
            out += [0]
        elif isinstance(v, list):
            out += [2, len(v)]
            for x in v:
                out += enc_str(x)
        else:
            out += [1] + enc_str(v)
    return out


def impl_hostnames(text):
    from paramiko.config import SSHConfig
    return SSHConfig.from_text(text).get_hostnames()


CT = {"all": "CAll", "canonical": "CCanonical", "final": "CFinal", "host": "CHost", "originalhost": "COrigHost",
      "user": "CUser", "localuser": "CLocalUser", "exec": "CExec"}


def zs(s):
    """A string as one Coq number: 0x01 followed by its bytes (decoded by `unz` in Model/C40.v)."""
    return "0x01" + s.encode("utf-8").hex()


def coq_body(body):
    return "[" + ";".join("(%s,%s)" % (zs(k), zs(v)) for k, v in body) + "]"


def coq_blocks(cfg):
    out = []
    for b in cfg["blocks"]:
        if "host" in b:
            hdr = "ZHost [%s]" % ";".join(zs(p) for p in b["host"])
        else:
            hdr = "ZMatch [%s]" % ";".join("(%s,%s,%s)" % (CT[t], coq(bool(neg)), zs(param))
                                           for t, neg, param in b["match"])
        out.append("(%s, %s)" % (hdr, coq_body(b["body"])))
    return "[" + ";".join(out) + "]"


# ---------------------------------------------------------------------------------------------
# independent oracle (the property stated directly)

LIST_KEYS = ("identityfile", "localforward", "remoteforward")
# documented tokens per option (paramiko docs "Expansion tokens"; OpenSSH ssh_config TOKENS)
DOC_TOKENS = {
    "controlpath": ["%C", "%h", "%l", "%L", "%n", "%p", "%r", "%u"],
    "hostname": ["%h"],
    "identityfile": ["%C", "~", "%d", "%h", "%l", "%u", "%r"],
    "proxycommand": ["~", "%h", "%p", "%r"],
    "proxyjump": ["%h", "%p", "%r"],
}


def glob_match(pat, text):
    rx = "".join(".*" if c == "*" else "." if c == "?" else re.escape(c) for c in pat)
    return re.fullmatch(rx, text, re.S) is not None


def patterns_apply(pats, text):
    """Some (non-negated) pattern matches and no negated pattern matches."""
    pos = [p for p in pats if not p.startswith("!")]
    neg = [p[1:] for p in pats if p.startswith("!")]
    return any(glob_match(p, text) for p in pos) and not any(glob_match(p, text) for p in neg)


def is_static(cfg):
    return all("host" in b or all(t in ("all", "canonical", "originalhost", "localuser") for t, _, _ in b["match"])
               for b in cfg["blocks"])


def unquote(v):
    return v[1:-1] if v.startswith('"') and v.endswith('"') else v


def quirky_proxy(body):
    """'ProxyCommand none' next to another ProxyCommand line in one block (the parser lets `none` win)."""
    vals = [v for k, v in body if k == "proxycommand"]
    return len(vals) > 1 and any(v.lower() == "none" for v in vals)


def clean(s):
    return "%" not in s and "~" not in s


class Inexact(Exception):
    """The oracle's simultaneous token substitution is not exact for this command (a substituted text itself
    contains % or ~): leave the case to the model correspondence."""


EXEC_TOKENS = ["%C", "%d", "%h", "%L", "%l", "%n", "%p", "%r", "%u"]


def exec_command(param, host, envt, oh, ou, op):
    """`Match exec` command after token substitution against the options obtained so far."""
    port = op if op is not None else 22
    ruser = ou if ou is not None else envt[0]
    lshort = envt[1].split(".")[0]
    texts = {"%h": oh if oh is not None else host, "%p": str(port), "%r": ruser, "%u": envt[0], "%d": envt[3],
             "%l": envt[2], "%L": lshort, "%n": host, "%C": toyhash((lshort + host + repr(port) + ruser).encode())}
    if not all(clean(t) for t in texts.values()):
        raise Inexact()
    return re.sub(r"%[A-Za-z]", lambda m: texts[m.group(0)] if m.group(0) in EXEC_TOKENS else m.group(0), param)


def crit_applies(match, host, envt, st, final, canonical=False):
    """All criteria of a Match line hold.  `st` = (HostName, User, Port) as obtained (raw) from the earlier
    applying blocks, None when not yet set — the only options any criterion can see."""
    oh, ou, op = st
    for t, neg, param in match:
        if t == "all":
            return True
        if t == "canonical":
            ok = canonical
        elif t == "final":
            ok = final
        elif t == "host":
            ok = patterns_apply(param.split(","), oh or host)
        elif t == "originalhost":
            ok = patterns_apply(param.split(","), host)
        elif t == "user":
            ok = patterns_apply(param.split(","), ou or envt[0])
        elif t == "localuser":
            ok = patterns_apply(param.split(","), envt[0])
        elif t == "exec":
            ok = exec_stub(exec_command(param, host, envt, oh, ou, op))
        else:
            raise AssertionError(t)
        if ok == neg:
            return False
    return True


def block_view(body):
    """Property-level view of one block: the first line for a key wins; list keys collect."""
    d = {}
    for k, v in body:
        if k in LIST_KEYS:
            d.setdefault(k, []).append(unquote(v))
        elif k not in d:
            d[k] = None if (k == "proxycommand" and v.lower() == "none") else unquote(v)
    return d


def advance(st, d):
    return tuple(st[i] if st[i] is not None or key not in d else d[key]
                 for i, key in enumerate(("hostname", "user", "port")))


def sel(blocks, host, envt, final, st, k, canonical=False):
    """Closed form of C40_two_pass / C40_relookup: (found, value, block) of key k in the first block that
    applies and sets k, applicability being decided with the HostName / User / Port of the earlier applying
    blocks only."""
    for b in blocks:
        if patterns_apply(b["host"], host) if "host" in b else \
                crit_applies(b["match"], host, envt, st, final, canonical):
            d = block_view(b["body"])
            if k in d:
                return True, d[k], b
            st = advance(st, d)
    return False, None, None


def coll(blocks, host, envt, final, st, canonical=False):
    """IdentityFile values of the applying blocks in order (same bookkeeping as sel)."""
    out = []
    for b in blocks:
        if patterns_apply(b["host"], host) if "host" in b else \
                crit_applies(b["match"], host, envt, st, final, canonical):
            d = block_view(b["body"])
            out += d.get("identityfile", [])
            st = advance(st, d)
    return out


def has_exec(cfg):
    return any("match" in b and any(t == "exec" for t, _, _ in b["match"]) for b in cfg["blocks"])


def expected_lookup(cfg, host, envt):
    """("out", {key: value | SKIP}) or ("exn", class name), or None when a Match exec command cannot be
    expanded exactly by the oracle (then only the model correspondence covers the case).
    The property computed by brute force over the structured config: first pass, HostName default,
    canonicalisation decision from the first pass's options, then ONE second pass — plain, or the canonical
    re-lookup under the canonical name (theorems C40_relookup / C40_canonical_plan)."""
    try:
        return expected_lookup_exact(cfg, host, envt)
    except Inexact:
        return None


def expected_lookup_exact(cfg, host, envt):
    allblocks = [{"host": ["*"], "body": cfg["global"]}] + cfg["blocks"]
    resolvable = set(envt[4]) if len(envt) > 4 else set()
    keys = []
    for b in allblocks:
        for k, _ in b["body"]:
            if k not in keys:
                keys.append(k)

    def first1(k):
        found, v, _ = sel(allblocks, host, envt, False, (None, None, None), k)
        return v if found else None
    f1h, h1, _ = sel(allblocks, host, envt, False, (None, None, None), "hostname")
    u1 = first1("user")
    # which second pass
    target, canonical = host, False
    md = first1("canonicalizemaxdots")
    if first1("canonicalizehostname") in ("yes", "always") and host.count(".") <= (int(md) if md is not None else 1):
        cd = first1("canonicaldomains")
        if cd is None:
            return ("exn", "KeyError")
        canonical = True
        for dom in cd.split():
            if host + "." + dom in resolvable:
                target = host + "." + dom
                break
        else:
            if first1("canonicalizefallbacklocal") not in (None, "yes"):
                return ("exn", "CouldNotCanonicalize")
    oh2 = target if canonical else (h1 if f1h else host)
    st2 = (oh2, u1, first1("port"))
    raw = {}
    skip = set()
    for k in keys + ["hostname"]:
        if k == "identityfile" or k in raw:
            continue
        if k == "hostname":
            raw[k] = oh2
            continue
        found, v, blk = sel(allblocks, host, envt, False, (None, None, None), k)
        if not found:
            found, v, blk = sel(allblocks, target, envt, True, st2, k, canonical)
        if found:
            raw[k] = v
            if k == "proxycommand" and quirky_proxy(blk["body"]):
                skip.add(k)
    ids = []
    for x in coll(allblocks, host, envt, False, (None, None, None)) + coll(allblocks, target, envt, True, st2, canonical):
        if x not in ids:
            ids.append(x)
    host = target              # tokens are expanded under the name of the second pass
    if ids:
        raw["identityfile"] = ids
    # expansion: simultaneous substitution of the documented tokens (exact when every
    # substituted text is itself free of % and ~)
    hn = raw["hostname"].replace("%h", host)
    port = raw.get("port", 22)
    ruser = raw.get("user", envt[0])
    lshort = envt[1].split(".")[0]
    texts = {"%h": hn, "%p": str(port), "%r": ruser, "%u": envt[0], "%d": envt[3], "~": envt[3], "%l": envt[2],
             "%L": lshort, "%n": host, "%C": toyhash((lshort + host + repr(port) + ruser).encode())}
    exact = all(clean(t) for t in texts.values())
    out = {}
    for k, v in raw.items():
        if k in skip:
            out[k] = SKIP
            continue
        toks = DOC_TOKENS.get(k)
        if v is None or not toks or k == "hostname":
            out[k] = hn if k == "hostname" else v
            continue
        if not exact:
            out[k] = SKIP
            continue

        def sub(s):
            return re.sub(r"%[A-Za-z]|~", lambda m: texts[m.group(0)] if m.group(0) in toks else m.group(0), s)
        out[k] = [sub(x) for x in v] if isinstance(v, list) else sub(v)
    if not clean(host):
        out["hostname"] = SKIP
    return ("out", out)


class _Skip:
    def __repr__(self):
        return "SKIP"


SKIP = _Skip()


def all_host_patterns(cfg):
    s = {"*"}
    for b in cfg["blocks"]:
        if "host" in b:
            s.update(b["host"])
    return s


def scribble(res):
    """Caller-side mutation of a returned result: must never reach the parsed config or later lookups."""
    for v in res.values():
        if isinstance(v, list):
            v.append("<<caller-appended>>")


def check_case(ctx, cfg, text, host, envt, sc=None, prior=()):
    """Run the real lookup on one (config, host) — on the SSHConfig object `sc` that already served the
    lookups `prior` (a fresh object replaying them when sc is None); apply the oracle; returns the impl
    result (dict) or None."""
    import copy
    set_env(envt)
    case = {"text": text, "host": host, "env": list(envt), "config": cfg, "prior": list(prior)}
    try:
        if sc is None:
            from paramiko.config import SSHConfig
            sc = SSHConfig.from_text(text)
            for h in prior:
                scribble(sc.lookup(h))
        res = sc.lookup(host)
        got = copy.deepcopy(dict(res))
        scribble(res)
    except Exception as e:  # noqa
        got = e
    exp = expected_lookup(cfg, host, envt)
    if isinstance(got, Exception):
        name = type(got).__name__
        if exp is not None and exp == ("exn", name):
            ctx.dist["outcome-" + name] = ctx.dist.get("outcome-" + name, 0) + 1
        elif exp is None and name in ("KeyError", "CouldNotCanonicalize"):
            pass                                  # exec config: left to the model correspondence
        else:
            ctx.fail("lookup-raises-" + name, "lookup raised %s where the property gives %s" % (
                name, "an options dict" if exp is None or exp[0] == "out" else exp[1]),
                case=case, expected=(exp[1] if exp else "an options dict"), observed=repr(got))
        return ("exn", name)
    ids = got.get("identityfile")
    if ids is not None and len(set(ids)) != len(ids):
        ctx.fail("identityfile-duplicates", "IdentityFile values contain a duplicate", case=case,
                 expected=sorted(set(ids)), observed=ids)
    if "hostname" not in got:
        ctx.fail("hostname-default-missing", "lookup result has no hostname", case=case, expected=host, observed=got)
    if exp is not None and exp[0] == "exn":
        ctx.fail("lookup-should-raise-" + exp[1], "lookup returns a result where canonicalisation must raise %s"
                 % exp[1], case=case, expected=exp[1], observed=got)
    elif exp is not None:
        exp = exp[1]
        if set(exp) != set(got):
            ctx.fail("first-obtained-keys", "set of options differs from the first-applicable-block computation",
                     case=case, expected=sorted(exp), observed=sorted(got))
        else:
            for k in sorted(exp):
                if exp[k] is SKIP or exp[k] == got[k]:
                    continue
                if k == "identityfile":
                    key, what = "identityfile-accumulation", "IdentityFile is not the in-order duplicate-free accumulation over the applicable blocks"
                elif k == "hostname":
                    key, what = "hostname-value", "HostName is not the first obtained value / the looked-up or canonical name"
                elif k in DOC_TOKENS and isinstance(exp[k], str) and isinstance(got[k], str) and \
                        re.search(r"%[A-Za-z]|~", got[k]) and not re.search(r"%[A-Za-z]|~", exp[k]):
                    key, what = "token-not-expanded", "a documented %%-token of %s is left unexpanded" % k
                else:
                    key, what = "first-obtained-value", "option %s is not the value of the first applicable block that sets it" % k
                ctx.fail(key, what, case=dict(case, key=k), expected=exp[k], observed=got[k])
                break
    return ("out", got)


def expected_parse(cfg):
    """What SSHConfig.parse must build from the text rendered for `cfg` (structured form -> _config)."""
    def block_dict(body):
        d = {}
        for k, v in body:
            if k == "proxycommand" and v.lower() == "none":
                d[k] = None                         # stored as None, replacing an earlier value of the block
                continue
            v = unquote(v)
            if k in LIST_KEYS:
                d.setdefault(k, []).append(v)
            elif k not in d:
                d[k] = v
        return d
    out = [{"host": ["*"], "config": block_dict(cfg["global"])}]
    for b in cfg["blocks"]:
        if "host" in b:
            out.append({"host": list(b["host"]), "config": block_dict(b["body"])})
        else:
            out.append({"matches": [{"type": t, "param": (None if t in ("all", "canonical", "final") else param),
                                     "negate": bool(neg)} for t, neg, param in b["match"]],
                        "config": block_dict(b["body"])})
    return out


def check_parse(ctx, cfg, text):
    """Structured form -> text -> real parser -> compare the block structure (headers and per-block
    dictionaries) with the structured form.  Returns the parsed _config or None."""
    from paramiko.config import SSHConfig
    case = {"text": text, "config": cfg}
    want = expected_parse(cfg)
    try:
        got = SSHConfig.from_text(text)._config
    except Exception as e:  # noqa
        ctx.fail("parse-raises", "SSHConfig.parse raised %s on a well-formed config" % type(e).__name__, case=case,
                 expected=want, observed=repr(e))
        return None
    got = [dict(x) for x in got]

    def norm(entries):
        # repeats inside one block's IdentityFile list are not observable through lookups: compare up to them
        out = []
        for e in entries:
            e = dict(e, config=dict(e["config"]))
            ids = e["config"].get("identityfile")
            if isinstance(ids, list):
                e["config"]["identityfile"] = [x for i, x in enumerate(ids) if x not in ids[:i]]
            out.append(e)
        return out
    got, want = norm(got), norm(want)
    if got != want:
        i = next((j for j in range(min(len(got), len(want))) if got[j] != want[j]), min(len(got), len(want)))
        ctx.fail("parser-structure", "the parsed block structure differs from the structured config that was rendered "
                 "(block headers, key folding, separators, quoting, repeated keys)", case=dict(case, block=i),
                 expected=want[i] if i < len(want) else None, observed=got[i] if i < len(got) else None)
    return got


def record_distribution(ctx, cfg):
    """Histogram of the Match criteria combinations and canonicalisation options that were generated."""
    def bump(k):
        ctx.dist[k] = ctx.dist.get(k, 0) + 1
    for b in cfg["blocks"]:
        if "match" not in b:
            if any(p.startswith("!") for p in b["host"]):
                bump("host-block-with-negated-pattern")
            continue
        types = sorted({t for t, _, _ in b["match"]})
        bump("match-combo:" + "+".join(types))
        for t, neg, param in b["match"]:
            bump("crit-" + ("!" if neg else "") + t)
            if "," in param and t != "exec":
                bump("crit-comma-list")
                if any(x.startswith("!") for x in param.split(",")):
                    bump("crit-comma-list-with-negated-pattern")
    if not any("match" in b and any(t in ("final", "canonical") for t, _, _ in b["match"]) for b in cfg["blocks"]) \
            and any("match" in b and any(t in ("host", "user") for t, _, _ in b["match"]) for b in cfg["blocks"]):
        bump("config-host/user-criteria-without-final/canonical")
    keys = {k for k, _ in cfg["global"]} | {k for b in cfg["blocks"] for k, _ in b["body"]}
    for k in ("canonicalizehostname", "canonicaldomains", "canonicalizemaxdots", "canonicalizefallbacklocal"):
        if k in keys:
            bump("config-with-" + k)


def check_hostnames(ctx, cfg, text):
    case = {"text": text, "config": cfg}
    want = all_host_patterns(cfg)
    try:
        got = impl_hostnames(text)
    except KeyError as e:
        ctx.fail("get-hostnames-match-keyerror", "get_hostnames() raises KeyError when the config has a Match block",
                 case=case, expected=sorted(want), observed=repr(e))
        return None
    except Exception as e:  # noqa
        ctx.fail("get-hostnames-raises", "get_hostnames() raised %s" % type(e).__name__, case=case,
                 expected=sorted(want), observed=repr(e))
        return None
    if set(got) != want:
        ctx.fail("get-hostnames-set", "get_hostnames() is not the set of Host patterns", case=case,
                 expected=sorted(want), observed=sorted(got))
    return got


# directed cases (run first on every seed): the three repaired defects and parser quirks
DIRECTED = [
    # forward dependencies: the Match block precedes the block that sets the HostName / User it tests and the
    # file has no final / canonical criterion; and Match host on the DEFAULTED HostName
    ({"global": [], "resolvable": [],
      "blocks": [{"match": [("host", False, "*.internal")], "body": [("user", "deploy"), ("identityfile", "/k/int_%h")]},
                 {"match": [("user", False, "svc")], "body": [("port", "2200"), ("proxycommand", "ssh -F ~/.ssh/b_cfg gw")]},
                 {"host": ["app*"], "body": [("hostname", "%h.internal"), ("identityfile", "keys/~/id")]},
                 {"host": ["db*"], "body": [("user", "svc")]},
                 {"match": [("host", True, "app*,db*")], "body": [("compression", "yes")]}]},
     ["app1", "db1", "other"]),
    # canonical re-lookup: HostName of the first pass is overwritten, Host / originalhost see the canonical
    # name, Match canonical passes, first-pass options are kept
    ({"global": [("canonicalizehostname", "yes"), ("canonicaldomains", "x.y  lan")],
      "resolvable": ["a.lan", "web.x.y", "web.lan"],
      "blocks": [{"host": ["a"], "body": [("hostname", "b"), ("user", "u1")]},
                 {"match": [("canonical", False, ""), ("host", False, "a.lan")], "body": [("user", "c"), ("port", "7")]},
                 {"match": [("canonical", True, ""), ("all", False, "")], "body": [("compression", "yes")]},
                 {"host": ["*.lan", "!web.*"], "body": [("identityfile", "/k/%h_%n")]},
                 {"match": [("originalhost", False, "*.x.y,!a*")], "body": [("proxyjump", "%h")]}]},
     ["a", "web", "a.b.c", "zz"]),
    # canonicalisation failures: no CanonicalDomains (KeyError), fallback disabled (CouldNotCanonicalize),
    # too many dots (plain), option only obtained in the final pass (no effect)
    ({"global": [], "resolvable": [],
      "blocks": [{"host": ["k*"], "body": [("canonicalizehostname", "always")]},
                 {"host": ["n*"], "body": [("canonicalizehostname", "yes"), ("canonicaldomains", "lan"),
                                           ("canonicalizefallbacklocal", "no"), ("canonicalizemaxdots", "0")]},
                 {"match": [("final", False, "")], "body": [("canonicalizehostname", "yes"), ("user", "f")]}]},
     ["k1", "n1", "n1.x", "other"]),
    # Match exec through the stubbed invoke: tokens see the options obtained so far
    ({"global": [], "resolvable": [],
      "blocks": [{"host": ["web1"], "body": [("port", "2222")]},
                 {"match": [("exec", False, "eq %h web1"), ("exec", True, "eq %p 22")], "body": [("user", "e1")]},
                 {"match": [("exec", False, "no")], "body": [("user", "never")]},
                 {"match": [("exec", True, "eq %r e1"), ("final", False, "")], "body": [("compression", "yes")]}]},
     ["web1", "web2"]),
    # Match host on a HostName set by an earlier block, with a competing later block
    ({"global": [], "blocks": [{"host": ["app*"], "body": [("hostname", "%h.prod.internal"), ("identityfile", "/keys/app")]},
                               {"match": [("host", False, "*.prod.internal")],
                                "body": [("user", "deploy"), ("identityfile", "/keys/prod"),
                                         ("proxycommand", "ssh -W %h:%p gate")]},
                               {"match": [("user", False, "deploy")], "body": [("port", "2200")]},
                               {"host": ["*"], "body": [("user", "nobody"), ("identityfile", "/keys/default"),
                                                        ("proxycommand", "none"), ("port", "22")]}]},
     ["app3", "db1"]),
    # one identityfile-bearing block with host-dependent tokens, several names on the same object
    ({"global": [], "blocks": [{"host": ["*"], "body": [("identityfile", "/k/%h_%r"), ("localforward", "1 %h:2")]},
                               {"host": ["b"], "body": [("user", "ub")]}]}, ["a", "b", "c"]),
    ({"global": [], "blocks": [{"host": ["a", "b"], "body": [("user", "x")]},
                               {"match": [("all", False, "")], "body": [("port", "3")]}]}, ["a", "zz"]),
    ({"global": [], "blocks": [{"host": ["a"], "body": [("identityfile", "k1"), ("identityfile", "k1"),
                                                        ("identityfile", "k2")]},
                               {"host": ["*"], "body": [("identityfile", "k2"), ("identityfile", "k3"),
                                                        ("identityfile", "k3")]}]}, ["a", "b"]),
    ({"global": [], "blocks": [{"host": ["a"], "body": [("identityfile", "/k/%h"), ("proxycommand", "x %h"),
                                                        ("hostname", "%h.example.com")]}]}, ["a"]),
    ({"global": [("identityfile", "~/g_%h")], "blocks": [{"host": ["*"], "body": [("hostname", "%h.lan")]}]}, ["a"]),
    ({"global": [("user", "g")], "blocks": [{"host": ["*.x", "!b.x"], "body": [("user", "u1"), ("user", "u2")]},
                                            {"host": ["!*"], "body": [("port", "1")]},
                                            {"host": ["b.x"], "body": [("port", "2"), ("proxycommand", "NONE")]},
                                            {"host": ["*"], "body": [("port", "9"), ("proxycommand", "p %h")]}]},
     ["a.x", "b.x", "c"]),
    ({"global": [], "blocks": [{"host": ["a"], "body": [("hostname", '""'), ("port", '"')]},
                               {"match": [("host", False, "a")], "body": [("user", "x")]},
                               {"match": [("final", False, ""), ("user", True, "x")], "body": [("port", "5")]},
                               {"match": [("canonical", True, ""), ("all", False, "")], "body": [("compression", "yes")]},
                               {"match": [("canonical", False, ""), ("all", False, "")], "body": [("forwardagent", "yes")]}]},
     ["a", "b"]),
]


def run(ctx):
    rng = ctx.rng
    ctx.rule = ("seeded generator (random.Random('C40-<seed>')): structured configs of 0-12 Host/Match blocks "
                "(lowercase wildcard and negated patterns derived from the hostnames looked up, repeated keys and "
                "lines, IdentityFile lists, %-tokens and ~ in HostName/IdentityFile/ProxyCommand/ControlPath/"
                "ProxyJump, quoted values, 'ProxyCommand none', Match all/canonical/final/host/originalhost/user/"
                "localuser/exec with negation and comma lists; 30% of the configs carry CanonicalizeHostname / "
                "CanonicalDomains / CanonicalizeMaxDots / CanonicalizeFallbackLocal with a stub resolver, Match exec "
                "runs through a stub installed as paramiko.config.invoke; a third of the option-dependent configs are "
                "'forward' ones: a Match host/user block placed before the block that sets the HostName/User it "
                "tests, in a file without final/canonical criteria; token values put %x and ~ at the start, in the "
                "middle, at the end, repeated and adjacent, with and without a % in the value; the histogram of criteria combinations "
                "and lookup outcomes is in input_distribution) rendered to text with random layout/case/separators/comments and parsed "
                "by the real SSHConfig; 60% of the configs use option-independent criteria only (the oracle is exact for every criterion); "
                "every rendered config is also compared block by block with the parser's _config (parse round trip); "
                "each config is parsed once and serves all its lookups (first name looked up again at the end, returned "
                "lists scribbled on by the caller in between; the parsed _config must stay unchanged), and the previous "
                "config's object is looked up again after the next one was parsed and used (two live objects); "
                "8 malformed texts must raise ConfigParseError; random hostnames; 4 pinned environments; a case is non-trivial when distinct and at least one "
                "block other than the implicit global one exists")
    ctx.trusted += ["model coq/Model/C40.v is hand-written; tied to paramiko/config.py by coq/Gen/C40_gen.v (token "
                    "tables regenerated from the source each run, fail-closed) and by this differential run "
                    "(vm_compute of the model's own definitions, no extraction)",
                    "the text parser of SSHConfig.parse/_get_hosts/_get_matches is exercised (configs are rendered "
                    "to text) but not modelled",
                    "getpass.getuser / socket.gethostname / socket.getfqdn / socket.gethostbyname / HOME / "
                    "paramiko.config.sha1 / paramiko.config.invoke are replaced in the harness process (toy digest and "
                    "exec stub defined identically in Gallina)"]
    ctx.assumptions += ["fragment: patterns without '[', ASCII text, no AddressFamily key, CanonicalizeMaxDots in "
                        "ASCII digits, Match keywords in lower case; DNS and Match exec through stubbed environment "
                        "functions"]
    ctx.prove(GENS)
    n_cfg = 2000 if ctx.thorough else 200
    cfg_cases = []          # (coq text, canon, info): one per config = get_hostnames + one lookup per host
    with pinned():
        import fnmatch
        from paramiko.config import SSHConfig
        todo = [(cfg, hosts, True) for cfg, hosts in DIRECTED]
        for i in range(n_cfg):
            static = rng.random() < 0.6
            forward = (not static) and rng.random() < 0.35
            cfg, hosts = gen_config(rng, static, canon=(not forward) and rng.random() < 0.3, forward=forward)
            todo.append((cfg, hosts, False))
        prev_obj = None
        for idx, (cfg, hosts, directed) in enumerate(todo):
            text = render(cfg, rng)
            envt = (ENVS[idx % len(ENVS)] if directed else rng.choice(ENVS)) + (tuple(cfg.get("resolvable", ())),)
            record_distribution(ctx, cfg)
            stat = is_static(cfg)
            parsed = check_parse(ctx, cfg, text)
            ctx.count(("parse", text), nontrivial=bool(cfg["blocks"]) or bool(cfg["global"]), kind="parse-roundtrip")
            hn = check_hostnames(ctx, cfg, text)
            ctx.count(("hostnames", text), nontrivial=bool(cfg["blocks"]),
                      kind="get_hostnames-with-match" if any("match" in b for b in cfg["blocks"]) else "get_hostnames")
            canon = [-2]
            if hn is not None:
                canon = []
                for s in sorted(hn):
                    canon += enc_str(s)
            canon = [len(canon)] + canon
            pre = []
            if parsed is None or len(parsed) != len(cfg["blocks"]) + 1:
                pre = [-3]
            else:
                for entry in parsed:
                    r = canon_dict(entry["config"])
                    pre += [len(r)] + r
            canon = pre + canon
            impl = {"get_hostnames": sorted(hn) if hn is not None else None,
                    "_config": parsed}
            import copy
            try:
                sc_obj = SSHConfig.from_text(text)
                before = copy.deepcopy([dict(x) for x in sc_obj._config])
            except Exception:  # noqa  (already reported by check_parse)
                sc_obj, before = None, None
            hosts = list(hosts) + ([hosts[0]] if hosts else [])     # the first name again, on the same object
            done = []
            for host in hosts:
                outcome = check_case(ctx, cfg, text, host, envt, sc=sc_obj, prior=done)
                got = outcome[1] if outcome[0] == "out" else None
                done.append(host)
                ctx.count(("lookup", text, host, envt), nontrivial=bool(cfg["blocks"]),
                          kind="lookup-directed" if directed else "lookup-static" if stat else "lookup-dynamic")
                if outcome[0] == "out":
                    r = canon_options(got)
                    if got.get("hostname") not in (None, host) and host + "." in (got.get("hostname") or "") and \
                            got["hostname"] in envt[4]:
                        ctx.dist["outcome-canonical-name"] = ctx.dist.get("outcome-canonical-name", 0) + 1
                else:
                    r = {"KeyError": [7], "CouldNotCanonicalize": [1]}.get(outcome[1], [-2])
                canon += [len(r)] + r
                impl[host] = got if outcome[0] == "out" else "raises " + outcome[1]
                if got is not None and len(ctx.samples) < 2 and len(cfg["blocks"]) >= 2 and not directed:
                    ctx.sample({"lookup": {"text": text, "host": host, "env": list(envt), "impl": got}})
            # two live objects: the previous config's object is used again after this one was built and used
            if prev_obj is not None:
                p_sc, p_host, p_envt, p_res, p_text = prev_obj
                set_env(p_envt)
                try:
                    again = copy.deepcopy(dict(p_sc.lookup(p_host)))
                except Exception as e:  # noqa
                    again = "raises " + type(e).__name__
                ctx.count(("again", p_text, p_host), nontrivial=False, kind="lookup-on-earlier-object")
                if again != p_res:
                    ctx.fail("state-shared-between-objects", "a lookup on an SSHConfig object changes after another "
                             "SSHConfig object was parsed and used", case={"text": p_text, "host": p_host,
                                                                           "env": list(p_envt), "other_text": text},
                             expected=p_res, observed=again)
            if sc_obj is not None and hosts:
                set_env(envt)
                try:
                    first = copy.deepcopy(dict(sc_obj.lookup(hosts[0])))
                except Exception as e:  # noqa
                    first = "raises " + type(e).__name__
                prev_obj = (sc_obj, hosts[0], envt, first, text)
            if sc_obj is not None and [dict(x) for x in sc_obj._config] != before:
                after = [dict(x) for x in sc_obj._config]
                i = next(j for j in range(len(before)) if after[j] != before[j])
                ctx.fail("lookup-mutates-config", "lookups (or changes made by the caller to their results) modify the "
                         "parsed configuration", case={"text": text, "config": cfg, "hosts": hosts, "env": list(envt)},
                         expected=before[i], observed=after[i])
            cfg_cases.append(("((%s,%s,%s,%s), %s, %s, [%s])" % (
                zs(envt[0]), zs(envt[1]), zs(envt[2]), zs(envt[3]) + ", [" + ";".join(zs(x) for x in envt[4]) + "]",
                coq_body(cfg["global"]), coq_blocks(cfg),
                ";".join(zs(h) for h in hosts)), canon, {"text": text, "hosts": hosts, "env": list(envt), "impl": impl}))
        # malformed stream: the parser must refuse these with ConfigParseError (never another exception)
        from paramiko.ssh_exception import ConfigParseError
        for bad_text in ["Host a\n  JustAKey\n", "Match all host x\n  Port 1\n", "Match host\n  Port 1\n",
                         "Match all canonical\n", 'Host "unterminated\n  Port 1\n', "Host a\n  =\n",
                         "Match user\n", "Match originalhost a all\n"]:
            ctx.count(("malformed", bad_text), kind="parse-malformed")
            try:
                SSHConfig.from_text(bad_text)
                ctx.fail("parse-malformed-accepted", "a malformed config is accepted", case={"text": bad_text},
                         expected="ConfigParseError", observed="parsed")
            except ConfigParseError:
                pass
            except Exception as e:  # noqa
                ctx.fail("parse-malformed-" + type(e).__name__, "a malformed config raises %s, not ConfigParseError"
                         % type(e).__name__, case={"text": bad_text}, expected="ConfigParseError", observed=repr(e))
        # fnmatch vs the glob matcher, _pattern_matches vs the model
        sc = SSHConfig()
        pm_cases = []
        for _ in range(4000 if ctx.thorough else 500):
            h = gen_host(rng)
            ps = [gen_pattern(rng, h if rng.random() < 0.8 else gen_host(rng)) for _ in range(rng.choice([1, 2, 3, 4]))]
            p = ps[0]
            r = fnmatch.fnmatch(h, p)
            ctx.count(("glob", p, h), kind="glob")
            if r != glob_match(p, h):
                ctx.fail("fnmatch-differs", "fnmatch disagrees with the declarative glob meaning", case={"p": p, "h": h},
                         expected=glob_match(p, h), observed=r)
            r2 = bool(sc._pattern_matches(ps, h))
            ctx.count(("pm", tuple(ps), h), kind="pattern_matches")
            if r2 != patterns_apply(ps, h):
                ctx.fail("host-block-applies", "a Host pattern list applies although no pattern matches or a negated "
                         "pattern matches (or vice versa)", case={"patterns": ps, "host": h},
                         expected=patterns_apply(ps, h), observed=r2)
            pm_cases.append(("([%s], %s)" % (";".join(zs(p) for p in ps), zs(h)), [1 if r2 else 0, 1 if r else 0], (ps, h)))

    bad = ctx.model_mismatches(
        "run_config_z", "((Z * Z * Z * Z * list Z) * list (Z * Z) * list (zhdr * list (Z * Z)) * list Z)",
        [(c, e) for c, e, _ in cfg_cases], shard=40)
    for i in bad[:3]:
        ctx.disagree("get_hostnames / lookup differ from the model", case={k: cfg_cases[i][2][k] for k in ("text", "hosts", "env")},
                     impl=cfg_cases[i][2]["impl"])
    bad = ctx.model_mismatches("run_match_z", "(list Z * Z)", [(c, e) for c, e, _ in pm_cases],
                               shard=500)
    for i in bad[:3]:
        ctx.disagree("_pattern_matches / fnmatch differ from the model", case=pm_cases[i][2])


def replay(ctx, rep):
    case = rep["case"]
    if "config" not in case:
        if "patterns" in case:
            from paramiko.config import SSHConfig
            ctx.count(("replay", repr(case)))
            ctx.count(("replay2", repr(case)))
            r = bool(SSHConfig()._pattern_matches(case["patterns"], case["host"]))
            if r != patterns_apply(case["patterns"], case["host"]):
                ctx.fail(rep["key"], rep["what"], case=case, expected=not r, observed=r)
            return
        return run(ctx)
    cfg = case["config"]
    cfg = {"global": [tuple(x) for x in cfg["global"]],
           "blocks": [dict(b, body=[tuple(x) for x in b["body"]],
                           **({"match": [tuple(c) for c in b["match"]]} if "match" in b else {}))
                      for b in cfg["blocks"]]}
    with pinned():
        ctx.count(("replay", case["text"]))
        ctx.count(("replay2", case["text"]))
        if "host" in case:
            check_case(ctx, cfg, case["text"], case["host"], tuple(case["env"]), prior=case.get("prior", ()))
        elif "hosts" in case:
            set_env(tuple(case["env"]))
            import copy
            from paramiko.config import SSHConfig
            sc = SSHConfig.from_text(case["text"])
            before = copy.deepcopy([dict(x) for x in sc._config])
            for h in case["hosts"]:
                scribble(sc.lookup(h))
            after = [dict(x) for x in sc._config]
            if after != before:
                ctx.fail(rep["key"], rep["what"], case=case, expected=before, observed=after)
        elif rep.get("key", "").startswith("pars"):
            check_parse(ctx, cfg, case["text"])
        else:
            check_hostnames(ctx, cfg, case["text"])
