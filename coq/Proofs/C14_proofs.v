(* C14 -- lemmas.  Statements are re-exported by Props/C14_props.v. *)
From PV Require Import Bytes C39 C39_proofs C14.
Open Scope Z_scope.

(* ---- generic machinery --------------------------------------------------- *)
Ltac brk H :=
  repeat match type of H with
  | context [match ?x with _ => _ end] =>
      match x with
      | context [match _ with _ => _ end] => fail 1
      | _ => destruct x eqn:?; simpl in H
      end
  end.

Ltac unf H := cbv [auth_step h_service h_request h_publickey h_gss_mic_request h_gss_keyex h_none
                   h_info_response h_gss_token h_gss_mic send_auth_result limit_check disconnect
                   raise_out then_do set_active set_authed set_user set_fails set_gss set_expected
                   a_active a_authed a_user a_fails a_gss a_expected] in H.

Definition approves (sig_ok : list Z -> list Z -> list Z -> vres) (sid : list Z)
           (m : amsg) (e : env) (user : option (list Z)) (outs : list out) : Prop :=
  e_res e = RSuccess /\
  exists k, In (OCb k user RSuccess) outs /\ cb_for m k = true /\
    (k = CbPublickey -> exists u s alg kb sg blob,
        m = Msg50 u s (BPublickey true alg kb sg) /\ e_keyok e = true /\
        session_blob sid u s alg (e_bits e) = Ok blob /\ sig_ok (e_bits e) blob sg = VTrue /\
        beq (sig_alg sg) (strip_cert alg) = true).

Lemma in_cb_pk : forall k u r l, In (OCb k u r) l -> In (OCb k u r) l. Proof. auto. Qed.

Ltac fin :=
  simpl in *; try tauto; try congruence;
  repeat match goal with
  | H : _ \/ _ |- _ => destruct H
  | H : _ /\ _ |- _ => destruct H
  | H : False |- _ => destruct H
  end; try congruence; try discriminate.

Ltac solve_k k :=
  exists k; split; [simpl; tauto | split; [reflexivity | let Hk := fresh "Hk" in intro Hk; discriminate Hk]].
Ltac solve_pk :=
  exists CbPublickey; split; [simpl; tauto | split; [reflexivity |
    intros _; do 6 eexists; repeat split; eauto]].
Ltac fin2 :=
  repeat match goal with H : negb _ = false |- _ => apply negb_false_iff in H end; subst;
  split; [ split; [reflexivity|];
           first [ solve_k CbNone | solve_k CbPassword | solve_k CbInteractive
                 | solve_k CbInteractiveResp | solve_k CbGssMic | solve_k CbGssKeyex | solve_pk ]
         | split; [ let Hm := fresh "Hm" in intros ? ? ? Hm; first [discriminate Hm | inversion Hm; reflexivity]
                  | split; [simpl; tauto | reflexivity] ] ].

Lemma success_needs_approval :
  forall sig_ok sid st m e st' outs,
    auth_step sig_ok sid st m e = (st', outs) ->
    In OSuccess outs \/ (a_authed st = false /\ a_authed st' = true) ->
    approves sig_ok sid m e (a_user st') outs /\
    (forall u s b, m = Msg50 u s b -> a_user st' = Some u) /\
    In OSuccess outs /\ a_authed st' = true.
Proof.
  intros sig_ok sid st m e st' outs H Hs.
  destruct st as [act au us fl gs ex]. destruct e as [res g ko bits mo tk mi kc bn].
  unf H. unfold approves. simpl in *.
  brk H; inversion H; subst; clear H; simpl in *; fin; fin2.
Qed.

(* a key probe (no signature attached) never authenticates *)
Lemma probe_never_auths :
  forall sig_ok sid st u s alg kb sg e st' outs,
    auth_step sig_ok sid st (Msg50 u s (BPublickey false alg kb sg)) e = (st', outs) ->
    a_authed st' = a_authed st /\ ~ In OSuccess outs.
Proof.
  intros sig_ok sid st u s alg kb sg e st' outs H.
  destruct st as [act au us fl gs ex]. destruct e as [res g ko bits mo tk mi kc bn].
  unf H. simpl in *.
  brk H; inversion H; subst; clear H; simpl; split; try reflexivity; intros Hin; fin.
Qed.

(* the authenticated flag is never cleared *)
Lemma authed_mono :
  forall sig_ok sid st m e st' outs,
    auth_step sig_ok sid st m e = (st', outs) -> a_authed st = true -> a_authed st' = true.
Proof.
  intros sig_ok sid st m e st' outs H Ha.
  destruct (a_authed st') eqn:E; [reflexivity|].
  destruct st as [act au us fl gs ex]. destruct e as [res g ko bits mo tk mi kc bn].
  simpl in Ha. subst au. unf H. simpl in *.
  brk H; inversion H; subst; clear H; simpl in *; congruence.
Qed.

(* ---- the signed blob determines all five fields ---------------------------- *)
Lemma blob_fields_wf sid u s a k :
  bytes_ok sid = true -> bytes_ok u = true -> bytes_ok s = true -> bytes_ok a = true ->
  bytes_ok k = true -> forallb field_wf (blob_fields sid u s a k) = true.
Proof.
  intros H1 H2 H3 H4 H5. unfold blob_fields. cbn [forallb field_wf].
  rewrite H1, H2, H3, H4, H5. reflexivity.
Qed.

Lemma blob_injective :
  forall sid u s a k sid' u' s' a' k' b,
    bytes_ok sid = true -> bytes_ok u = true -> bytes_ok s = true -> bytes_ok a = true ->
    bytes_ok k = true ->
    bytes_ok sid' = true -> bytes_ok u' = true -> bytes_ok s' = true -> bytes_ok a' = true ->
    bytes_ok k' = true ->
    session_blob sid u s a k = Ok b -> session_blob sid' u' s' a' k' = Ok b ->
    sid = sid' /\ u = u' /\ s = s' /\ a = a' /\ k = k'.
Proof.
  intros sid u s a k sid' u' s' a' k' b H1 H2 H3 H4 H5 H1' H2' H3' H4' H5' E1 E2.
  assert (E : blob_fields sid u s a k = blob_fields sid' u' s' a' k').
  { apply (encode_injective _ _ b); try (apply blob_fields_wf; assumption); try assumption.
    reflexivity. }
  unfold blob_fields in E. inversion E. repeat split; reflexivity.
Qed.

Lemma cb_for_pk : forall u s sa alg kb sg k,
  cb_for (Msg50 u s (BPublickey sa alg kb sg)) k = true -> k = CbPublickey.
Proof. intros u s sa alg kb sg k H. destruct k; simpl in H; congruence. Qed.

(* a signature made for other field values never authenticates *)
Section Replay.
Variable sig_ok : list Z -> list Z -> list Z -> vres.
(* symbolic signature premise: under one key a signature verifies for at most one message *)
Hypothesis sig_binds : forall k b1 b2 sg, sig_ok k b1 sg = VTrue -> sig_ok k b2 sg = VTrue -> b1 = b2.

Lemma replay_never_auths :
  forall sid1 u1 s1 a1 sid2 u2 s2 a2 bits kb sg b1 st e st' outs,
    bytes_ok sid1 = true -> bytes_ok u1 = true -> bytes_ok s1 = true -> bytes_ok a1 = true ->
    bytes_ok sid2 = true -> bytes_ok u2 = true -> bytes_ok s2 = true -> bytes_ok a2 = true ->
    bytes_ok bits = true ->
    session_blob sid1 u1 s1 a1 bits = Ok b1 -> sig_ok bits b1 sg = VTrue ->
    (sid1, u1, s1, a1) <> (sid2, u2, s2, a2) ->
    e_bits e = bits -> a_authed st = false ->
    auth_step sig_ok sid2 st (Msg50 u2 s2 (BPublickey true a2 kb sg)) e = (st', outs) ->
    ~ In OSuccess outs /\ a_authed st' = false.
Proof.
  intros sid1 u1 s1 a1 sid2 u2 s2 a2 bits kb sg b1 st e st' outs
         W1 W2 W3 W4 W5 W6 W7 W8 W9 Hb Hs Hne Hbits Hau H.
  assert (C : In OSuccess outs \/ (a_authed st = false /\ a_authed st' = true) -> False).
  { intros Hc. destruct (success_needs_approval _ _ _ _ _ _ _ H Hc) as [[_ [k [_ [Hk Hpk]]]] _].
    apply cb_for_pk in Hk. destruct (Hpk Hk) as [u [s [alg [kb' [sg' [blob [Em [_ [Eb [Ev _]]]]]]]]]].
    inversion Em; subst. 
    assert (b1 = blob) by (eapply sig_binds; eassumption). subst blob.
    destruct (blob_injective _ _ _ _ _ _ _ _ _ _ _ W1 W2 W3 W4 W9 W5 W6 W7 W8 W9 Hb Eb)
      as [? [? [? [? ?]]]]. subst. apply Hne. reflexivity. }
  split.
  - intros Hin. apply C. left. exact Hin.
  - destruct (a_authed st') eqn:E; [|reflexivity]. exfalso. apply C. right. split; [exact Hau|reflexivity].
Qed.
End Replay.

(* ---- whole connections ------------------------------------------------------- *)
Lemma run_authed_needs_approval :
  forall sig_ok sid steps st st' outs,
    run sig_ok sid st steps = (st', outs) ->
    a_authed st = false -> a_authed st' = true ->
    In OSuccess outs /\ exists k u, In (OCb k u RSuccess) outs.
Proof.
  intros sig_ok sid steps. induction steps as [|[m e] r IH]; intros st st' outs H Hf Ht.
  - simpl in H. inversion H; subst. congruence.
  - simpl in H. destruct (auth_step sig_ok sid st m e) as [st1 o1] eqn:E1.
    destruct (run sig_ok sid st1 r) as [st2 o2] eqn:E2. inversion H; subst; clear H.
    destruct (a_authed st1) eqn:Ea.
    + destruct (success_needs_approval _ _ _ _ _ _ _ E1 (or_intror (conj Hf Ea)))
        as [[_ [k [Hin _]]] [_ [Hs _]]].
      split; [apply in_or_app; left; exact Hs|].
      exists k, (a_user st1). apply in_or_app. left. exact Hin.
    + destruct (IH _ _ _ E2 Ea Ht) as [Hs [k [u Hin]]].
      split; [apply in_or_app; right; exact Hs|].
      exists k, u. apply in_or_app. right. exact Hin.
Qed.

Lemma generated_tables :
  gen_auth_server_types = [5; 50; 61] /\ gen_auth_gss_types = [5; 50; 61; 66] /\
  gen_auth_results = map res_code [RSuccess; RPartial; RFailed] /\
  wire OSuccess = Ok [52].
Proof. vm_compute. repeat split. Qed.
