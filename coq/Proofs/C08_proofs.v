(* C08 — proofs over Model/C08.v and the generated Gen/C08_gen.v. *)
From Coq Require Import ZArith List Bool Lia ZifyBool Znumtheory.
From PV Require Import Bytes C08_gen C08.
Import ListNotations.
Open Scope Z_scope.
Arguments Z.pow : simpl never.

(* ---- the four DH range tests, as generated -------------------------------------------------- *)
Lemma gtb_ltb_iff a b : (a >? b) = (b <? a).
Proof. apply Z.gtb_ltb. Qed.

Lemma rej_group1_reply v p : reject_group1_reply v p = false <-> 1 <= v <= p - 1.
Proof. unfold reject_group1_reply. rewrite ?Z.gtb_ltb, ?Z.geb_leb. lia. Qed.
Lemma rej_group1_init v p : reject_group1_init v p = false <-> 1 <= v <= p - 1.
Proof. unfold reject_group1_init. rewrite ?Z.gtb_ltb, ?Z.geb_leb. lia. Qed.
Lemma rej_gex_init v p : reject_gex_init v p = false <-> 1 <= v <= p - 1.
Proof. unfold reject_gex_init. rewrite ?Z.gtb_ltb, ?Z.geb_leb. lia. Qed.
Lemma rej_gex_reply v p : reject_gex_reply v p = false <-> 1 <= v <= p - 1.
Proof. unfold reject_gex_reply. rewrite ?Z.gtb_ltb, ?Z.geb_leb. lia. Qed.

Lemma rej_gss_group1_complete v p : reject_gss_group1_complete v p = false <-> 1 <= v <= p - 1.
Proof. unfold reject_gss_group1_complete. rewrite ?Z.gtb_ltb, ?Z.geb_leb. lia. Qed.
Lemma rej_gss_group1_init v p : reject_gss_group1_init v p = false <-> 1 <= v <= p - 1.
Proof. unfold reject_gss_group1_init. rewrite ?Z.gtb_ltb, ?Z.geb_leb. lia. Qed.
Lemma rej_gss_gex_init v p : reject_gss_gex_init v p = false <-> 1 <= v <= p - 1.
Proof. unfold reject_gss_gex_init. rewrite ?Z.gtb_ltb, ?Z.geb_leb. lia. Qed.
Lemma rej_gss_gex_complete v p : reject_gss_gex_complete v p = false <-> 1 <= v <= p - 1.
Proof. unfold reject_gss_gex_complete. rewrite ?Z.gtb_ltb, ?Z.geb_leb. lia. Qed.

Lemma site_cases (h : list kstep) (rej : Z -> Z -> bool) :
  In (h, rej) dh_sites_complete ->
  (h = steps_group1_reply /\ rej = reject_group1_reply) \/
  (h = steps_group1_init /\ rej = reject_group1_init) \/
  (h = steps_gex_init /\ rej = reject_gex_init) \/
  (h = steps_gex_reply /\ rej = reject_gex_reply).
Proof.
  unfold dh_sites_complete. cbn [In]. intros [H|[H|[H|[H|[]]]]]; inversion H; subst; tauto.
Qed.

Lemma gss_site_cases (h : list kstep) (rej : Z -> Z -> bool) :
  In (h, rej) dh_sites -> In (h, rej) dh_sites_complete \/
  (h = steps_gss_group1_complete /\ rej = reject_gss_group1_complete) \/
  (h = steps_gss_group1_init /\ rej = reject_gss_group1_init) \/
  (h = steps_gss_gex_init /\ rej = reject_gss_gex_init) \/
  (h = steps_gss_gex_complete /\ rej = reject_gss_gex_complete).
Proof.
  unfold dh_sites. rewrite in_app_iff. cbn [In].
  intros [H|[H|[H|[H|[H|[]]]]]]; [now left | right ..]; inversion H; subst; tauto.
Qed.

Lemma complete_in_all h rej : In (h, rej) dh_sites_complete -> In (h, rej) dh_sites.
Proof. unfold dh_sites. rewrite in_app_iff. tauto. Qed.

Lemma site_rej h rej : In (h, rej) dh_sites -> forall v p, rej v p = false <-> 1 <= v <= p - 1.
Proof.
  intros Hin v p. destruct (gss_site_cases h rej Hin) as [Hc|[[_ ->]|[[_ ->]|[[_ ->]|[_ ->]]]]].
  - destruct (site_cases h rej Hc) as [[_ ->]|[[_ ->]|[[_ ->]|[_ ->]]]].
    + apply rej_group1_reply.
    + apply rej_group1_init.
    + apply rej_gex_init.
    + apply rej_gex_reply.
  - apply rej_gss_group1_complete.
  - apply rej_gss_group1_init.
  - apply rej_gss_gex_init.
  - apply rej_gss_gex_complete.
Qed.

Lemma dh_range h rej :
  In (h, rej) dh_sites -> forall p v, dh_accept rej p v = true <-> 1 <= v <= p - 1.
Proof.
  intros Hin p v. unfold dh_accept. rewrite negb_true_iff. now apply (site_rej h rej).
Qed.

(* ---- an accepted value yields a non-zero shared secret -------------------------------------- *)
Lemma pow_mod_nonzero p v x :
  prime p -> 1 <= v <= p - 1 -> 0 <= x -> v ^ x mod p <> 0.
Proof.
  intros Hp Hv Hx. pose proof (prime_ge_2 p Hp) as Hp2.
  revert x Hx. apply natlike_ind.
  - rewrite Z.pow_0_r. rewrite Z.mod_1_l by lia. lia.
  - intros x Hx IH. rewrite Z.pow_succ_r by assumption. intro E.
    apply Z.mod_divide in E; [|lia].
    apply prime_mult in E; [|assumption]. destruct E as [E|E].
    + apply Z.divide_pos_le in E; lia.
    + apply IH. apply Z.mod_divide; [lia|assumption].
Qed.

Lemma dh_nonzero_secret h rej :
  In (h, rej) dh_sites ->
  forall p v x, prime p -> 0 <= x -> dh_accept rej p v = true ->
    1 <= dh_shared v x p <= p - 1.
Proof.
  intros Hin p v x Hp Hx Ha. apply (dh_range h rej Hin) in Ha.
  pose proof (prime_ge_2 p Hp) as Hp2.
  pose proof (pow_mod_nonzero p v x Hp Ha Hx) as Hnz.
  unfold dh_shared in *. pose proof (Z.mod_pos_bound (v ^ x) p ltac:(lia)). lia.
Qed.

(* without primality: an accepted value is its own residue and is not 0 mod p *)
Lemma dh_nonzero_mod h rej :
  In (h, rej) dh_sites ->
  forall p v, dh_accept rej p v = true -> v mod p = v /\ v mod p <> 0.
Proof.
  intros Hin p v Ha. apply (dh_range h rej Hin) in Ha.
  rewrite Z.mod_small by lia. lia.
Qed.

(* an out-of-range value would make the secret predictable: 0 and p give K = 0 (x > 0) *)
Lemma dh_zero_gives_zero p x : 1 < p -> 0 < x -> dh_shared 0 x p = 0 /\ dh_shared p x p = 0.
Proof.
  intros Hp Hx. unfold dh_shared. split.
  - rewrite Z.pow_0_l by lia. apply Z.mod_0_l. lia.
  - apply Z.mod_divide; [lia|].
    replace x with (Z.succ (x - 1)) by lia. rewrite Z.pow_succ_r by lia. apply Z.divide_factor_l.
Qed.

(* ---- group exchange: size test ---------------------------------------------------------------- *)
Lemma gex_bits p : gex_group_accept p = true <-> 0 < p /\ 1024 <= bitlen p <= 8192.
Proof.
  unfold gex_group_accept, reject_gex_group. rewrite ?Z.gtb_ltb, ?Z.geb_leb.
  generalize (bitlen p). intros bl. lia.
Qed.

Lemma bitlen_pos p : 0 < p -> bitlen p = Z.log2 p + 1.
Proof.
  intros Hp. unfold bitlen. destruct (p =? 0) eqn:E; [lia|]. now rewrite Z.abs_eq by lia.
Qed.

Lemma bitlen_spec p n : 0 < p -> (n <= bitlen p <-> 2 ^ (n - 1) <= p) /\ (bitlen p <= n <-> p < 2 ^ n).
Proof.
  intros Hp. rewrite bitlen_pos by assumption. split.
  - rewrite Z.log2_le_pow2 by assumption. lia.
  - rewrite Z.log2_lt_pow2 by assumption. lia.
Qed.

Lemma gex_pow p : gex_group_accept p = true <-> 2 ^ 1023 <= p < 2 ^ 8192.
Proof.
  rewrite gex_bits. split.
  - intros [Hp [H1 H2]]. destruct (bitlen_spec p 1024 Hp) as [A _].
    destruct (bitlen_spec p 8192 Hp) as [_ B]. change (1024 - 1) with 1023 in A. tauto.
  - intros [H1 H2].
    assert (Hp : 0 < p).
    { assert (0 < 2 ^ 1023) by (apply Z.pow_pos_nonneg; lia). lia. }
    destruct (bitlen_spec p 1024 Hp) as [A _].
    destruct (bitlen_spec p 8192 Hp) as [_ B]. change (1024 - 1) with 1023 in A. tauto.
Qed.

Lemma gss_gex_bits p : gss_gex_group_accept p = true <-> 0 < p /\ 1024 <= bitlen p <= 8192.
Proof.
  unfold gss_gex_group_accept, reject_gss_gex_group. rewrite ?Z.gtb_ltb, ?Z.geb_leb.
  generalize (bitlen p). intros bl. lia.
Qed.

Lemma gss_gex_same p : gss_gex_group_accept p = gex_group_accept p.
Proof.
  destruct (gss_gex_group_accept p) eqn:A, (gex_group_accept p) eqn:B; try reflexivity.
  - apply gss_gex_bits in A. apply gex_bits in A. congruence.
  - apply gex_bits in B. apply gss_gex_bits in B. congruence.
Qed.

Lemma gex_consts : gex_min_bits = 1024 /\ gex_max_bits = 8192.
Proof. split; reflexivity. Qed.

(* ---- curve25519: zero test ---------------------------------------------------------------------- *)
Lemma x25519_zero s : x25519_accept s = false <-> s = repeat 0 32.
Proof.
  unfold x25519_accept, reject_x25519. rewrite negb_false_iff, zlist_eqb_eq.
  change (concat (repeat [0] 32)) with (repeat 0 32). tauto.
Qed.

(* ---- handlers: a raising handler has emitted nothing ------------------------------------------- *)
Lemma no_guard_ok ss en : no_guard ss = true -> snd (run_steps ss en) = Ok tt.
Proof.
  induction ss as [|s r IH]; intros H; [reflexivity|].
  destruct s; cbn [no_guard] in H; try discriminate.
  cbn [run_steps]. specialize (IH H). destruct (run_steps r en) as [tr res]. exact IH.
Qed.

Lemma guards_first_raise ss en tr e :
  guards_first ss = true -> run_steps ss en = (tr, Raise e) -> tr = [].
Proof.
  revert tr. induction ss as [|s r IH]; intros tr G R.
  - cbn in R. inversion R.
  - destruct s as [c|l|ev]; cbn [guards_first] in G; cbn [run_steps] in R.
    + destruct (check_rejects c en); [now inversion R|]. now apply IH.
    + destruct (lib_ok l en); [now apply IH|now inversion R].
    + pose proof (no_guard_ok r en G) as N.
      destruct (run_steps r en) as [tr' res]. cbn in N. inversion R; subst. discriminate.
Qed.

Lemma all_guards_first : forallb guards_first all_handlers = true.
Proof. reflexivity. Qed.

Lemma reject_no_newkeys h :
  In h all_handlers -> forall en tr e, run_steps h en = (tr, Raise e) -> tr = [].
Proof.
  intros Hin en tr e R. apply (guards_first_raise h en tr e); [|assumption].
  pose proof all_guards_first as A. rewrite forallb_forall in A. now apply A.
Qed.

(* the observable calls of a complete DH handler *)
Lemma dh_sites_emit h rej :
  In (h, rej) dh_sites_complete -> In h all_handlers /\ emits EvSetKH h = true /\ emits EvActivate h = true.
Proof.
  intros Hin. destruct (site_cases h rej Hin) as [[-> _]|[[-> _]|[[-> _]|[-> _]]]];
    (split; [unfold all_handlers; cbn [In]; tauto | split; reflexivity]).
Qed.

Ltac unfold_steps :=
  unfold steps_group1_reply, steps_group1_init, steps_gex_init, steps_gex_reply,
         steps_gss_group1_complete, steps_gss_group1_init, steps_gss_gex_init, steps_gss_gex_complete.

(* out-of-range peer value: SSHException, nothing emitted; in-range: the keys are set.
   All eight sites (for the kex_gss.py sites the steps are the handler's prefix). *)
Lemma dh_handler h rej :
  In (h, rej) dh_sites ->
  forall en,
    (~ (1 <= e_v en <= e_p en - 1) -> run_steps h en = ([], Raise SSHExc)) /\
    (1 <= e_v en <= e_p en - 1 ->
       exists tr, run_steps h en = (EvSetKH :: tr, Ok tt)).
Proof.
  intros Hin en. pose proof (site_rej h rej Hin (e_v en) (e_p en)) as S.
  assert (C : (h = steps_group1_reply /\ rej = reject_group1_reply) \/
              (h = steps_group1_init /\ rej = reject_group1_init) \/
              (h = steps_gex_init /\ rej = reject_gex_init) \/
              (h = steps_gex_reply /\ rej = reject_gex_reply) \/
              (h = steps_gss_group1_complete /\ rej = reject_gss_group1_complete) \/
              (h = steps_gss_group1_init /\ rej = reject_gss_group1_init) \/
              (h = steps_gss_gex_init /\ rej = reject_gss_gex_init) \/
              (h = steps_gss_gex_complete /\ rej = reject_gss_gex_complete)).
  { destruct (gss_site_cases h rej Hin) as [Hc|G]; [|tauto].
    destruct (site_cases h rej Hc) as [X|[X|[X|X]]]; tauto. }
  destruct C as [[-> ->]|[[-> ->]|[[-> ->]|[[-> ->]|[[-> ->]|[[-> ->]|[[-> ->]|[-> ->]]]]]]]];
    (split; intros H;
     [ unfold_steps; cbn [run_steps check_rejects];
       match goal with |- context [if ?b then _ else _] => destruct b eqn:E end;
       [reflexivity | exfalso; apply H; now apply S]
     | unfold_steps; cbn [run_steps check_rejects];
       apply S in H; rewrite H; eexists; reflexivity ]).
Qed.

(* the four complete handlers also activate the outbound keys when they accept *)
Lemma dh_handler_activates h rej :
  In (h, rej) dh_sites_complete ->
  forall en, 1 <= e_v en <= e_p en - 1 ->
    exists tr, run_steps h en = (tr, Ok tt) /\ In EvSetKH tr /\ In EvActivate tr.
Proof.
  intros Hin en H.
  pose proof (site_rej h rej (complete_in_all h rej Hin) (e_v en) (e_p en)) as S.
  destruct (site_cases h rej Hin) as [[-> ->]|[[-> ->]|[[-> ->]|[-> ->]]]];
    (unfold_steps; cbn [run_steps check_rejects]; apply S in H; rewrite H; eexists;
     split; [reflexivity | cbn [In]; split; tauto]).
Qed.

(* kex_gss.py group handler prefix: a modulus outside the range -> SSHException before the GSS
   context is touched or anything is sent *)
Lemma gss_gex_group_handler en :
  (gss_gex_group_accept (e_p en) = false -> run_steps steps_gss_gex_group en = ([], Raise SSHExc)) /\
  (gss_gex_group_accept (e_p en) = true -> e_gss_ok en = true ->
     run_steps steps_gss_gex_group en = ([EvSend], Ok tt)).
Proof.
  unfold gss_gex_group_accept, steps_gss_gex_group. cbn [run_steps check_rejects lib_ok].
  destruct (reject_gss_gex_group (e_p en) (bitlen (e_p en))); cbn [negb]; split; intros H; try discriminate.
  - reflexivity.
  - intros ->. reflexivity.
Qed.

(* every GSS prefix that raises has emitted nothing *)
Lemma gss_prefixes_guards_first : forallb guards_first gss_prefixes = true.
Proof. reflexivity. Qed.

Lemma gss_reject_no_newkeys h :
  In h gss_prefixes -> forall en tr e, run_steps h en = (tr, Raise e) -> tr = [].
Proof.
  intros Hin en tr e R. apply (guards_first_raise h en tr e); [|assumption].
  pose proof gss_prefixes_guards_first as A. rewrite forallb_forall in A. now apply A.
Qed.

Lemma gex_group_handler en :
  (gex_group_accept (e_p en) = false -> run_steps steps_gex_group en = ([], Raise SSHExc)) /\
  (gex_group_accept (e_p en) = true -> exists tr, run_steps steps_gex_group en = (tr, Ok tt) /\ In EvSend tr).
Proof.
  unfold gex_group_accept, steps_gex_group. cbn [run_steps check_rejects].
  destruct (reject_gex_group (e_p en) (bitlen (e_p en))); cbn [negb]; split; intros H; try discriminate.
  - reflexivity.
  - eexists. split; [reflexivity|cbn [In]; tauto].
Qed.

Lemma x25519_handler en :
  In (run_steps steps_x25519_init en, run_steps steps_x25519_reply en)
     [(([], Raise ValueErr), ([], Raise ValueErr)); (([], Raise SSHExc), ([], Raise SSHExc));
      (([EvSetKH; EvSend; EvActivate], Ok tt), ([EvSetKH; EvVerifyKey; EvActivate], Ok tt))] /\
  (e_point_ok en = true -> e_exch_ok en = true -> e_secret en = repeat 0 32 ->
   run_steps steps_x25519_init en = ([], Raise SSHExc) /\
   run_steps steps_x25519_reply en = ([], Raise SSHExc)).
Proof.
  unfold steps_x25519_init, steps_x25519_reply. cbn [run_steps check_rejects lib_ok].
  split.
  - destruct (e_point_ok en), (e_exch_ok en), (reject_x25519 (e_secret en)); cbn [In]; tauto.
  - intros -> -> Hs.
    assert (R : reject_x25519 (e_secret en) = true).
    { pose proof (x25519_zero (e_secret en)) as Z. unfold x25519_accept in Z.
      rewrite negb_false_iff in Z. now apply Z. }
    now rewrite R.
Qed.

Lemma ec_handler en :
  (e_point_ok en = false ->
   run_steps steps_ecdh_init en = ([], Raise ValueErr) /\ run_steps steps_ecdh_reply en = ([], Raise ValueErr)).
Proof.
  unfold steps_ecdh_init, steps_ecdh_reply. cbn [run_steps lib_ok]. intros ->. split; reflexivity.
Qed.

(* ---- the SEC1 validation spec ---------------------------------------------------------------------- *)
(* what an accepted encoding looks like *)
Lemma ec_accept_shape p a b flen sq t r :
  ec_accept (p, a, b, flen) sq (t :: r) = true ->
  let n := Z.to_nat (Z.min flen 128) in
  (t = 4 /\ length r = (2 * n)%nat /\
   0 <= be_decode (firstn n r) < p /\ 0 <= be_decode (skipn n r) < p /\
   (be_decode (skipn n r) * be_decode (skipn n r)) mod p =
   (be_decode (firstn n r) * be_decode (firstn n r) * be_decode (firstn n r) + a * be_decode (firstn n r) + b) mod p) \/
  ((t = 2 \/ t = 3) /\ length r = n /\ 0 <= be_decode r < p /\ sq = true).
Proof.
  intros H n. unfold ec_accept in H. fold n in H.
  destruct (t =? 4) eqn:E.
  - left. apply Z.eqb_eq in E.
    apply andb_true_iff in H. destruct H as [H Hc].
    apply andb_true_iff in H. destruct H as [Hl Hb].
    apply andb_true_iff in Hc. destruct Hc as [Hc Hon].
    apply andb_true_iff in Hc. destruct Hc as [Hx Hy].
    apply Nat.eqb_eq in Hl.
    unfold on_curve, curve_rhs in Hon.
    pose proof (be_decode_range (firstn n r) (bytes_ok_firstn n r Hb)) as Rx.
    pose proof (be_decode_range (skipn n r) (bytes_ok_skipn n r Hb)) as Ry.
    repeat split; try lia.
  - right.
    apply andb_true_iff in H. destruct H as [H Hsq].
    apply andb_true_iff in H. destruct H as [H Hx].
    apply andb_true_iff in H. destruct H as [H Hb].
    apply andb_true_iff in H. destruct H as [Ht Hl].
    apply Nat.eqb_eq in Hl.
    pose proof (be_decode_range r Hb) as Rx.
    repeat split; try lia; try assumption.
Qed.

Lemma ec_uncompressed_on_curve p a b flen sq r :
  ec_accept (p, a, b, flen) sq (4 :: r) = true ->
  let n := Z.to_nat (Z.min flen 128) in
  let x := be_decode (firstn n r) in
  let y := be_decode (skipn n r) in
  length r = (2 * n)%nat /\ 0 <= x < p /\ 0 <= y < p /\
  (y * y) mod p = (x * x * x + a * x + b) mod p.
Proof.
  intros H n x y. destruct (ec_accept_shape p a b flen sq 4 r H) as [[_ S]|[[T|T] _]]; [exact S|lia|lia].
Qed.

Lemma ec_rejects_degenerate c sq : ec_accept c sq [] = false /\ ec_accept c sq [0] = false.
Proof. destruct c as [[[p a] b] flen]. split; reflexivity. Qed.

(* the ECDH handlers when the library's validation agrees with the spec ec_accept *)
Lemma ec_handler_under_spec en c sq pt :
  e_point_ok en = ec_accept c sq pt -> e_exch_ok en = true ->
  (ec_accept c sq pt = false ->
     run_steps steps_ecdh_init en = ([], Raise ValueErr) /\
     run_steps steps_ecdh_reply en = ([], Raise ValueErr)) /\
  (forall tr, run_steps steps_ecdh_init en = (tr, Ok tt) \/ run_steps steps_ecdh_reply en = (tr, Ok tt) ->
     ec_accept c sq pt = true /\ pt <> [] /\ pt <> [0]) /\
  (ec_accept c sq pt = true ->
     run_steps steps_ecdh_init en = ([EvSetKH; EvSend; EvActivate], Ok tt) /\
     run_steps steps_ecdh_reply en = ([EvSetKH; EvVerifyKey; EvActivate], Ok tt)).
Proof.
  intros Hp He. unfold steps_ecdh_init, steps_ecdh_reply. cbn [run_steps lib_ok]. rewrite Hp, He.
  destruct (ec_rejects_degenerate c sq) as [D1 D2].
  destruct (ec_accept c sq pt) eqn:A.
  - split; [discriminate|]. split; [|intros _; split; reflexivity].
    intros tr _. split; [reflexivity|]. split; intros ->; congruence.
  - split; [intros _; split; reflexivity|]. split; [|discriminate].
    intros tr [R|R]; discriminate.
Qed.

(* ---- validity of an encoding (no oracle bit) and the handlers over an arbitrary library ---------- *)
Lemma ec_valid_nil c : ~ ec_valid c [].
Proof.
  intros [H|[H _]]; destruct (ec_rejects_degenerate c false), (ec_rejects_degenerate c true); congruence.
Qed.

Lemma ec_valid_identity c : ~ ec_valid c [0].
Proof.
  intros [H|[H _]]; destruct (ec_rejects_degenerate c false), (ec_rejects_degenerate c true); congruence.
Qed.

(* complete characterisation of a valid encoding: prefix 04 with two in-range coordinates that satisfy
   the curve equation, or prefix 02/03 with an in-range abscissa for which a point exists *)
Lemma ec_valid_shape p a b flen t r :
  ec_valid (p, a, b, flen) (t :: r) ->
  let n := Z.to_nat (Z.min flen 128) in
  (t = 4 /\ length r = (2 * n)%nat /\
   0 <= be_decode (firstn n r) < p /\ 0 <= be_decode (skipn n r) < p /\
   (be_decode (skipn n r) * be_decode (skipn n r)) mod p =
   (be_decode (firstn n r) * be_decode (firstn n r) * be_decode (firstn n r) + a * be_decode (firstn n r) + b) mod p) \/
  ((t = 2 \/ t = 3) /\ length r = n /\ 0 <= be_decode r < p /\ has_root (p, a, b, flen) (be_decode r)).
Proof.
  intros V n. destruct V as [H|[H [t' [r' [E R]]]]].
  - destruct (ec_accept_shape p a b flen false t r H) as [S|[_ [_ [_ F]]]]; [left; exact S|discriminate].
  - injection E as -> ->.
    destruct (ec_accept_shape p a b flen true t' r' H) as [S|[T [L [X _]]]]; [left; exact S|].
    right. repeat split; try assumption; try lia.
Qed.

Lemma ec_handler_full c (point : Type) (decode : list Z -> option point) (exch : point -> option (list Z)) :
  (forall bs P, decode bs = Some P -> ec_valid c bs) ->
  forall bs h, In h [steps_ecdh_init; steps_ecdh_reply] ->
    (~ ec_valid c bs -> run_steps h (ec_env decode exch bs) = ([], Raise ValueErr)) /\
    (forall tr res, run_steps h (ec_env decode exch bs) = (tr, res) -> tr <> [] ->
       res = Ok tt /\ In EvSetKH tr /\ In EvActivate tr /\
       ec_valid c bs /\ exists P s, decode bs = Some P /\ exch P = Some s).
Proof.
  intros Hlib bs h Hin. cbn [In] in Hin.
  destruct Hin as [<- | [<- | []]]; unfold ec_env, steps_ecdh_init, steps_ecdh_reply;
    cbn [run_steps lib_ok e_point_ok e_exch_ok];
    destruct (decode bs) as [P|] eqn:D.
  1, 3: destruct (exch P) as [s0|] eqn:X.
  all: split.
  all: try (intros NV; try reflexivity; exfalso; apply NV; now apply (Hlib bs P)).
  all: intros tr res R NE; inversion R; subst; try congruence.
  all: split; [reflexivity|]; split; [cbn [In]; tauto|]; split; [cbn [In]; tauto|].
  all: split; [now apply (Hlib bs P) | exists P, s0; split; [reflexivity|assumption]].
Qed.

Lemma ec_hash_order :
  ecdh_hash_order_init = [1; 2; 3; 4; 5; 6; 7; 8] /\ ecdh_hash_order_reply = [1; 2; 3; 4; 5; 6; 7; 8].
Proof. split; reflexivity. Qed.

Lemma ec_valid_degenerate c : ~ ec_valid c [] /\ ~ ec_valid c [0].
Proof. split; [apply ec_valid_nil | apply ec_valid_identity]. Qed.

(* non-vacuity helpers *)
Lemma prime_23 : prime 23.
Proof.
  apply prime_intro; [lia|]. intros n Hn. apply Zgcd_1_rel_prime.
  assert (C : n = 1 \/ n = 2 \/ n = 3 \/ n = 4 \/ n = 5 \/ n = 6 \/ n = 7 \/ n = 8 \/ n = 9 \/ n = 10 \/
              n = 11 \/ n = 12 \/ n = 13 \/ n = 14 \/ n = 15 \/ n = 16 \/ n = 17 \/ n = 18 \/ n = 19 \/
              n = 20 \/ n = 21 \/ n = 22) by lia.
  repeat (destruct C as [-> | C]; [reflexivity|]). subst. reflexivity.
Qed.
