(* C04 -- proofs about Model/C04.v *)
From Coq Require Import ZArith List Bool Lia ZifyBool.
From PV Require Import Bytes C39 C04_gen C04.
Import ListNotations.
Open Scope Z_scope.

(* ---- py_prefix ------------------------------------------------------------------------------ *)
Lemma py_prefix_nonneg out n :
  0 <= n -> n <= Z.of_nat (length out) -> py_prefix out n = firstn (Z.to_nat n) out.
Proof.
  intros Hn Hle. unfold py_prefix.
  destruct (n <? 0) eqn:E; [lia|].
  rewrite Z.min_l by lia. reflexivity.
Qed.

Lemma firstn_app_le {A} (a b : list A) n : (n <= length a)%nat -> firstn n (a ++ b) = firstn n a.
Proof.
  intros Hn. rewrite firstn_app. replace (n - length a)%nat with 0%nat by lia.
  cbn. apply app_nil_r.
Qed.

Section KDF.
  Variable hash : list Z -> list Z.
  Variable hl : nat.
  Hypothesis hash_len : forall m, length (hash m) = hl.
  Hypothesis hl_pos : (0 < hl)%nat.

  Notation upto := (rfc_upto hash).

  Lemma upto_length pre X sid i : length (upto pre X sid i) = (S i * hl)%nat.
  Proof.
    clear hl_pos. induction i as [|i IH].
    - cbn [rfc_upto]. rewrite hash_len. lia.
    - cbn [rfc_upto]. rewrite app_length, IH, hash_len. lia.
  Qed.

  (* the stream is well defined: a longer concatenation extends a shorter one *)
  Lemma upto_extend pre X sid i d : exists rest, upto pre X sid (i + d) = upto pre X sid i ++ rest.
  Proof.
    clear hl_pos hash_len. induction d as [|d [rest IH]].
    - exists []. rewrite Nat.add_0_r, app_nil_r. reflexivity.
    - rewrite Nat.add_succ_r. cbn [rfc_upto]. rewrite IH.
      eexists. rewrite <- app_assoc. reflexivity.
  Qed.

  Lemma upto_firstn_indep pre X sid i j n :
    (n <= length (upto pre X sid i))%nat -> (n <= length (upto pre X sid j))%nat ->
    firstn n (upto pre X sid i) = firstn n (upto pre X sid j).
  Proof.
    intros Hi Hj.
    destruct (Nat.le_ge_cases i j) as [L|L].
    - destruct (upto_extend pre X sid i (j - i)) as [rest E].
      replace (i + (j - i))%nat with j in E by lia.
      rewrite E. symmetry. apply firstn_app_le. exact Hi.
    - destruct (upto_extend pre X sid j (i - j)) as [rest E].
      replace (j + (i - j))%nat with i in E by lia.
      rewrite E. apply firstn_app_le. exact Hj.
  Qed.

  Lemma upto_head pre X sid i :
    exists rest, upto pre X sid i = hash (kdf_input pre X sid) ++ rest.
  Proof. destruct (upto_extend pre X sid 0 i) as [rest E]. exists rest. exact E. Qed.

  (* loop invariant: out = sofar = K1 || ... || K(i+1); enough fuel since every turn adds hl >= 1 bytes *)
  Lemma kloop_rfc pre X sid n :
    0 <= n ->
    forall fuel i,
      n <= Z.of_nat fuel + Z.of_nat (length (upto pre X sid i)) ->
      exists j, n <= Z.of_nat (length (upto pre X sid j)) /\
                kloop hash fuel pre n (upto pre X sid i) (upto pre X sid i)
                = Ok (firstn (Z.to_nat n) (upto pre X sid j)).
  Proof.
    intros Hn. induction fuel as [|f IH]; intros i Hfuel.
    - cbn [kloop]. destruct (Z.of_nat (length (upto pre X sid i)) <? n) eqn:E; [lia|].
      exists i. split; [lia|]. rewrite py_prefix_nonneg by lia. reflexivity.
    - cbn [kloop]. destruct (Z.of_nat (length (upto pre X sid i)) <? n) eqn:E.
      + change (upto pre X sid i ++ hash (pre ++ upto pre X sid i)) with (upto pre X sid (S i)).
        apply IH. rewrite (upto_length pre X sid (S i)). rewrite (upto_length pre X sid i) in Hfuel.
        nia.
      + exists i. split; [lia|]. rewrite py_prefix_nonneg by lia. reflexivity.
  Qed.

  (* C04_rfc *)
  Theorem compute_key_rfc K kb H sid X n i :
    add_mpint K = Ok kb -> 0 <= n -> n <= Z.of_nat (S i) * Z.of_nat hl ->
    compute_key hash K H sid X n = Ok (firstn (Z.to_nat n) (upto (kb ++ H) X sid i)).
  Proof.
    intros HK Hn Hi. unfold compute_key. rewrite HK. cbn [bind].
    change (hash (kdf_input (kb ++ H) X sid)) with (upto (kb ++ H) X sid 0).
    destruct (kloop_rfc (kb ++ H) X sid n Hn (Z.to_nat n) 0%nat) as [j [Hj E]]; [lia|].
    rewrite E. f_equal. apply upto_firstn_indep.
    - lia.
    - rewrite upto_length. lia.
  Qed.

  Theorem compute_key_length K kb H sid X n k :
    add_mpint K = Ok kb -> 0 <= n -> compute_key hash K H sid X n = Ok k -> Z.of_nat (length k) = n.
  Proof.
    intros HK Hn E.
    rewrite (compute_key_rfc K kb H sid X n (Z.to_nat n) HK Hn) in E by nia.
    injection E as <-. rewrite firstn_length, upto_length. nia.
  Qed.

  Theorem compute_key_raise K H sid X n e :
    add_mpint K = Raise e -> compute_key hash K H sid X n = Raise e.
  Proof. intros HK. unfold compute_key. rewrite HK. reflexivity. Qed.

  Theorem compute_key_total K H sid X n :
    0 <= n -> (exists k, compute_key hash K H sid X n = Ok k) \/ compute_key hash K H sid X n = Raise StructErr.
  Proof.
    intros Hn. destruct (add_mpint K) as [kb|e] eqn:HK.
    - left. eexists. apply (compute_key_rfc K kb H sid X n (Z.to_nat n) HK Hn). nia.
    - right. rewrite (compute_key_raise K H sid X n e HK).
      revert HK. unfold add_mpint, add_string, pack_u32.
      destruct (K =? 0).
      + cbn. discriminate.
      + destruct ((0 <=? Z.of_nat (length (deflate_long K true))) && (Z.of_nat (length (deflate_long K true)) <? 2 ^ 32));
          cbn; [discriminate|]. intros [= <-]. reflexivity.
  Qed.

  (* ---- the two hash inputs of different letters differ, in exactly the letter byte ------------- *)
  Lemma kdf_input_diff pre X Y sid : X <> Y -> kdf_input pre X sid <> kdf_input pre Y sid.
  Proof.
    intros Hxy E. unfold kdf_input in E. apply app_inv_head in E. cbn in E. congruence.
  Qed.

  Lemma kdf_input_letter pre X sid : nth (length pre) (kdf_input pre X sid) 0 = X.
  Proof. clear hash_len hl_pos. unfold kdf_input. rewrite app_nth2 by lia. rewrite Nat.sub_diag. reflexivity. Qed.

  Lemma kdf_input_same_length pre X Y sid : length (kdf_input pre X sid) = length (kdf_input pre Y sid).
  Proof. unfold kdf_input. rewrite !app_length. reflexivity. Qed.

  (* equal keys for two different letters exhibit a collision of the (truncated) hash on two
     different inputs *)
  Theorem equal_keys_collision K kb H sid X Y n k :
    add_mpint K = Ok kb -> X <> Y -> 0 < n ->
    compute_key hash K H sid X n = Ok k -> compute_key hash K H sid Y n = Ok k ->
    let a := kdf_input (kb ++ H) X sid in
    let b := kdf_input (kb ++ H) Y sid in
    let m := Z.to_nat (Z.min n (Z.of_nat hl)) in
    a <> b /\ (0 < m)%nat /\ firstn m (hash a) = firstn m (hash b).
  Proof.
    intros HK Hxy Hn EX EY a b m.
    split; [apply kdf_input_diff; exact Hxy|]. split; [lia|].
    rewrite (compute_key_rfc K kb H sid X n (Z.to_nat n) HK) in EX by nia.
    rewrite (compute_key_rfc K kb H sid Y n (Z.to_nat n) HK) in EY by nia.
    injection EX as EX. injection EY as EY.
    assert (P : forall Z0, firstn m (firstn (Z.to_nat n) (upto (kb ++ H) Z0 sid (Z.to_nat n)))
                           = firstn m (hash (kdf_input (kb ++ H) Z0 sid))).
    { intros Z0. rewrite firstn_firstn. replace (Init.Nat.min m (Z.to_nat n)) with m by lia.
      destruct (upto_head (kb ++ H) Z0 sid (Z.to_nat n)) as [rest E]. rewrite E.
      apply firstn_app_le. rewrite hash_len. lia. }
    unfold a, b. rewrite <- (P X), <- (P Y), EX, EY. reflexivity.
  Qed.

  (* hence: no collision between those two inputs => different keys *)
  Theorem dir_distinct K kb H sid X Y n kX kY :
    add_mpint K = Ok kb -> X <> Y -> 0 < n ->
    (let m := Z.to_nat (Z.min n (Z.of_nat hl)) in
     firstn m (hash (kdf_input (kb ++ H) X sid)) = firstn m (hash (kdf_input (kb ++ H) Y sid)) ->
     kdf_input (kb ++ H) X sid = kdf_input (kb ++ H) Y sid) ->
    compute_key hash K H sid X n = Ok kX -> compute_key hash K H sid Y n = Ok kY -> kX <> kY.
  Proof.
    intros HK Hxy Hn Hinj EX EY E. subst kY.
    destruct (equal_keys_collision K kb H sid X Y n kX HK Hxy Hn EX EY) as [Hab [_ Hc]].
    apply Hab. apply Hinj. exact Hc.
  Qed.

  (* when at least one whole digest is requested, plain injectivity of the hash is enough *)
  Theorem dir_distinct_inj K kb H sid X Y n kX kY :
    add_mpint K = Ok kb -> X <> Y -> Z.of_nat hl <= n ->
    (forall a b, hash a = hash b -> a = b) ->
    compute_key hash K H sid X n = Ok kX -> compute_key hash K H sid Y n = Ok kY -> kX <> kY.
  Proof.
    intros HK Hxy Hn Hinj. apply (dir_distinct K kb H sid X Y n kX kY HK Hxy); [lia|].
    cbn zeta. rewrite Z.min_r by lia. rewrite Nat2Z.id.
    assert (F : forall a, firstn hl (hash a) = hash a).
    { intros a. rewrite <- (hash_len a) at 1. apply firstn_all. }
    rewrite !F. apply Hinj.
  Qed.

  Theorem stream_prefix pre X sid i d :
    length (upto pre X sid i) = (S i * hl)%nat /\
    exists rest, upto pre X sid (i + d) = upto pre X sid i ++ rest.
  Proof. split; [apply upto_length | apply upto_extend]. Qed.

  Theorem length_total K H sid X n :
    0 <= n ->
    (exists k, compute_key hash K H sid X n = Ok k /\ Z.of_nat (length k) = n) \/
    compute_key hash K H sid X n = Raise StructErr.
  Proof.
    intros Hn.
    destruct (compute_key_total K H sid X n Hn) as [[k E]|E]; [left|right; exact E].
    exists k. split; [exact E|].
    destruct (add_mpint K) as [kb|e] eqn:HK.
    - exact (compute_key_length K kb H sid X n k HK Hn E).
    - rewrite (compute_key_raise K H sid X n e HK) in E. discriminate E.
  Qed.

  Theorem input_letter_offset pre X Y sid :
    nth (length pre) (kdf_input pre X sid) 0 = X /\
    length (kdf_input pre X sid) = length (kdf_input pre Y sid) /\
    (X <> Y -> kdf_input pre X sid <> kdf_input pre Y sid).
  Proof.
    split; [apply kdf_input_letter|]. split; [apply kdf_input_same_length|apply kdf_input_diff].
  Qed.
End KDF.

(* ---- letters and sizes over the generated tables ------------------------------------------------ *)
Lemma letters_rfc : forall r d p, gen_letter r d p = rfc_letter r d p.
Proof. intros [] [] []; reflexivity. Qed.

Lemma letters_range : forall r d p, 65 <= gen_letter r d p <= 70.
Proof. intros [] [] []; cbn; lia. Qed.

Lemma letters_peer : forall r d p, gen_letter r d p = gen_letter (peer r) (flip d) p.
Proof. intros [] [] []; reflexivity. Qed.

Lemma sizes_peer : forall r d p, gen_size r d p = gen_size (peer r) (flip d) p.
Proof. intros [] [] []; reflexivity. Qed.

Lemma sizes_spec : forall r d p, gen_size r d p = spec_size p.
Proof. intros [] [] []; reflexivity. Qed.

Lemma sel_dirs :
  gen_cipher_sel Outbound = SelLocal /\ gen_cipher_sel Inbound = SelRemote /\
  gen_mac_sel Outbound = SelLocal /\ gen_mac_sel Inbound = SelRemote.
Proof. repeat split; reflexivity. Qed.

Lemma requested_peer r d p c m : requested r d p c m = requested (peer r) (flip d) p c m.
Proof. unfold requested. rewrite <- letters_peer, <- sizes_peer. reflexivity. Qed.

Lemma session_key_peer hash r d p c m K H sid :
  session_key hash r d p c m K H sid = session_key hash (peer r) (flip d) p c m K H sid.
Proof. unfold session_key. rewrite <- requested_peer. reflexivity. Qed.

Theorem peer_match (hash : list Z -> list Z) r d p c m K H sid :
  gen_letter r d p = gen_letter (peer r) (flip d) p /\
  gen_size r d p = gen_size (peer r) (flip d) p /\
  session_key hash r d p c m K H sid = session_key hash (peer r) (flip d) p c m K H sid.
Proof. split; [apply letters_peer|]. split; [apply sizes_peer|]. apply session_key_peer. Qed.

(* the six letters a transport uses (two directions x three purposes) are pairwise different *)
Lemma letters_injective r d1 p1 d2 p2 :
  gen_letter r d1 p1 = gen_letter r d2 p2 -> d1 = d2 /\ p1 = p2.
Proof. destruct r, d1, p1, d2, p2; cbn; intros E; try discriminate E; split; reflexivity. Qed.

Lemma letters_dir_differ r p1 p2 : gen_letter r Inbound p1 <> gen_letter r Outbound p2.
Proof. intros E. apply letters_injective in E as [E _]. discriminate E. Qed.

Lemma sizes_in_range_ok : sizes_in_range = true.
Proof. vm_compute. reflexivity. Qed.

Lemma mac_digest_ge_size_ok : mac_digest_ge_size = true.
Proof. vm_compute. reflexivity. Qed.

Lemma requested_size_range r d p c m :
  In c gen_ciphers -> In m gen_macs -> 1 <= snd (requested r d p c m) <= 512.
Proof.
  intros Hc Hm. unfold requested. cbn [snd]. rewrite sizes_spec.
  pose proof sizes_in_range_ok as S. unfold sizes_in_range in S.
  rewrite forallb_forall in S. specialize (S c Hc).
  rewrite forallb_forall in S. specialize (S m Hm).
  rewrite forallb_forall in S.
  assert (Hp : In p all_purposes) by (destruct p; cbn; tauto).
  specialize (S p Hp). cbn zeta in S. lia.
Qed.

Lemma requested_sizes r d c m :
  snd (requested r d IV c m) = match c_iv c with Some v => v | None => c_block c end /\
  snd (requested r d EncKey c m) = c_key c /\
  snd (requested r d MacKey c m) = m_digest m.
Proof. unfold requested. cbn [snd]. rewrite !sizes_spec. repeat split. Qed.

Theorem sizes_all r d c m :
  snd (requested r d IV c m) = match c_iv c with Some v => v | None => c_block c end /\
  snd (requested r d EncKey c m) = c_key c /\
  snd (requested r d MacKey c m) = m_digest m /\
  (In c gen_ciphers -> In m gen_macs -> forall p, 1 <= snd (requested r d p c m) <= 512) /\
  (In m gen_macs -> m_size m <= m_digest m).
Proof.
  destruct (requested_sizes r d c m) as [A [B C]].
  split; [exact A|]. split; [exact B|]. split; [exact C|]. split.
  - intros Hc Hm p. exact (requested_size_range r d p c m Hc Hm).
  - intros Hm. pose proof mac_digest_ge_size_ok as S. unfold mac_digest_ge_size in S.
    rewrite forallb_forall in S. specialize (S m Hm). lia.
Qed.

(* a transport's inbound and outbound keys of any purposes differ unless the truncated hash collides *)
Theorem session_dir_distinct hash hl :
  (forall m, length (hash m) = hl) -> (0 < hl)%nat ->
  forall r p1 p2 c1 m1 c2 m2 K kb H sid k,
    add_mpint K = Ok kb ->
    snd (requested r Inbound p1 c1 m1) = snd (requested r Outbound p2 c2 m2) ->
    0 < snd (requested r Inbound p1 c1 m1) ->
    session_key hash r Inbound p1 c1 m1 K H sid = Ok k ->
    session_key hash r Outbound p2 c2 m2 K H sid = Ok k ->
    let a := kdf_input (kb ++ H) (gen_letter r Inbound p1) sid in
    let b := kdf_input (kb ++ H) (gen_letter r Outbound p2) sid in
    let m := Z.to_nat (Z.min (snd (requested r Inbound p1 c1 m1)) (Z.of_nat hl)) in
    a <> b /\ (0 < m)%nat /\ firstn m (hash a) = firstn m (hash b).
Proof.
  intros Hlen Hpos r p1 p2 c1 m1 c2 m2 K kb H sid k HK Hsz Hn E1 E2.
  unfold session_key, requested in *. cbn [snd] in *.
  rewrite <- Hsz in E2.
  exact (equal_keys_collision hash hl Hlen Hpos K kb H sid _ _ _ k HK (letters_dir_differ r p1 p2) Hn E1 E2).
Qed.

(* ---- per kex algorithm: the digest length _compute_key works with is positive, so C04_rfc applies --- *)
Lemma kex_hashes_positive_ok : kex_hashes_positive = true.
Proof. vm_compute. reflexivity. Qed.

Theorem rfc_per_kex name declared :
  In (name, declared) gen_kex_hashes ->
  let hlz := kex_hash_len declared in
  1 <= hlz <= 64 /\
  forall (hash : list Z -> list Z),
    (forall m, length (hash m) = Z.to_nat hlz) ->
    forall (K : Z) (kb H sid : list Z) (X n : Z) (i : nat),
      add_mpint K = Ok kb -> 0 <= n -> n <= Z.of_nat (S i) * hlz ->
      compute_key hash K H sid X n = Ok (firstn (Z.to_nat n) (rfc_upto hash (kb ++ H) X sid i)).
Proof.
  intros Hin hlz.
  pose proof kex_hashes_positive_ok as P. unfold kex_hashes_positive in P.
  rewrite forallb_forall in P. specialize (P _ Hin). cbn [snd] in P. fold hlz in P.
  split; [lia|].
  intros hash Hlen K kb H sid X n i HK Hn Hi.
  apply (compute_key_rfc hash (Z.to_nat hlz) Hlen ltac:(lia) K kb H sid X n i HK Hn). lia.
Qed.

(* the digest length _compute_key ends up with for each kex class is the one the kex method specifies *)
Lemma kex_hashes_match_spec_ok : kex_hashes_match_spec = true.
Proof. vm_compute. reflexivity. Qed.

Theorem kex_hash_spec name declared :
  In (name, declared) gen_kex_hashes -> spec_kex_hash_len name = Some (kex_hash_len declared).
Proof.
  intros Hin. pose proof kex_hashes_match_spec_ok as P. unfold kex_hashes_match_spec in P.
  rewrite forallb_forall in P. specialize (P _ Hin). cbn [fst snd] in P.
  destruct (spec_kex_hash_len name) as [h|]; [|discriminate P].
  apply Z.eqb_eq in P. now subst h.
Qed.

(* the generated cipher / MAC tables agree, row by row and by NAME, with the hand-written RFC tables; hence the
   lengths asked of _compute_key are the lengths the negotiated algorithm names specify *)
Lemma tables_match_spec_ok : tables_match_spec = true.
Proof. vm_compute. reflexivity. Qed.

Theorem tables_spec r d c m :
  In c gen_ciphers -> In m gen_macs ->
  exists k iv b dg tg,
    lookup_name spec_ciphers (c_name c) = Some (k, iv, b) /\
    lookup_name spec_macs (m_name m) = Some (dg, tg) /\
    snd (requested r d IV c m) = iv /\ snd (requested r d EncKey c m) = k /\
    snd (requested r d MacKey c m) = dg /\ c_block c = b /\ m_size m = tg.
Proof.
  intros Hc Hm. pose proof tables_match_spec_ok as P. unfold tables_match_spec in P.
  apply andb_true_iff in P as [Pm Pc]. rewrite forallb_forall in Pm, Pc.
  specialize (Pm m Hm). specialize (Pc c Hc).
  unfold mac_matches_spec in Pm. unfold cipher_matches_spec in Pc.
  destruct (lookup_name spec_macs (m_name m)) as [[dg tg]|]; [|discriminate Pm].
  destruct (lookup_name spec_ciphers (c_name c)) as [[[k iv] b]|]; [|discriminate Pc].
  destruct (requested_sizes r d c m) as [A [B C]].
  exists k, iv, b, dg, tg. rewrite A, B, C.
  destruct (c_iv c); repeat split; lia.
Qed.

Lemma example_pair_exists_ok : example_pair_exists = true.
Proof. vm_compute. reflexivity. Qed.

(* ---- non-vacuity material ---------------------------------------------------------------------- *)
Lemma toy_hash_len hl m : length (toy_hash hl m) = hl.
Proof.
  unfold toy_hash. generalize (fold_left toy_step m 7) as a. generalize 0 as j.
  induction hl as [|k IH]; intros j a; cbn [toy_out length]; [reflexivity|]. now rewrite IH.
Qed.
