(* C18 - a client refuses server-initiated actions it did not enable.
   Property statements only; every proof is `exact <lemma from Proofs/C18_proofs.v>`.
   request_branches / open_branches come from Gen/C18_gen.v (regenerated from the source AST). *)
From PV Require Import Bytes C18_gen C18 C18_proofs.
Open Scope Z_scope.

(* a client-mode transport refuses every global request: the reply, when one is wanted, is
   REQUEST_FAILURE, never REQUEST_SUCCESS, and nothing is consulted or called - whatever the
   request name, whatever a server object would have said *)
Theorem C18_global :
  forall (kind : list Z) (want_reply srv_ok : bool),
    global_request false kind want_reply srv_ok =
      (false, if want_reply then Some MSG_REQUEST_FAILURE else None) /\
    snd (global_request false kind want_reply srv_ok) <> Some MSG_REQUEST_SUCCESS.
Proof. intros; split; [apply global_client | apply global_client_never_success]. Qed.
Print Assumptions C18_global.

(* for every history of enable / cancel operations and every channel kind: a client accepts a
   server-opened channel only if the client itself enabled that kind - agent forwarding was
   requested, an X11 request was granted, or a port forward was granted and not cancelled since -
   and then it goes to that feature's handler, never to the general accept queue *)
Theorem C18_open :
  forall (hist : list event) (kind : list Z) (srv_reason route : Z),
    channel_open false (handlers_after hist) kind srv_reason = Accept route ->
    (kind = s_agent /\ route = 0 /\ In EvAgent hist) \/
    (kind = s_x11 /\ route = 1 /\ In (EvX11 true) hist) \/
    (kind = s_forwarded_tcpip /\ route = 2 /\ forward_active hist).
Proof. exact open_client_accept. Qed.
Print Assumptions C18_open.

(* ... and everything else is rejected as administratively prohibited *)
Theorem C18_open_rejects :
  forall (hist : list event) (kind : list Z) (srv_reason : Z),
    ~ (kind = s_agent /\ In EvAgent hist) ->
    ~ (kind = s_x11 /\ In (EvX11 true) hist) ->
    ~ (kind = s_forwarded_tcpip /\ forward_active hist) ->
    channel_open false (handlers_after hist) kind srv_reason = Reject OPEN_FAILED_ADMINISTRATIVELY_PROHIBITED.
Proof. exact open_client_reject. Qed.
Print Assumptions C18_open_rejects.

(* the handler state is exactly this function of the history *)
Theorem C18_handler_state :
  forall hist : list event,
    (h_agent (handlers_after hist) = true <-> In EvAgent hist) /\
    (h_x11 (handlers_after hist) = true <-> In (EvX11 true) hist) /\
    (h_tcp (handlers_after hist) = true <-> forward_active hist).
Proof. intros hist. exact (conj (agent_iff hist) (conj (x11_iff hist) (tcp_iff hist))). Qed.
Print Assumptions C18_handler_state.

(* with no server object a channel request is approved only for the two notifications
   exit-status and xon-xoff; pty-req, shell, exec, subsystem, env, window-change, x11-req,
   auth-agent-req and every unknown name get CHANNEL_FAILURE (or silence when no reply is wanted) *)
Theorem C18_request :
  forall (key : list Z) (srv_ok : bool) (remote_chanid : Z),
    key <> s_exit_status -> key <> s_xon_xoff ->
    channel_request_ok false key srv_ok = false /\
    channel_request_reply false key true srv_ok remote_chanid = Some (MSG_CHANNEL_FAILURE, remote_chanid) /\
    channel_request_reply false key false srv_ok remote_chanid = None.
Proof.
  intros key srv cid H1 H2.
  exact (conj (request_refused key srv H1 H2) (request_reply_failure key srv cid H1 H2)).
Qed.
Print Assumptions C18_request.

Theorem C18_command_requests :
  forall srv_ok : bool,
    forallb (fun key => negb (channel_request_ok false key srv_ok))
            [s_pty_req; s_shell; s_exec; s_subsystem; s_env; s_window_change; s_x11_req; s_agent_req] = true.
Proof. exact command_requests_refused. Qed.
Print Assumptions C18_command_requests.

(* non-vacuity: the three kinds are accepted after being enabled, refused again after a cancel,
   and the same requests would be approved by a server object that says yes *)
Example C18_example :
  channel_open false (handlers_after [EvForward true true]) s_forwarded_tcpip 0 = Accept 2 /\
  channel_open false (handlers_after [EvForward true true; EvCancel true]) s_forwarded_tcpip 0
    = Reject OPEN_FAILED_ADMINISTRATIVELY_PROHIBITED /\
  channel_open false (handlers_after [EvX11 false; EvAgent]) s_x11 0 = Reject OPEN_FAILED_ADMINISTRATIVELY_PROHIBITED /\
  channel_open false (handlers_after [EvX11 true]) s_x11 0 = Accept 1 /\
  channel_open false (handlers_after [EvAgent]) s_agent 0 = Accept 0 /\
  channel_open true no_handlers s_x11 0 = Accept (-1) /\
  channel_request_ok true s_exec true = true /\
  global_request true s_x11 true true = (true, Some MSG_REQUEST_SUCCESS) /\
  channel_open false (handlers_after [EvOther true; EvForward true false]) s_forwarded_tcpip 0
    = Reject OPEN_FAILED_ADMINISTRATIVELY_PROHIBITED /\
  forward_active [EvForward true true; EvAgent].
Proof.
  repeat split; try reflexivity.
  exists [], [EvAgent]. split; reflexivity.
Qed.
