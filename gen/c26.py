"""C26 translator: reads BufferedPipe.feed() in paramiko/buffered_pipe.py and emits which of the
two recognised shapes it has (fail-closed on anything else):

  (a) if self._event is not None: self._event.set()          # before or after the append
      self._buffer_frombytes(b(data)); self._cv.notify_all()
      -> feed_sets_event_always = true
  (b) self._buffer_frombytes(b(data))
      if self._event is not None and len(self._buffer) > 0: self._event.set()
      self._cv.notify_all()
      -> feed_sets_event_always = false   (event set only when the buffer is non-empty afterwards)

It also enforces, statically and fail-closed, the lock discipline the model's atomic actions rest on:
in every method of BufferedPipe (other than __init__ and the two _buffer_* helpers) each statement that
touches self._buffer / self._closed / self._event (directly or through the helpers) lies inside a
`with self._lock:` block or inside the `try:` that immediately follows `self._lock.acquire()` and
releases the lock in its `finally:`.  (The harness checks the same thing dynamically.)

Everything else about the class is tied by the scheduler-driven correspondence in harness/c26.py.
"""
import ast
import os


def _calls(node, attr):
    """Line numbers of calls  <something>.<attr>(...)  under node."""
    out = []
    for n in ast.walk(node):
        if isinstance(n, ast.Call) and isinstance(n.func, ast.Attribute) and n.func.attr == attr:
            out.append(n.lineno)
    return out


STATE = ("_buffer", "_closed", "_event")
HELPERS = ("_buffer_frombytes", "_buffer_tobytes")


def _is_self_attr(n, names):
    return (isinstance(n, ast.Attribute) and isinstance(n.value, ast.Name) and n.value.id == "self"
            and n.attr in names)


def _is_lock_call(stmt, meth):
    return (isinstance(stmt, ast.Expr) and isinstance(stmt.value, ast.Call)
            and isinstance(stmt.value.func, ast.Attribute) and stmt.value.func.attr == meth
            and _is_self_attr(stmt.value.func.value, ("_lock", "_cv")))


def _touches(node):
    return [n for n in ast.walk(node) if _is_self_attr(n, STATE + HELPERS)]


def _unlocked_touches(stmts):
    """Touches of shared state in a statement list that are not inside a locked region."""
    bad = []
    prev = None
    for st in stmts:
        locked = False
        if isinstance(st, (ast.With,)) and any(_is_self_attr(i.context_expr, ("_lock", "_cv")) for i in st.items):
            locked = True
        if (isinstance(st, ast.Try) and prev is not None and _is_lock_call(prev, "acquire")
                and any(_is_lock_call(f, "release") for f in st.finalbody)):
            locked = True
        if not locked:
            blocks = [getattr(st, f) for f in ("body", "orelse", "finalbody") if isinstance(getattr(st, f, None), list)]
            blocks += [h.body for h in getattr(st, "handlers", [])]
            if blocks and not isinstance(st, (ast.FunctionDef, ast.ClassDef)):
                # compound statement: its own header expressions, then its blocks
                for f in ("test", "iter", "target"):
                    if getattr(st, f, None) is not None:
                        bad += _touches(getattr(st, f))
                for i in getattr(st, "items", []):
                    bad += _touches(i)
                for b in blocks:
                    bad += _unlocked_touches(b)
            else:
                bad += _touches(st)
        prev = st
    return bad


def _lock_regions(fn):
    n = 0
    for node in ast.walk(fn):
        if isinstance(node, ast.With) and any(_is_self_attr(i.context_expr, ("_lock", "_cv")) for i in node.items):
            n += 1
        if _is_lock_call(node, "acquire"):
            n += 1
    return n


ONE_SECTION = ("feed", "read", "empty", "close", "set_event", "read_ready", "__len__")


def check_lock_discipline(cls):
    # each public operation is exactly one critical section (read gives the lock up only inside cv.wait)
    # and does not delegate to other methods of the class apart from the two _buffer_* helpers
    fns = {fn.name: fn for fn in cls.body if isinstance(fn, ast.FunctionDef)}
    for name in ONE_SECTION:
        if name not in fns:
            raise ValueError("BufferedPipe.%s not found" % name)
        k = _lock_regions(fns[name])
        if k != 1:
            raise ValueError("BufferedPipe.%s has %d regions protected by self._lock (the model has exactly one "
                             "critical section per operation)" % (name, k))
        for node in ast.walk(fns[name]):
            if (isinstance(node, ast.Call) and _is_self_attr(node.func, tuple(fns)) and node.func.attr not in HELPERS):
                raise ValueError("BufferedPipe.%s calls self.%s(): operations must be self-contained critical "
                                 "sections" % (name, node.func.attr))
    for fn in cls.body:
        if not isinstance(fn, ast.FunctionDef) or fn.name in ("__init__",) + HELPERS:
            continue
        bad = _unlocked_touches(fn.body)
        if bad:
            raise ValueError("BufferedPipe.%s touches self.%s at line %d outside the region protected by self._lock"
                             % (fn.name, bad[0].attr, bad[0].lineno))


def generate(repo):
    path = os.path.join(repo, "paramiko", "buffered_pipe.py")
    tree = ast.parse(open(path).read())
    cls = [n for n in tree.body if isinstance(n, ast.ClassDef) and n.name == "BufferedPipe"]
    if len(cls) != 1:
        raise ValueError("class BufferedPipe not found")
    check_lock_discipline(cls[0])
    feed = [n for n in cls[0].body if isinstance(n, ast.FunctionDef) and n.name == "feed"]
    if len(feed) != 1:
        raise ValueError("BufferedPipe.feed not found")
    feed = feed[0]
    appends = _calls(feed, "_buffer_frombytes")
    if len(appends) != 1:
        raise ValueError("feed(): expected exactly one _buffer_frombytes call")
    guards = []
    for n in ast.walk(feed):
        if isinstance(n, ast.If):
            sets = [s for s in n.body if isinstance(s, ast.Expr) and _calls(s, "set")]
            if sets:
                if len(n.body) != 1 or n.orelse:
                    raise ValueError("feed(): unrecognised body of the event guard")
                guards.append(n)
    if len(guards) != 1 or len(_calls(feed, "set")) != 1:
        raise ValueError("feed(): expected exactly one guarded self._event.set()")
    g = guards[0]
    test = ast.unparse(g.test).replace(" ", "")
    if test == "self._eventisnotNone":
        always = True
    elif test in ("self._eventisnotNoneandlen(self._buffer)>0",
                  "len(self._buffer)>0andself._eventisnotNone"):
        if g.lineno < appends[0]:
            raise ValueError("feed(): buffer-length guard evaluated before the append")
        always = False
    else:
        raise ValueError("feed(): unrecognised event guard %r" % test)
    text = ("(* generated by gen/c26.py from paramiko/buffered_pipe.py (BufferedPipe.feed) -- do not edit *)\n"
            "Definition feed_sets_event_always : bool := %s.\n" % ("true" if always else "false"))
    return {"C26_gen.v": text}
