(* C37 — malformed private key files fail with SSHException (or PasswordRequiredException) only.
   Statements only.  PARTIAL by nature: base64, the text layer (bytes -> lines), UTF-8 decoding, bcrypt, the
   ciphers, DER loading, RSA number validation, EC / Ed25519 key derivation are oracles, universally
   quantified; what is proved is paramiko's own line / byte level parsing after repairs fixes/C37-1..7. *)
From PV Require Import Bytes C39 C37 C37_proofs.
Open Scope Z_scope.

(* for EVERY file content (any byte string), every password (none / empty / any), and all three key classes:
   loading yields a key, SSHException or PasswordRequiredException - nothing else - provided the library
   calls raise only their documented ValueError family (which the repaired code converts) *)
Theorem C37_only_sshexc :
  forall b64 utf8_ok pem_decrypt ossh_decrypt ed_cipher_known ed_decrypt pk_of_seed der_load
         rsa_numbers_ok ec_derive_ok readlines,
    (forall a b c d k, pem_decrypt a b c d <> DOther k) ->
    (forall a b c r d k, ossh_decrypt a b c r d <> DOther k) ->
    (forall a b c r d k, ed_decrypt a b c r d <> DOther k) ->
    (forall x k, der_load x <> DerOther k) ->
    forall (file : list Z) (password : option (list Z)),
      allowed (load_rsa b64 pem_decrypt ossh_decrypt der_load rsa_numbers_ok readlines file password) /\
      allowed (load_ecdsa b64 pem_decrypt ossh_decrypt der_load ec_derive_ok readlines file password) /\
      allowed (load_ed25519 b64 utf8_ok pem_decrypt ossh_decrypt ed_cipher_known ed_decrypt pk_of_seed
                            readlines file password).
Proof. exact only_sshexc. Qed.
Print Assumptions C37_only_sshexc.

(* _unpad_openssh on its own, every byte string incl. the empty one and padding longer than the data *)
Theorem C37_unpad_total : forall d, allowed (unpad_openssh d).
Proof. exact al_unpad. Qed.
Print Assumptions C37_unpad_total.

(* an Ed25519 private section that parses yields seeds of 32 bytes whose derived public key is the one the
   file lists: the halves of a loaded key agree (RSA: the library validates the numbers; ECDSA: the public
   half is derived from the private one - both outside the model) *)
Theorem C37_ed25519_halves_agree :
  forall utf8_ok pk_of_seed n pubs buf pos seeds,
    ed_priv_loop utf8_ok pk_of_seed n pubs buf pos = Ok seeds ->
    length seeds = n /\
    forall i seed, nth_error seeds i = Some seed ->
      length seed = 32%nat /\ nth_error pubs i = Some (pk_of_seed seed).
Proof. exact priv_loop_agree. Qed.
Print Assumptions C37_ed25519_halves_agree.

(* non-vacuity: oracles meeting the hypotheses exist, and the model both rejects and accepts *)
Example C37_example :
  let b64 := fun _ : list Z => Some (s_magic ++ [0;0;0;4;110;111;110;101; 0;0;0;4;110;111;110;101; 0;0;0;0; 0;0;0;1;
                                                 0;0;0;0; 0;0;0;15; 0;0;0;7; 0;0;0;7; 0;0;0;0; 9;1;2]) in
  read_openssh b64 (fun _ _ _ _ _ => DBad) [] None = Ok [9] /\
  unpad_openssh [] = Raise SSHExc /\ unpad_openssh [1; 5] = Raise SSHExc /\
  unpad_openssh [9; 1; 2] = Ok [9] /\
  run_scan (0, [[45;45;45;45;45;66;69;71;73;78;32;82;83;65;32;80;82;73;86;65;84;69;32;75;69;89;45;45;45;45;45;10]; [65;10]]) = [0; 1].
Proof. cbv zeta. repeat split; vm_compute; reflexivity. Qed.
