(* FileSpec — reference semantics of a Python binary file object (io.BufferedReader / Writer /
   Random over a regular file), as observable through read / readline / readlines / write /
   seek / tell / truncate / flush and the final file contents.  A file is
   (content, position, mode flags); buffering is not observable through these calls, except in
   append mode, where CPython's buffered writer reports positions as if a pending write landed
   at the seek position: for "a"/"a+" the reference is the unbuffered file object (buffering=0),
   i.e. the operating system's O_APPEND semantics.
   Used by C27 (remote SFTP files behave like local binary files).  Definitions + a few lemmas. *)
From PV Require Import Bytes C42.
Open Scope Z_scope.

Inductive fmode := Mr | Mrp | Mw | Mwp | Ma | Map
                 | Mx        (* Python "x" = exclusive creation, write-only; paramiko spells it "wx" *)
                 | Mxbare.   (* the bare string "x" handed to paramiko (Python "x" on the reference) *)

Definition m_read (m : fmode) : bool := match m with Mr | Mrp | Mwp | Map => true | _ => false end.
Definition m_write (m : fmode) : bool := match m with Mr => false | _ => true end.
Definition m_append (m : fmode) : bool := match m with Ma | Map => true | _ => false end.
Definition m_trunc (m : fmode) : bool := match m with Mw | Mwp => true | _ => false end.
Definition m_must_exist (m : fmode) : bool := match m with Mr | Mrp => true | _ => false end.
Definition m_excl (m : fmode) : bool := match m with Mx | Mxbare => true | _ => false end.

Record rfile := mkrf { r_content : list Z; r_pos : Z; r_rd : bool; r_wr : bool; r_app : bool }.

(* n comes from seek offsets / truncate sizes; the correspondence generator keeps it small *)
Definition zeros (n : Z) : list Z := repeat 0 (Z.to_nat n).

(* write d at offset off (zero-filling a gap past EOF); writing b"" changes nothing *)
Definition put (c : list Z) (off : Z) (d : list Z) : list Z :=
  if is_nil d then c
  else take off c ++ zeros (off - zlen c) ++ d ++ drop (off + zlen d) c.

Definition resize (c : list Z) (n : Z) : list Z := take n c ++ zeros (n - zlen c).

(* open(path, mode + "b"): None = the call raises (missing file for r / r+, existing for x) *)
Definition ref_open (m : fmode) (file : option (list Z)) : option rfile :=
  match file with
  | None => if m_must_exist m then None else Some (mkrf [] 0 (m_read m) (m_write m) (m_append m))
  | Some c =>
      if m_excl m then None
      else let c' := if m_trunc m then [] else c in
           Some (mkrf c' (if m_append m then zlen c' else 0) (m_read m) (m_write m) (m_append m))
  end.

Inductive fop :=
  | FRead (n : option Z) | FReadline (size : option Z) | FReadlines
  | FWrite (d : list Z) | FSeek (off whence : Z) | FTell | FTruncate (size : Z) | FFlush.

Inductive fres := FBytes (b : list Z) | FLines (ls : list (list Z)) | FInt (z : Z) | FNone | FExn.

Definition rest (f : rfile) : list Z := drop (r_pos f) (r_content f).

Fixpoint lines_of (fuel : nat) (l : list Z) : list (list Z) :=
  match fuel with
  | O => []
  | S k => if is_nil l then []
           else let ln := upto_lf l in ln :: lines_of k (drop (zlen ln) l)
  end.

Definition set_pos (f : rfile) (p : Z) : rfile := mkrf (r_content f) p (r_rd f) (r_wr f) (r_app f).
Definition set_content (f : rfile) (c : list Z) (p : Z) : rfile := mkrf c p (r_rd f) (r_wr f) (r_app f).

Definition ref_step (f : rfile) (o : fop) : fres * rfile :=
  match o with
  | FRead n =>
      if negb (r_rd f) then (FExn, f)
      else let neg := match n with None => true | Some k => k <? 0 end in
           let d := if neg then rest f else take (match n with Some k => k | None => 0 end) (rest f) in
           (FBytes d, set_pos f (r_pos f + zlen d))
  | FReadline size =>
      if negb (r_rd f) then (FExn, f)
      else let d := line_spec size (rest f) in (FBytes d, set_pos f (r_pos f + zlen d))
  | FReadlines =>
      if negb (r_rd f) then (FExn, f)
      else let r := rest f in (FLines (lines_of (S (length r)) r), set_pos f (r_pos f + zlen r))
  | FWrite d =>
      if negb (r_wr f) then (FExn, f)
      else if is_nil d then (FNone, f)        (* write(b"") changes neither content nor position *)
      else let p := if r_app f then zlen (r_content f) else r_pos f in
           (FNone, set_content f (put (r_content f) p d) (p + zlen d))
  | FSeek off whence =>
      let p := if whence =? 0 then off
               else if whence =? 1 then r_pos f + off
               else zlen (r_content f) + off in
      if p <? 0 then (FExn, f) else (FNone, set_pos f p)
  | FTell => (FInt (r_pos f), f)
  | FTruncate n =>
      if negb (r_wr f) || (n <? 0) then (FExn, f)
      else (FNone, set_content f (resize (r_content f) n) (r_pos f))
  | FFlush => (FNone, f)
  end.

Fixpoint ref_run (f : rfile) (ops : list fop) : list fres * rfile :=
  match ops with
  | [] => ([], f)
  | o :: r => let '(x, f1) := ref_step f o in
              let '(xs, f2) := ref_run f1 r in (x :: xs, f2)
  end.

(* canonical encoding shared by the reference and the SFTP model *)
Definition canon_fres (r : fres) : list Z :=
  match r with
  | FBytes b => 1 :: zlen b :: b
  | FLines ls => 2 :: zlen (map (fun _ => 0) ls) :: flat_map (fun l => zlen l :: l) ls
  | FInt z => [4; z]
  | FNone => [3]
  | FExn => [0]
  end.

Definition fmode_of (k : Z) : fmode :=
  if k =? 0 then Mr else if k =? 1 then Mrp else if k =? 2 then Mw else if k =? 3 then Mwp
  else if k =? 4 then Ma else if k =? 5 then Map else if k =? 6 then Mx else Mxbare.

(* case = (mode code, (exists, initial content), ops); output = results ++ -1 :: final content;
   [-9] = open raises *)
Definition run_ref (c : Z * (bool * list Z) * list fop) : list Z :=
  let '(k, (ex, init), ops) := c in
  match ref_open (fmode_of k) (if ex then Some init else None) with
  | None => [-9]
  | Some f0 => let '(rs, f) := ref_run f0 ops in
               flat_map canon_fres rs ++ [-1] ++ r_content f
  end.
