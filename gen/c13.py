"""C13 translator: derives the wake graph from the paramiko source (AST), fail-closed.

Emits coq/Gen/C13_gen.v with

  fn_body : fn -> list stmt      the wake actions performed by Transport.run()'s epilogue,
                                 Transport.close / stop_thread, Channel._unlink / _set_closed,
                                 BufferedPipe.close and AuthHandler.abort, statement by statement
                                 (including the `if self.active:` guard of the epilogue and the early
                                 returns of close() and _unlink());
  api_rows : list api_row        for every blocking API its wait primitive, poll period, whether the
                                 exit condition is tested before the first wait, whether it loops, and
                                 the facts that make it exit (e.g. FInactive only when the loop really
                                 contains `if not self.active: raise/return`).

Any statement in those regions that is not recognised aborts the run (ValueError), so the table can
never silently omit something.  Removing a wake-up or an `active` test from the source changes the
table, and `C13_every_api` (closed by computation over this table) stops checking.
"""
import ast
import os
import re


class Unrecognised(ValueError):
    pass


def _parse(repo, rel):
    return ast.parse(open(os.path.join(repo, "paramiko", rel)).read())


def _cls(tree, name):
    c = [n for n in tree.body if isinstance(n, ast.ClassDef) and n.name == name]
    if len(c) != 1:
        raise Unrecognised("class %s not found" % name)
    return c[0]


def _fn(cls, name):
    f = [n for n in cls.body if isinstance(n, ast.FunctionDef) and n.name == name]
    if len(f) != 1:
        raise Unrecognised("%s.%s not found" % (cls.name, name))
    return f[0]


def _u(node):
    return ast.unparse(node).strip()


def _strip_doc(body):
    if body and isinstance(body[0], ast.Expr) and isinstance(body[0].value, ast.Constant) \
            and isinstance(body[0].value.value, str):
        return body[1:]
    return body


# ---------------------------------------------------------------------------------------------
# wake actions

# simple statements (unparsed text) -> Coq stmt, per function
SIMPLE = {
    "run": {
        "_active_threads.remove(self)": None,
        "self.active = False": "SDo (Establish FInactive)",
        "self.packetizer.close()": "SDo (Establish FPktClosed)",
        "self.completion_event.set()": "SDo (Establish (FEv EvCompletion))",
        "self.auth_handler.abort()": "SCall FnAuthAbort",
        "self.server_accept_cv.notify()": "SDo (NotifyOne CvAccept)",
        "self.server_accept_cv.notify_all()": "SDo (NotifyAll CvAccept)",
        "self.sock.close()": "SDo (Establish FSockClosed)",
        "self.lock.acquire()": None,
        "self.lock.release()": None,
    },
    "close": {
        "self.stop_thread()": "SCall FnStopThread",
        "self.sock.close()": "SDo (Establish FSockClosed)",
        "self.server_accept_cv.notify()": "SDo (NotifyOne CvAccept)",
        "self.server_accept_cv.notify_all()": "SDo (NotifyAll CvAccept)",
        "self.lock.acquire()": None,
        "self.lock.release()": None,
    },
    "stop_thread": {
        "self.active = False": "SDo (Establish FInactive)",
        "self.packetizer.close()": "SDo (Establish FPktClosed)",
    },
    "_unlink": {
        "self.lock.acquire()": None,
        "self.lock.release()": None,
        "self._set_closed()": "SCall FnSetClosed",
        "self.transport._unlink_channel(self.chanid)": None,
    },
    "_set_closed": {
        "self.closed = True": "SDo (Establish FChanClosed)",
        "self.in_buffer.close()": "SCall FnPipeClose",
        "self.in_stderr_buffer.close()": None,     # the stderr pipe: same class, not a separate row
        "self.out_buffer_cv.notify_all()": "SDo (NotifyAll CvOutBuf)",
        "self.out_buffer_cv.notify()": "SDo (NotifyOne CvOutBuf)",
        "self.event.set()": "SDo (Establish (FEv EvChanEvent))",
        "self.status_event.set()": "SDo (Establish (FEv EvChanStatus))",
    },
    "pipe_close": {
        "self._lock.acquire()": None,
        "self._lock.release()": None,
        "self._closed = True": "SDo (Establish FPipeClosed)",
        "self._cv.notify_all()": "SDo (NotifyAll CvInBuf)",
        "self._cv.notify()": "SDo (NotifyOne CvInBuf)",
    },
    "abort": {
        "self.auth_event.set()": "SDo (Establish (FEv EvAuth))",
    },
}

# `if X is not None: <body>` guards that only say "somebody may be waiting on X": transparent
NOT_NONE_GUARDS = {"self.completion_event is not None", "self.auth_handler is not None",
                   "self.auth_event is not None"}
# guarded statements that do not concern any modelled waiter
IGNORED_IFS = {"_set_closed": {"self._pipe is not None"}, "pipe_close": {"self._event is not None"}}


def _translate(stmts, where):
    """list of ast statements -> list of Coq stmt texts"""
    out = []
    table = SIMPLE[where]
    for s in stmts:
        if isinstance(s, ast.Expr) and isinstance(s.value, ast.Constant) and isinstance(s.value.value, str):
            continue
        if isinstance(s, ast.Try):
            if s.handlers or s.orelse:
                raise Unrecognised("%s: try with handlers in a wake region: %s" % (where, _u(s)[:80]))
            out += _translate(s.body, where)
            out += _translate(s.finalbody, where)
            continue
        if isinstance(s, ast.With):
            ctx = [_u(i.context_expr) for i in s.items]
            if ctx not in (["self.lock"], ["self._lock"]):
                raise Unrecognised("%s: with %s" % (where, ctx))
            out += _translate(s.body, where)
            continue
        if isinstance(s, ast.For):
            t = _u(s)
            if where in ("run", "close") and re.fullmatch(
                    r"for chan in list\(self\._channels\.values\(\)\):\s+chan\._unlink\(\)", t):
                out.append("SCall FnUnlink")
                continue
            if where == "run" and re.fullmatch(
                    r"for event in self\.channel_events\.values\(\):\s+event\.set\(\)", t):
                out.append("SDo (Establish (FEv EvChanOpen))")
                continue
            raise Unrecognised("%s: for loop %s" % (where, t[:80]))
        if isinstance(s, ast.While):
            if where == "stop_thread" and "self.join(" in _u(s) and len(s.body) == 1:
                continue      # joining the transport thread: performs no wake action
            raise Unrecognised("%s: while loop %s" % (where, _u(s)[:80]))
        if isinstance(s, ast.If):
            test = _u(s.test)
            if s.orelse:
                raise Unrecognised("%s: if/else in a wake region: %s" % (where, test))
            if test in IGNORED_IFS.get(where, ()):
                continue
            if test in NOT_NONE_GUARDS:
                out += _translate(s.body, where)
                continue
            if test == "self.active" and where == "run":
                body = _translate(s.body, where)
                out.append("SSkipUnlessActive %d" % len(body))
                out += body
                continue
            if test == "not self.active" and where == "close" and len(s.body) == 1 \
                    and isinstance(s.body[0], ast.Return):
                out.append("SReturnIfInactive")
                continue
            if test == "self.closed" and where == "_unlink" and len(s.body) == 1 \
                    and isinstance(s.body[0], ast.Return):
                out.append("SReturnIfChanClosed")
                continue
            raise Unrecognised("%s: unrecognised guard `if %s`" % (where, test))
        t = _u(s)
        if t not in table:
            raise Unrecognised("%s: unrecognised statement %r" % (where, t))
        if table[t] is not None:
            out.append(table[t])
    return out


def _run_epilogue(run):
    """The statements of Transport.run() that follow the main try/except, plus a check that every
    way out of the main loop reaches them."""
    outer = [s for s in run.body if isinstance(s, ast.Try)]
    if len(outer) != 1:
        raise Unrecognised("run(): expected one outer try")
    outer = outer[0]
    idx = [i for i, s in enumerate(outer.body) if isinstance(s, ast.Try)]
    if len(idx) != 1:
        raise Unrecognised("run(): expected one inner try")
    inner = outer.body[idx[0]]
    if any(not isinstance(s, ast.Try) for s in outer.body[:idx[0]]):
        raise Unrecognised("run(): statements before the inner try")
    caught = []
    for h in inner.handlers:
        caught.append(_u(h.type) if h.type is not None else "BaseException")
        for n in ast.walk(h):
            if isinstance(n, (ast.Return, ast.Raise)):
                raise Unrecognised("run(): handler for %s leaves without the epilogue" % caught[-1])
    if "Exception" not in caught and "BaseException" not in caught:
        raise Unrecognised("run(): no catch-all handler before the epilogue (%s)" % caught)
    for n in ast.walk(inner):
        if isinstance(n, ast.Return):
            raise Unrecognised("run(): return inside the main loop bypasses the epilogue")
    if inner.finalbody or inner.orelse:
        raise Unrecognised("run(): inner try has else/finally")
    return outer.body[idx[0] + 1:], caught


# ---------------------------------------------------------------------------------------------
# blocking APIs

ACTIVE_TESTS = ("not self.active", "not self.transport.is_active()")


def _polling_row(fn, api, prim, label):
    """`while True: X.wait(c); if not self.active: raise/return ...; if X.is_set(): break`"""
    loops = []
    for n in ast.walk(fn):
        if isinstance(n, ast.While) and n.body and isinstance(n.body[0], ast.Expr) \
                and isinstance(n.body[0].value, ast.Call) \
                and isinstance(n.body[0].value.func, ast.Attribute) and n.body[0].value.func.attr == "wait":
            loops.append(n)
    if len(loops) != 1:
        raise Unrecognised("%s: expected exactly one wait loop, found %d" % (label, len(loops)))
    loop = loops[0]
    if _u(loop.test) != "True":
        raise Unrecognised("%s: wait loop is not `while True`" % label)
    call = loop.body[0].value
    if len(call.args) == 0 and not call.keywords:
        period = None
    elif len(call.args) == 1 and isinstance(call.args[0], ast.Constant) \
            and isinstance(call.args[0].value, (int, float)) and call.args[0].value > 0:
        period = int(round(call.args[0].value * 1000))
    else:
        raise Unrecognised("%s: wait() argument is not a positive constant: %s" % (label, _u(call)))
    polls = False
    for s in loop.body[1:]:
        if isinstance(s, ast.If) and _u(s.test) in ACTIVE_TESTS and s.body \
                and isinstance(s.body[-1], (ast.Raise, ast.Return)):
            polls = True
    # the loop leaves when the awaited event is set
    evt_exit = any(isinstance(n, ast.Call) and isinstance(n.func, ast.Attribute) and n.func.attr == "is_set"
                   for n in ast.walk(loop))
    exit_on = (["FInactive"] if polls else []) + (["FEv %s" % prim] if evt_exit else [])
    return row(api, prim, period, False, False, True, exit_on)


def row(api, prim, period, user_timeout, has_pre, loop, exit_on):
    return ("mk_api %s %s %s %s %s %s [%s]" % (
        api, prim, "None" if period is None else "(Some %d)" % period,
        "true" if user_timeout else "false", "true" if has_pre else "false",
        "true" if loop else "false", "; ".join(exit_on)))


def _single_wait(fn, expr, label):
    calls = [n for n in ast.walk(fn) if isinstance(n, ast.Call) and _u(n.func) == expr + ".wait"]
    if len(calls) != 1:
        raise Unrecognised("%s: expected one %s.wait(), found %d" % (label, expr, len(calls)))
    return calls[0]


def _contains(node, target):
    return any(n is target for n in ast.walk(node))


def _locked_regions(fn, lock):
    """Statement lists of `fn` that run while `lock` (e.g. 'self.lock') is held:
    `lock.acquire(); try: <region> finally: lock.release()`  or  `with lock: <region>`."""
    regions = []
    for n in ast.walk(fn):
        for field in ("body", "orelse", "finalbody"):
            stmts = getattr(n, field, None)
            if not isinstance(stmts, list):
                continue
            for i, st in enumerate(stmts):
                if isinstance(st, ast.With) and [_u(it.context_expr) for it in st.items] == [lock]:
                    regions.append(st.body)
                if isinstance(st, ast.Expr) and _u(st) == lock + ".acquire()" and i + 1 < len(stmts) \
                        and isinstance(stmts[i + 1], ast.Try) \
                        and any(_u(f) == lock + ".release()" for f in stmts[i + 1].finalbody):
                    regions.append(stmts[i + 1].body)
    return regions


def _same_region(regions, *nodes):
    """all nodes lie inside one and the same locked region"""
    for reg in regions:
        if all(any(_contains(st, nd) for st in reg) for nd in nodes):
            return True
    return False


def _accept_row(fn):
    call = _single_wait(fn, "self.server_accept_cv", "accept")
    if [_u(a) for a in call.args] != ["timeout"]:
        raise Unrecognised("accept: wait argument is not the caller's timeout")
    for n in ast.walk(fn):
        if isinstance(n, ast.While) and _contains(n, call):
            raise Unrecognised("accept: the wait is inside a loop (shape not recognised)")
    # the active test counts when it is decided before the wait is reached: an `if not self.active`
    # (or elif) whose else-branch contains the wait and whose body does not
    # ... AND test and wait happen under one hold of the condition's lock (self.lock): a test made
    # before the lock is taken can be overtaken by close()'s notify_all (lost wake-up), so it gives
    # no guarantee and is not counted.
    regions = _locked_regions(fn, "self.lock")
    if not _same_region(regions, call):
        raise Unrecognised("accept: server_accept_cv.wait is not inside a self.lock region")
    has_pre = False
    for n in ast.walk(fn):
        if isinstance(n, ast.If) and _u(n.test) == "not self.active" \
                and any(_contains(s, call) for s in n.orelse) and not any(_contains(s, call) for s in n.body) \
                and _same_region(regions, n, call):
            has_pre = True
    exit_on = ["FInactive"] if has_pre else []
    # after waking it returns whatever is there (a channel or None): no loop
    return row("ApiAccept", "CvAccept", None, True, has_pre, False, exit_on)


def _pipe_read_row(fn):
    call = _single_wait(fn, "self._cv", "BufferedPipe.read")
    loops = [n for n in ast.walk(fn) if isinstance(n, ast.While) and _contains(n, call)]
    if len(loops) != 1:
        raise Unrecognised("BufferedPipe.read: wait not in exactly one loop")
    test = _u(loops[0].test)
    if [_u(a) for a in call.args] != ["timeout"]:
        raise Unrecognised("BufferedPipe.read: wait argument is not the caller's timeout")
    closed_tested = bool(re.search(r"not self\._closed", test)) and " or " not in test
    exit_on = ["FPipeClosed"] if closed_tested else []
    # `while <cond>: wait` tests the condition before the first wait and after every wake-up;
    # atomic only if the whole loop runs under the condition's lock
    atomic = _same_region(_locked_regions(fn, "self._lock"), loops[0])
    return row("ApiRecv", "CvInBuf", None, True, atomic, True, exit_on)


def _send_window_row(fn, send_fn):
    call = _single_wait(fn, "self.out_buffer_cv", "_wait_for_send_window")
    loops = [n for n in ast.walk(fn) if isinstance(n, ast.While) and _contains(n, call)]
    if len(loops) != 1:
        raise Unrecognised("_wait_for_send_window: wait not in exactly one loop")
    loop = loops[0]
    if [_u(a) for a in call.args] != ["timeout"]:
        raise Unrecognised("_wait_for_send_window: wait argument is not the channel timeout")
    closed_tested = False
    for s in loop.body:
        if _contains(s, call):
            break
        if isinstance(s, ast.If) and re.search(r"\bself\.closed\b", _u(s.test)) and " and " not in _u(s.test) \
                and s.body and isinstance(s.body[-1], (ast.Return, ast.Raise)):
            closed_tested = True
    exit_on = ["FChanClosed"] if closed_tested else []
    # "you are already holding the lock": the call in Channel._send must sit in a self.lock region
    calls = [n for n in ast.walk(send_fn) if isinstance(n, ast.Call) and _u(n.func) == "self._wait_for_send_window"]
    if len(calls) != 1:
        raise Unrecognised("Channel._send: expected one call of _wait_for_send_window")
    atomic = _same_region(_locked_regions(send_fn, "self.lock"), calls[0])
    return row("ApiSend", "CvOutBuf", None, True, closed_tested and atomic, True, exit_on)


def _event_wait_row(fn, expr, api, prim, label):
    call = _single_wait(fn, expr, label)
    if call.args or call.keywords:
        raise Unrecognised("%s: %s.wait has arguments" % (label, expr))
    for n in ast.walk(fn):
        if isinstance(n, ast.While) and _contains(n, call):
            raise Unrecognised("%s: wait inside a loop" % label)
    return row(api, prim, None, False, False, False, ["FEv %s" % prim])


def generate(repo):
    tr = _parse(repo, "transport.py")
    ch = _parse(repo, "channel.py")
    bp = _parse(repo, "buffered_pipe.py")
    ah = _parse(repo, "auth_handler.py")
    T = _cls(tr, "Transport")
    C = _cls(ch, "Channel")
    B = _cls(bp, "BufferedPipe")
    A = _cls(ah, "AuthHandler")

    epi, caught = _run_epilogue(_fn(T, "run"))
    bodies = {
        "FnRunEpilogue": _translate(epi, "run"),
        "FnClose": _translate(_strip_doc(_fn(T, "close").body), "close"),
        "FnStopThread": _translate(_strip_doc(_fn(T, "stop_thread").body), "stop_thread"),
        "FnUnlink": _translate(_strip_doc(_fn(C, "_unlink").body), "_unlink"),
        "FnSetClosed": _translate(_strip_doc(_fn(C, "_set_closed").body), "_set_closed"),
        "FnPipeClose": _translate(_strip_doc(_fn(B, "close").body), "pipe_close"),
        "FnAuthAbort": _translate(_strip_doc(_fn(A, "abort").body), "abort"),
    }
    rows = [
        _polling_row(_fn(T, "start_client"), "ApiStartClient", "EvCompletion", "start_client"),
        _polling_row(_fn(T, "start_server"), "ApiStartServer", "EvCompletion", "start_server"),
        _polling_row(_fn(T, "open_channel"), "ApiOpenChannel", "EvChanOpen", "open_channel"),
        _polling_row(_fn(T, "renegotiate_keys"), "ApiRenegotiate", "EvCompletion", "renegotiate_keys"),
        _polling_row(_fn(T, "global_request"), "ApiGlobalRequest", "EvCompletion", "global_request"),
        _polling_row(_fn(T, "_send_user_message"), "ApiSendUserMessage", "EvClearToSend", "_send_user_message"),
        _polling_row(_fn(A, "wait_for_response"), "ApiAuth", "EvAuth", "wait_for_response"),
        _accept_row(_fn(T, "accept")),
        _pipe_read_row(_fn(B, "read")),
        _send_window_row(_fn(C, "_wait_for_send_window"), _fn(C, "_send")),
        _event_wait_row(_fn(C, "_wait_for_event"), "self.event", "ApiChanRequest", "EvChanEvent", "_wait_for_event"),
        _event_wait_row(_fn(C, "recv_exit_status"), "self.status_event", "ApiExitStatus", "EvChanStatus",
                        "recv_exit_status"),
    ]
    # Channel.recv must reach BufferedPipe.read, Channel._send must reach _wait_for_send_window
    if "self.in_buffer.read(" not in _u(_fn(C, "recv")):
        raise Unrecognised("Channel.recv does not read from in_buffer")
    if "self._wait_for_send_window(" not in _u(_fn(C, "_send")):
        raise Unrecognised("Channel._send does not call _wait_for_send_window")

    lines = ["(* generated by gen/c13.py from paramiko/{transport,channel,buffered_pipe,auth_handler}.py",
             "   -- do not edit *)",
             "From Coq Require Import ZArith List.",
             "From PV Require Import WakeGraph.",
             "Import ListNotations.",
             "Open Scope Z_scope.",
             "",
             "(* exception classes caught in front of run()'s epilogue: %s *)" % ", ".join(caught),
             "Definition fn_body (f : fn) : list stmt :=",
             "  match f with"]
    for name in ("FnRunEpilogue", "FnClose", "FnStopThread", "FnUnlink", "FnSetClosed", "FnPipeClose",
                 "FnAuthAbort"):
        lines.append("  | %s => [%s]" % (name, ";\n      ".join(bodies[name])))
    lines.append("  end.")
    lines.append("")
    lines.append("Definition api_rows : list api_row := [")
    lines.append(";\n".join("  " + r for r in rows))
    lines.append("].")
    return {"C13_gen.v": "\n".join(lines) + "\n"}


if __name__ == "__main__":
    import sys
    print(generate(sys.argv[1] if len(sys.argv) > 1 else "/repo")["C13_gen.v"])
