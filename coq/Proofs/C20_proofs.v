(* C20 -- proofs: conservation of window credit, no deadlock at quiescence, termination of a
   transfer under a reader that keeps reading, every byte credited. *)
From Coq Require Import ZArith List Bool Lia ZifyBool.
From PV Require Import Bytes C19_gen C19 C19_proofs C20.
Import ListNotations.
Open Scope Z_scope.
Ltac Zify.zify_post_hook ::= Z.to_euclidean_division_equations.

(* the discard branch of _feed_extended credits the bytes (re-checked against the source each run;
   fails on a tree where `_feed_extended` drops them silently) *)
Lemma discard_credits : ext_discard_credits = true.
Proof. reflexivity. Qed.

(* ---- conservation ------------------------------------------------------------------------------ *)
Lemma conservation_inv W0 s : Inv W0 s -> ow s + outstanding s = W0.
Proof.
  intros HI. pose proof (i_win _ _ HI). pose proof (i_emit _ _ HI). pose proof (i_wire _ _ HI).
  pose proof (i_cred _ _ HI). pose proof (i_adj _ _ HI). unfold outstanding, in_hand. lia.
Qed.

Lemma conservation W P dmp c ops :
  0 <= W -> Forall op_wf ops ->
  let s := run (init2 W P dmp c) ops in
  ow s + outstanding s = W /\ g_lost s = 0.
Proof.
  intros HW Hwf s. pose proof (run_inv W ops _ (init_inv W P W dmp c HW HW) Hwf) as HI.
  split; [now apply conservation_inv|]. apply (i_lost0 _ _ HI), discard_credits.
Qed.

Lemma progress_inv W0 s :
  Inv W0 s -> thr s < W0 -> quiescent s ->
  W0 - thr s <= ow s + sum (awire s) /\ (0 < ow s \/ awire s <> []).
Proof.
  intros HI Ht (Ho & Hd & Ha & Hb & He).
  pose proof (conservation_inv _ _ HI) as Hc.
  pose proof (i_lost0 _ _ HI discard_credits) as Hl. pose proof (i_sofar _ _ HI) as Hsf.
  unfold outstanding, in_hand in Hc. rewrite Ho, Hd, Ha, Hb, He, Hl in Hc. cbn in Hc.
  split; [lia|]. destruct (awire s) as [|a r]; [left; cbn in Hc; lia|right; discriminate].
Qed.

Lemma progress W P dmp c ops :
  1 <= W -> Forall op_wf ops ->
  let s := run (init2 W P dmp c) ops in
  quiescent s ->
  W - W / 10 <= ow s + sum (awire s) /\ (0 < ow s \/ awire s <> []).
Proof.
  intros HW Hwf s Hq. assert (H0 : 0 <= W) by lia.
  pose proof (run_inv W ops _ (init_inv W P W dmp c H0 H0) Hwf) as HI.
  destruct (run_const ops (init2 W P dmp c)) as (_ & Ht & _).
  destruct (init_fields W P W dmp c) as (_ & Ht0 & _).
  fold s in HI, Ht. unfold init2 in Ht. rewrite Ht0 in Ht.
  destruct (threshold_spec W H0) as [_ Hlt]. specialize (Hlt HW).
  assert (Hthr : thr s = W / 10) by (rewrite Ht; reflexivity).
  destruct (progress_inv W s HI ltac:(lia) Hq) as [A B]. split; [lia|exact B].
Qed.

(* ---- each send call with an open window takes at least one byte ---------------------------------- *)
Lemma send_decreases W0 s k n :
  Inv W0 s -> eof s = false -> 0 < ow s -> 0 < n ->
  let '(s', r) := step s (OSend k n) in
  r = Z.min n (Z.min (ow s) (omp s - 64)) /\ 0 < r <= n /\ ow s' = ow s - r /\
  obox s' = obox s ++ [mk_msg k r] /\ g_res s' = g_res s + r.
Proof.
  intros HI He Hw Hn. pose proof (i_omp _ _ HI) as i_omp0. unfold step. rewrite He.
  destruct (send_must_wait (ow s)) eqn:E.
  { unfold send_must_wait in E. lia. }
  destruct (send_alloc (ow s) (omp s) n) as [size ow'] eqn:Ha.
  destruct (send_alloc_spec _ _ _ _ _ Hw i_omp0 (Z.lt_le_incl _ _ Hn) Ha) as (Hs1 & Hs2 & Hs3 & Hs4 & Hs5 & Hs6).
  destruct (send_nothing_spec size (proj1 Hs1)) as [Hz Hnz].
  destruct (send_nothing size) eqn:En.
  - specialize (Hz eq_refl). lia.
  - cbn [ow obox g_res]. repeat split; try lia; reflexivity.
Qed.

(* ---- a reader that keeps reading: the environment settles ----------------------------------------- *)
Lemma run_repeat_frame {A} (f : st -> A) o :
  (forall s, f (fst (step s o)) = f s) -> forall n s, f (run s (repeat o n)) = f s.
Proof. intros H n. induction n as [|n IH]; intros s; [reflexivity|]. cbn [repeat run]. rewrite IH. apply H. Qed.

Lemma run_repeat_inv W0 o : op_wf o -> forall n s, Inv W0 s -> Inv W0 (run s (repeat o n)).
Proof.
  intros Hwf n. induction n as [|n IH]; intros s HI; [exact HI|]. cbn [repeat run].
  apply IH. now apply step_inv.
Qed.

(* emptying a list one element per step *)
Lemma flush_out_obox : forall n s, length (obox s) = n -> obox (run s (repeat (OEmit 0) n)) = [].
Proof.
  induction n as [|n IH]; intros s H.
  - cbn. now apply length_zero_iff_nil.
  - cbn [repeat run]. apply IH. destruct (obox s) as [|m r] eqn:E; [discriminate|].
    unfold step. rewrite E. cbn. now injection H.
Qed.

Lemma drain_data_dwire : forall n s, length (dwire s) = n -> dwire (run s (repeat ODeliver n)) = [].
Proof.
  induction n as [|n IH]; intros s H.
  - cbn. now apply length_zero_iff_nil.
  - cbn [repeat run]. apply IH. destruct (dwire s) as [|m r] eqn:E; [discriminate|].
    unfold step. rewrite E. injection H as H.
    destruct m as [l|c l]; [exact H|].
    destruct (ext_discarded c); [destruct ext_discard_credits; [destruct (credit s l) as [[? ?] ?]|]|destruct (comb s)]; exact H.
Qed.

Lemma flush_adj_abox : forall n s, length (abox s) = n -> abox (run s (repeat (OEmitAdj 0) n)) = [].
Proof.
  induction n as [|n IH]; intros s H.
  - cbn. now apply length_zero_iff_nil.
  - cbn [repeat run]. apply IH. destruct (abox s) as [|m r] eqn:E; [discriminate|].
    unfold step. rewrite E. cbn. now injection H.
Qed.

Lemma drain_adj_awire : forall n s, length (awire s) = n -> awire (run s (repeat ODeliverAdj n)) = [].
Proof.
  induction n as [|n IH]; intros s H.
  - cbn. now apply length_zero_iff_nil.
  - cbn [repeat run]. apply IH. destruct (awire s) as [|m r] eqn:E; [discriminate|].
    unfold step. rewrite E. cbn. now injection H.
Qed.

(* frames *)
Lemma deliver_frame s : obox (fst (step s ODeliver)) = obox s.
Proof.
  unfold step. destruct (dwire s) as [|[l|c l] r]; try reflexivity.
  destruct (ext_discarded c); [destruct ext_discard_credits; [destruct (credit s l) as [[? ?] ?]|]|destruct (comb s)]; reflexivity.
Qed.

Lemma recv_frame s e n : obox (fst (step s (ORecv e n))) = obox s /\ dwire (fst (step s (ORecv e n))) = dwire s.
Proof. unfold step. destruct (_ =? 0); [auto|]. destruct (credit _ _) as [[? ?] ?]. auto. Qed.

Lemma emitadj_frame s i :
  let s' := fst (step s (OEmitAdj i)) in
  obox s' = obox s /\ dwire s' = dwire s /\ bout s' = bout s /\ berr s' = berr s.
Proof. unfold step. destruct (nth_error _ _); cbn; auto. Qed.

Lemma deliveradj_frame s :
  let s' := fst (step s ODeliverAdj) in
  obox s' = obox s /\ dwire s' = dwire s /\ bout s' = bout s /\ berr s' = berr s /\ abox s' = abox s.
Proof. unfold step. destruct (awire s); cbn; auto 6. Qed.

Lemma recv_all_out s : 0 <= bout s ->
  let s' := fst (step s (ORecv false (bout s))) in bout s' = 0 /\ berr s' = berr s.
Proof.
  intros Hb. unfold step. destruct (bout s =? 0) eqn:E; [cbn; lia|].
  rewrite Z.leb_refl. destruct (credit _ _) as [[? ?] ?]. cbn. lia.
Qed.

Lemma recv_all_err s : 0 <= berr s ->
  let s' := fst (step s (ORecv true (berr s))) in berr s' = 0 /\ bout s' = bout s.
Proof.
  intros Hb. unfold step. destruct (berr s =? 0) eqn:E; [cbn; lia|].
  rewrite Z.leb_refl. destruct (credit _ _) as [[? ?] ?]. cbn. lia.
Qed.

Lemma run_thr ops s : thr (run s ops) = thr s. Proof. apply run_const. Qed.
Lemma run_omp ops s : omp (run s ops) = omp s. Proof. apply run_const. Qed.
Lemma step_thr o s : thr (fst (step s o)) = thr s. Proof. apply step_const. Qed.
Lemma step_omp o s : omp (fst (step s o)) = omp s. Proof. apply step_const. Qed.

Lemma settle_const s : thr (settle s) = thr s /\ omp (settle s) = omp s.
Proof.
  unfold settle, drain_adj, flush_adj, read_all, drain_data, flush_out.
  split; repeat (rewrite ?run_thr, ?run_omp, ?step_thr, ?step_omp); reflexivity.
Qed.

Lemma settle_spec W0 s : Inv W0 s -> Inv W0 (settle s) /\ settled (settle s) /\ thr (settle s) = thr s /\ omp (settle s) = omp s.
Proof.
  intros HI. unfold settle.
  (* stage 1 *)
  set (s1 := flush_out s).
  assert (I1 : Inv W0 s1) by (apply run_repeat_inv; [exact I|exact HI]).
  assert (O1 : obox s1 = []) by (apply flush_out_obox; reflexivity).
  (* stage 2 *)
  set (s2 := drain_data s1).
  assert (I2 : Inv W0 s2) by (apply run_repeat_inv; [exact I|exact I1]).
  assert (D2 : dwire s2 = []) by (apply drain_data_dwire; reflexivity).
  assert (O2 : obox s2 = []).
  { unfold s2, drain_data. rewrite (run_repeat_frame obox ODeliver deliver_frame). exact O1. }
  (* stage 3 *)
  set (s3 := read_all s2).
  set (s2a := fst (step s2 (ORecv false (bout s2)))).
  assert (I2a : Inv W0 s2a) by (apply step_inv; [exact I2|exact (i_bout _ _ I2)]).
  assert (I3 : Inv W0 s3) by (apply step_inv; [exact I2a|exact (i_berr _ _ I2a)]).
  destruct (recv_all_out s2 (i_bout _ _ I2)) as [B2a E2a]. fold s2a in B2a, E2a.
  destruct (recv_all_err s2a (i_berr _ _ I2a)) as [E3 B3].
  change (fst (step s2a (ORecv true (berr s2a)))) with s3 in E3, B3.
  destruct (recv_frame s2 false (bout s2)) as [Oa Da]. fold s2a in Oa, Da.
  destruct (recv_frame s2a true (berr s2a)) as [Ob Db].
  change (fst (step s2a (ORecv true (berr s2a)))) with s3 in Ob, Db.
  assert (O3 : obox s3 = []) by congruence.
  assert (D3 : dwire s3 = []) by congruence.
  assert (Bo3 : bout s3 = 0) by congruence.
  (* stage 4 *)
  set (s4 := flush_adj s3).
  assert (I4 : Inv W0 s4) by (apply run_repeat_inv; [exact I|exact I3]).
  assert (A4 : abox s4 = []) by (apply flush_adj_abox; reflexivity).
  assert (F4 : obox s4 = obox s3 /\ dwire s4 = dwire s3 /\ bout s4 = bout s3 /\ berr s4 = berr s3).
  { unfold s4, flush_adj. repeat split.
    - apply (run_repeat_frame obox (OEmitAdj 0)). intros x. apply (emitadj_frame x 0).
    - apply (run_repeat_frame dwire (OEmitAdj 0)). intros x. apply (emitadj_frame x 0).
    - apply (run_repeat_frame bout (OEmitAdj 0)). intros x. apply (emitadj_frame x 0).
    - apply (run_repeat_frame berr (OEmitAdj 0)). intros x. apply (emitadj_frame x 0). }
  destruct F4 as (O4 & D4 & Bo4 & Be4).
  (* stage 5 *)
  set (s5 := drain_adj s4).
  assert (I5 : Inv W0 s5) by (apply run_repeat_inv; [exact I|exact I4]).
  assert (W5 : awire s5 = []) by (apply drain_adj_awire; reflexivity).
  assert (F5 : obox s5 = obox s4 /\ dwire s5 = dwire s4 /\ bout s5 = bout s4 /\ berr s5 = berr s4 /\ abox s5 = abox s4).
  { unfold s5, drain_adj. repeat split.
    - apply (run_repeat_frame obox ODeliverAdj). intros x. apply (deliveradj_frame x).
    - apply (run_repeat_frame dwire ODeliverAdj). intros x. apply (deliveradj_frame x).
    - apply (run_repeat_frame bout ODeliverAdj). intros x. apply (deliveradj_frame x).
    - apply (run_repeat_frame berr ODeliverAdj). intros x. apply (deliveradj_frame x).
    - apply (run_repeat_frame abox ODeliverAdj). intros x. apply (deliveradj_frame x). }
  destruct F5 as (O5 & D5 & Bo5 & Be5 & A5).
  split; [exact I5|]. split.
  - split; [|exact W5]. unfold quiescent. repeat split; congruence.
  - apply settle_const.
Qed.

Definition nosend (o : op) : Prop := match o with OSend _ _ => False | _ => True end.

Lemma step_gres s o : nosend o -> g_res (fst (step s o)) = g_res s.
Proof.
  destruct o as [k n|i| |err n|i| |b| ]; unfold step; intros H; try contradiction; try reflexivity.
  - destruct (nth_error _ _); auto.
  - destruct (dwire s) as [|[l|c l] r]; auto.
    destruct (ext_discarded c); [destruct ext_discard_credits; [destruct (credit s l) as [[? ?] ?]|]|destruct (comb s)]; auto.
  - destruct (_ =? 0); [auto|]. destruct (credit _ _) as [[? ?] ?]. auto.
  - destruct (nth_error _ _); auto.
  - destruct (awire s); auto.
Qed.

Definition noshut (o : op) : Prop := match o with OShutW => False | _ => True end.

Lemma step_eof s o : noshut o -> eof (fst (step s o)) = eof s.
Proof.
  destruct o as [k n|i| |err n|i| |b| ]; unfold step; intros H; try contradiction; try reflexivity.
  - destruct (eof s) eqn:E; [exact E|]. destruct (send_must_wait _); [exact E|].
    destruct (send_alloc _ _ _). destruct (send_nothing _); reflexivity.
  - destruct (nth_error _ _); auto.
  - destruct (dwire s) as [|[l|c l] r]; auto.
    destruct (ext_discarded c); [destruct ext_discard_credits; [destruct (credit s l) as [[? ?] ?]|]|destruct (comb s)]; auto.
  - destruct (_ =? 0); [auto|]. destruct (credit _ _) as [[? ?] ?]. auto.
  - destruct (nth_error _ _); auto.
  - destruct (awire s); auto.
Qed.

Lemma settle_eof s : eof (settle s) = eof s.
Proof.
  unfold settle, drain_adj, flush_adj, read_all, drain_data, flush_out.
  rewrite (run_repeat_frame eof ODeliverAdj) by (intros; now apply step_eof).
  rewrite (run_repeat_frame eof (OEmitAdj 0)) by (intros; now apply step_eof).
  rewrite !step_eof by exact I.
  rewrite (run_repeat_frame eof ODeliver) by (intros; now apply step_eof).
  rewrite (run_repeat_frame eof (OEmit 0)) by (intros; now apply step_eof).
  reflexivity.
Qed.

Lemma settle_gres s : g_res (settle s) = g_res s.
Proof.
  unfold settle, drain_adj, flush_adj, read_all, drain_data, flush_out.
  rewrite (run_repeat_frame g_res ODeliverAdj) by (intros; now apply step_gres).
  rewrite (run_repeat_frame g_res (OEmitAdj 0)) by (intros; now apply step_gres).
  rewrite !step_gres by exact I.
  rewrite (run_repeat_frame g_res ODeliver) by (intros; now apply step_gres).
  rewrite (run_repeat_frame g_res (OEmit 0)) by (intros; now apply step_gres).
  reflexivity.
Qed.

Lemma settled_emitted W0 s : Inv W0 s -> settled s -> emitted s = g_res s /\ emitted s = g_cons s + g_disc s.
Proof.
  intros HI [(Ho & Hd & Ha & Hb & He) Hw]. unfold emitted.
  pose proof (i_emit _ _ HI) as i_emit0. pose proof (i_wire _ _ HI) as i_wire0.
  rewrite Ho in i_emit0. rewrite Hd, Hb, He in i_wire0. cbn in i_emit0, i_wire0. lia.
Qed.

Lemma settled_open W0 s : Inv W0 s -> thr s < W0 -> settled s -> 0 < ow s.
Proof.
  intros HI Ht [Hq Ha]. destruct (progress_inv _ _ HI Ht Hq) as [_ [H|H]]; [exact H|contradiction].
Qed.

Lemma round_spec W0 s k n :
  Inv W0 s -> thr s < W0 -> settled s -> eof s = false -> 0 < n ->
  let '(s', p') := round k n s in
  Inv W0 s' /\ thr s' = thr s /\ settled s' /\ eof s' = false /\ 0 <= p' < n /\
  p' = n - Z.min n (Z.min (ow s) (omp s - 64)) /\ g_res s' = g_res s + (n - p').
Proof.
  intros HI Ht Hs He Hn. pose proof (settled_open _ _ HI Ht Hs) as Hw.
  unfold round. pose proof (send_decreases W0 s k n HI He Hw Hn) as Hd.
  pose proof (step_inv W0 s (OSend k n) HI ltac:(cbn; lia)) as HI1.
  pose proof (step_eof s (OSend k n) I) as He1.
  destruct (step_const s (OSend k n)) as (Ho1 & Ht1 & _).
  destruct (step s (OSend k n)) as [s1 r]. cbn [fst] in HI1, Ho1, Ht1, He1.
  destruct Hd as (Hr & Hrn & _ & _ & Hg).
  destruct (settle_spec W0 s1 HI1) as (I' & S' & T' & O').
  pose proof (settle_gres s1) as G'. pose proof (settle_eof s1) as E'.
  split; [exact I'|]. split; [congruence|]. split; [exact S'|]. split; [congruence|]. split; [lia|]. split; lia.
Qed.

Lemma transfer_completes_inv W0 k : forall fuel n s,
  Inv W0 s -> thr s < W0 -> settled s -> eof s = false -> 0 <= n -> n <= Z.of_nat fuel ->
  let '(s', p) := transfer fuel k n s in p = 0 /\ Inv W0 s' /\ settled s' /\ g_res s' = g_res s + n.
Proof.
  induction fuel as [|f IH]; intros n s HI Ht Hs He Hn Hf.
  - cbn. split; [lia|]. split; [assumption|]. split; [assumption|lia].
  - cbn [transfer]. destruct (n <=? 0) eqn:E; [split; [lia|]; split; [assumption|]; split; [assumption|lia]|].
    pose proof (round_spec W0 s k n HI Ht Hs He ltac:(lia)) as Hr.
    destruct (round k n s) as [s' p']. destruct Hr as (I' & T' & S' & E' & Hp & _ & G').
    specialize (IH p' s' I' ltac:(lia) S' E' ltac:(lia) ltac:(lia)).
    destruct (transfer f k p' s') as [s'' p'']. destruct IH as (A & B & C & D).
    split; [assumption|]. split; [assumption|]. split; [assumption|lia].
Qed.

Lemma transfer_completes W P dmp c ops k n :
  1 <= W -> Forall op_wf ops -> 0 <= n ->
  let s0 := settle (run (init2 W P dmp c) ops) in
  eof s0 = false ->
  let '(s', p) := transfer (Z.to_nat n) k n s0 in
  p = 0 /\ settled s' /\ emitted s' = emitted s0 + n /\ g_cons s' + g_disc s' = g_cons s0 + g_disc s0 + n.
Proof.
  intros HW Hwf Hn s0 He0. assert (H0 : 0 <= W) by lia.
  pose proof (run_inv W ops _ (init_inv W P W dmp c H0 H0) Hwf) as HI.
  destruct (settle_spec W _ HI) as (I0 & S0 & T0 & _). fold s0 in I0, S0, T0.
  destruct (run_const ops (init2 W P dmp c)) as (_ & Ht & _).
  destruct (init_fields W P W dmp c) as (_ & Ht0 & _). unfold init2 in Ht. rewrite Ht0 in Ht.
  destruct (threshold_spec W H0) as [_ Hlt]. specialize (Hlt HW).
  assert (Hthr : thr s0 < W).
  { unfold s0, init2. rewrite T0, Ht. exact Hlt. }
  pose proof (transfer_completes_inv W k (Z.to_nat n) n s0 I0 Hthr S0 He0 Hn ltac:(lia)) as Hc.
  destruct (transfer (Z.to_nat n) k n s0) as [s' p] eqn:E.
  destruct Hc as (Hp & I' & S' & G'). split; [exact Hp|]. split; [exact S'|].
  (* byte accounting: what was pending has been emitted, delivered and consumed / discarded *)
  destruct (settled_emitted W s' I' S') as [E1 E2]. destruct (settled_emitted W s0 I0 S0) as [E3 E4].
  split; lia.
Qed.
