(* C26 -- channel receive buffers (paramiko.buffered_pipe.BufferedPipe) are lossless FIFOs
   with correct close and timeout rules, under any interleaving.
   Property statements only; every proof is `exact <lemma from Proofs/C26_proofs.v>`.

   Reading guide: [ps] are the thread programs (lists of atomic actions = critical sections
   of feed / read / empty / close / set_event, tagged with the thread id; a read is ARead
   followed by one AWake per return of cv.wait, whose clock reading dt is an arbitrary
   environment input); [sched] is any merge of them; [run init sched = Some s] says every
   action was enabled when scheduled (a blocked read is not enabled until notified or timed). *)
From PV Require Import Bytes Sched C26 C26_proofs.
Open Scope Z_scope.

(* everything read and emptied, in completion order, followed by what is still buffered, is
   exactly everything fed, in order -- after every interleaving of every set of programs *)
Theorem C26_fifo :
  forall (ps : list (list action)) (sched : list action) (s : state),
    interleave ps sched -> run init sched = Some s ->
    got_of (hist s) ++ buf s = feeds sched.
Proof. exact fifo_all. Qed.
Print Assumptions C26_fifo.

(* a read of size >= 1 returns the empty string only when the pipe is closed and drained:
   a close precedes it in the schedule and everything fed before it has been delivered *)
Theorem C26_empty_only_when_closed :
  forall (ps : list (list action)) sched pre a post s s' n,
    interleave ps sched -> sched = pre ++ a :: post ->
    run init pre = Some s -> step s a = Some (s', ORet n []) -> 1 <= n ->
    closed s = true /\ buf s = [] /\
    (exists j, In (j, AClose) pre) /\ got_of (hist s) = feeds pre.
Proof. exact empty_only_when_closed. Qed.
Print Assumptions C26_empty_only_when_closed.

(* PipeTimeout leaves the buffer, the closed flag and the delivered data untouched (so by
   C26_fifo the data is there for later reads) *)
Theorem C26_timeout_keeps_data :
  forall (ps : list (list action)) sched pre a post s s',
    interleave ps sched -> sched = pre ++ a :: post ->
    run init pre = Some s -> step s a = Some (s', OTimeout) ->
    buf s' = buf s /\ closed s' = closed s /\ got_of (hist s') = got_of (hist s).
Proof. exact timeout_keeps_data. Qed.
Print Assumptions C26_timeout_keeps_data.

(* PipeTimeout is raised only when no data is buffered, for every clock reading (code as
   repaired by fixes/C26-timeout-retest-buffer.diff) *)
Theorem C26_timeout_only_if_no_data :
  forall (ps : list (list action)) sched pre a post s s',
    interleave ps sched -> sched = pre ++ a :: post ->
    run init pre = Some s -> step s a = Some (s', OTimeout) ->
    buf s = [] /\ got_of (hist s) = feeds pre.
Proof. exact timeout_only_if_no_data. Qed.
Print Assumptions C26_timeout_only_if_no_data.

(* the original order of tests (deadline before buffer) violates it: a feed that lands while
   the reader waits, with the clock at the deadline, gives PipeTimeout with data buffered *)
Theorem C26_timeout_only_if_no_data_v0_refuted :
  exists sched s a s',
    run_v0 init sched = Some s /\ step_v0 s a = Some (s', OTimeout) /\ buf s <> [].
Proof. exact v0_timeout_with_data. Qed.
Print Assumptions C26_timeout_only_if_no_data_v0_refuted.

(* no lost wake-up: in every reachable state with data buffered or the pipe closed, every
   blocked reader has been notified, its wake-up is enabled for every clock reading, and the
   wake-up completes the read (data, end-of-file or timeout -- never back to waiting) *)
Theorem C26_no_lost_wakeup :
  forall (ps : list (list action)) sched pre post s i w,
    interleave ps sched -> sched = pre ++ post -> run init pre = Some s ->
    waiters s i = Some w -> (buf s <> [] \/ closed s = true) ->
    w_notified w = true /\
    forall dt, exists s' o, step s (i, AWake dt) = Some (s', o) /\ o <> OBlocked.
Proof. exact no_lost_wakeup. Qed.
Print Assumptions C26_no_lost_wakeup.

(* the event installed by set_event is set whenever the pipe is readable or closed *)
Theorem C26_event_set_when_ready :
  forall (ps : list (list action)) sched pre post s,
    interleave ps sched -> sched = pre ++ post -> run init pre = Some s ->
    has_ev s = true -> (buf s <> [] \/ closed s = true) -> ev s = true.
Proof. exact event_set_when_ready. Qed.
Print Assumptions C26_event_set_when_ready.

(* non-vacuity: three threads; the reader blocks, is fed, wakes exactly at its deadline and
   still gets the data (partial read), empty() takes the rest, a second read blocks, close
   wakes it and it returns end-of-file *)
Example C26_example :
  interleave ex_progs ex_sched /\
  exists s, run init ex_sched = Some s /\ buf s = [] /\ closed s = true /\
            got_of (hist s) = [1; 2; 3] /\
            map (fun e => snd e) (rev (hist s)) =
              [OBlocked; ODone; ORet 2 [1; 2]; OEmptied [3]; OBlocked; ODone; ORet 2 []].
Proof. exact example_interleaving. Qed.

(* the refutation schedule on the repaired code returns the data instead *)
Example C26_example_repaired :
  exists s s', run init v0_sched = Some s /\ step s (1, AWake 5) = Some (s', ORet 2 [7]).
Proof. exact v1_same_schedule. Qed.
